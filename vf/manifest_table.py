"""Single source for MANIFEST.json (tools/mkmanifest.py)."""
ENGINES = [
    {"name": "grammar", "path": "vf/engine/grammar.py", "serves_properties": ["C19"],
     "kind_free_text": "enumerator of all derivations of a weighted attribute grammar up to size bounds (exact count/unrank, smallest first); programs run through the real BDParser / SB21Helper / load_from_config and compared with the independent semantics vf/ref/bd_sem.py"},
    {"name": "product-keys", "path": "vf/props/c08.py", "serves_properties": ["C08"],
     "kind_free_text": "full product over the 29-key fixture pool x serialisation x password x entry point; sign/verify product incl. exhaustive single-bit flips; all (len r, msb r, len s, msb s) ECDSA shape classes; independent references vf/ref/ecdsa.py, rsa.py, der.py"},
    {"name": "lattice+sequences-sb2", "path": "vf/props/c04.py", "serves_properties": ["C04"],
     "kind_free_text": "all command sequences up to a length bound over a boundary-value alphabet + all header/option configurations with <= k departures, built with the real BootImageV20/V21 and decoded by an independent ROM model (vf/ref/rom_sb2.py, certblock_v1.py); region-wise bit-flip sweep"},
    {"name": "sweep-crypto", "path": "vf/props/c09.py", "serves_properties": ["C09"],
     "kind_free_text": "exhaustive product sweeps (every message length, every IV-default combination, all counter increment sequences) on the real wrappers against pure-Python reference implementations in vf/ref (aes.py, crc.py, kdf.py) self-tested on published vectors"},
    {"name": "envdev+bfs-protocol", "path": "vf/props/c10.py", "serves_properties": ["C10"],
     "kind_free_text": "real McuBoot stack over fakes at the pyserial / libusbsio boundary backed by a reference bootloader model; BFS over operation histories; single-fault enumeration over every position of the device->host stream; virtual clock"},
    {"name": "procsched+crashpoints", "path": "vf/engine/procsched.py", "serves_properties": ["C18"],
     "kind_free_text": "FS/lock seams installed in forked children, write-history logger, crash-state materialiser, controlled scheduler over real OS processes with preemption-bounded stateless exploration"},
    {"name": "histories-fresh-interpreter", "path": "vf/props/c17.py", "serves_properties": ["C17"],
     "kind_free_text": "all construction histories up to a length bound, each executed in a fresh interpreter under a counting RNG installed before import; freshness decided on draw indices"},
    {"name": "bfs-registers", "path": "vf/props/c11.py", "serves_properties": ["C11"],
     "kind_free_text": "explicit-state breadth-first search over operation histories on real Registers objects (history replay, canonical raw-state dedup), dict-of-ints reference model"},
    {"name": "sweep", "path": "vf/props/c20.py", "serves_properties": ["C20"],
     "kind_free_text": "exhaustive loops over small string/integer domains executed on the real helpers, own recogniser as oracle"},
]
FIX_COMMITS = ["e173e89", "69c9427", "3f819f3", "2ac9b91", "83ab516", "2982182", "b4341d3", "f68c828", "1e56e39", "8e8a574", "2622fd6", "9334850", "fd62f71", "1ea4c23", "c7c34d4", "dd26e59", "6b2a920", "698b0bb", "7a9bdd4", "d847120"]
NOT_APPLICABLE = {}
CHECKS = {
    "C19": {
        "engine": "grammar", "level": "exploration", "design_ref": "DESIGN.md §20",
        "technique": "bounded exhaustive enumeration of programs: all derivations of the BD grammar up to a size bound (arithmetic trees <= 4/5 operator nodes, boolean trees <= 3/4, all block orders with multiplicity <= 2, statement forms x operand sets, 1..3 sections x 0..3 statements), each compiled by the real parser/helper and compared with an independent denotational semantics",
        "text": "Every program the grammar derives within the bounds (686 k quick / 8.5 M thorough) is parsed by the real BDParser and, for the statement layer, turned into command objects by the real helper / BootImageV21.load_from_config; expression values, the parser dictionary and the 16-byte command headers and payloads must equal what vf/ref/bd_sem.py (own lexer, C precedence, exact integers; command model calibrated on elftosb-made golden files) prescribes; unsupported constructs must be refused with SPSDKError; a reused parser must not leak state.",
        "note": "Trusted: vf/ref/bd_sem.py and the grammar transcription from docs/usage/elf2sb.md; conventions that differ between C and Python (negative operands of / % << >>, division by zero) are excluded and counted; deeper trees and other literals are outside.",
    },
    "C08": {
        "engine": "product-keys", "level": "exploration", "design_ref": "DESIGN.md §9",
        "technique": "bounded exhaustive enumeration: full product key pool x encoding x password x entry point, sign/verify parameter product with all single-bit flips of short messages and of ECC signatures, and all 30473 (len r, msb r, len s, msb s) shape classes per curve, executed on the real classes and CLIs and compared with independent pure-Python ECDSA/RSA/DER references",
        "text": "Every pool key (RSA-2048/3072/4096, P-256/384/521 incl. leading-zero coordinates) is exported and re-parsed through every supported serialisation, password and entry point and compared with the fixture numbers; every supported signing parameter set is verified by SPSDK and by own RFC 8017 / ECDSA implementations, with exhaustive single-bit corruption of message and signature; raw<->DER ECDSA conversion is run over all shape classes of (r, s).",
        "note": "Trusted: vf/ref/ecdsa.py, rsa.py, der.py (self-tested on RFC 6979 and OpenSSL-made vectors), the 29-key fixture pool; SM2/PQC back ends are not installed; a verify call that raises on an invalid signature counts as refusal.",
    },
    "C04": {
        "engine": "lattice+sequences-sb2", "level": "exploration", "design_ref": "DESIGN.md §5",
        "technique": "bounded exhaustive enumeration: all command sequences of length <= 2 (3-4 thorough) over a 58-symbol boundary alphabet, all section pairs, all 16-dimension header configurations with <= 1-2 departures, HMAC-table x block-count product; every built file decoded by an independent ROM model; single-bit tamper sweep per region",
        "text": "Every enumerated SB2.0/2.1 image is built by the real classes with explicit DEK/MAC/nonce and processed by a bytes-only ROM model holding the KEK (RFC 3394 unwrap, header and section HMACs, cert block v1 chain and signature, AES-CTR with its own block counter, command checksums and CRC): the decoded command list and header fields must equal what was given, SPSDK's own parser must agree, and wrong KEK / single-bit corruption of each region must be refused by both. The model is calibrated on the repository's 34 golden SB2 files at every run.",
        "note": "Trusted: vf/ref/rom_sb2.py and certblock_v1.py (calibrated on NXP's goldens); a non-SPSDK exception type from parse() of a corrupted file is counted, not judged (the property says 'raises an error'); payloads > 258 blocks and BD semantics (C19) are outside.",
    },
    "C09": {
        "engine": "sweep-crypto", "level": "exploration", "design_ref": "DESIGN.md §10",
        "technique": "bounded exhaustive enumeration: full product of key size x key/IV pattern x IV-default combination x every message length 0..80 (272 thorough) plus boundary lengths, all Counter increment sequences to depth 2/3, executed on the real wrappers and compared with independent pure-Python references",
        "text": "Every wrapper of spsdk.crypto (AES-ECB/CBC/CTR/XTS/CCM, key wrap, SM4-CBC, hashes, HMAC, CMAC, HKDF, three CRCs, key-store and SB3.1 derivations, the CTR block counter) is executed over the complete product of the stated small dimensions and compared with references written from the standards (self-tested on FIPS-197, SP 800-38A/B/C, IEEE 1619, RFC 3394/3610/4493/5869, GB/T 32907 vectors); decrypt(encrypt(m)) is checked in all four IV-default combinations.",
        "note": "Trusted: vf/ref/aes.py, crc.py, kdf.py (self-tested on published vectors at setup) and the RT5xx golden files used to calibrate the key-store constants; byte values outside the pattern alphabet and lengths above the bounds are not explored.",
    },
    "C10": {
        "engine": "envdev+bfs-protocol", "level": "model_checking", "design_ref": "DESIGN.md §11",
        "technique": "explicit-state BFS over McuBoot and SDP operation sequences against a reference device model, plus exhaustive single-fault injection at every byte/report of the device-to-host stream, all executed on the real protocol stack under a virtual clock",
        "text": "Real McuBoot and SDP over the real UART and USB interface/device classes talk to a reference bootloader through fakes of pyserial.Serial / libusbsio HID_DEVICE. Fault-free: all operation sequences to depth 2 (quick) / 3 (thorough) per device configuration must have exactly the device effects, results and status the protocol defines, with no protocol violation seen by the device's own deframer. Faults: for every listed operation and every byte offset (serial) / report (HID) of the device-to-host stream, every fault kind is injected once; the call must terminate within the virtual-time horizon and never claim success with a result or device effect different from the fault-free run.",
        "note": "Trusted: vf/ref/mboot_dev.py as protocol definition. SDPS, buspal/usbsio/CAN/SDIO device classes, lengths > 8 KiB and double faults (thorough subset only) are outside; HID payload corruption is undetectable by construction and not injected.",
    },
    "C18": {
        "engine": "procsched+crashpoints", "level": "fault_enumeration", "design_ref": "DESIGN.md §19",
        "technique": "crash-point enumeration over the recorded write history of both cache files (every generation x prefix-length class / every byte in thorough) plus stateless model checking of 2-3 real forked processes under a controlled scheduler, all interleavings with <= p preemptions",
        "text": "Every crash state of the cache (generation x prefix length, empty, stale, foreign, lock files, class combinations of both files) is materialised and the real first-use code runs on it in a forked child: it must end normally, answer the query battery exactly like the cache-disabled reference and leave only complete caches behind. Concurrent first use of N=2,3 processes is explored exhaustively at file-system/lock granularity up to the preemption bound from cold, valid, empty, truncated and stale caches; a free-running 12-process pass guards against the scheduler hiding an unlocked access.",
        "note": "Crash model = process killed (file = prefix of bytes written), no storage reordering; N<=3 under the scheduler; load_configuration memoised in the zygote and validated end-to-end with real processes per outcome class; quick tier partitions prefix lengths by pickle frame/opcode/write boundaries.",
    },
    "C17": {
        "engine": "histories-fresh-interpreter", "level": "model_checking", "design_ref": "DESIGN.md §18",
        "technique": "exhaustive enumeration of construction histories (all sequences with repetition over 14 artifact kinds, length <= 2 quick / <= 3 thorough), each run on the real code in a fresh interpreter under a counting random source; oracle on draw indices",
        "text": "Every sequence of artifact constructions up to the bound is executed in its own interpreter with `secrets` replaced before import, under two generator seeds; a self-chosen field must be traceable to draws made during its own artifact's construction, no draw may feed two artifacts or appear in a foreign export, and values must change with the seed. Inside the bound this decides same-process sharing and import-time (cross-process-identical-by-construction) values.",
        "note": "Trusted: that spsdk.crypto.rng (secrets.*) is the only entropy source for these fields; OpenSSL-internal signature randomness is out of scope; histories longer than the bound are not explored.",
    },
    "C11": {
        "engine": "bfs-registers", "level": "model_checking", "design_ref": "DESIGN.md §12",
        "technique": "explicit-state model checking of the implementation: BFS over all operation sequences up to depth 3 (quick) / 4-5 (thorough) per generated register layout, state = canonical raw register values, step-wise comparison with a reference model",
        "text": "For 19 generated layouts (widths 8..512, field partitions, enums, config processor, groups with normal/reversed sub-register order, reversed byte order, alternative widths, both base endiannesses) every sequence of writes/resets/round trips/queries up to the depth bound over a boundary-value alphabet is executed on real objects and compared step by step with a dict-of-ints model; for most layouts the reachable state space closes (fixpoint) below the bound, which makes the result exhaustive for that alphabet.",
        "note": "Trusted: the reference model in vf/props/c11.py; layouts are generated (not every database register file); values outside the alphabet and bit-fields not covering their register are not explored.",
    },
    "C20": {
        "engine": "sweep", "level": "exploration", "design_ref": "DESIGN.md §21",
        "technique": "bounded exhaustive enumeration of inputs (all strings <= 5/6 symbols over an 18-symbol alphabet, small integer cubes) executed on the implementation, compared with an independent reference",
        "text": "Every string up to the length bound over the alphabet and every integer/alignment/length tuple in the stated ranges is executed on the real helpers and compared with an own recogniser / arithmetic; inside the bounds the answer is complete, outside (longer strings, other symbols) nothing is claimed.",
        "note": "Trusted: the reference recogniser in vf/props/c20.py (transcribed from the documented grammar) and Python's integer arithmetic.",
    },
}
