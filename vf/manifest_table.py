"""Single source for MANIFEST.json (tools/mkmanifest.py)."""
ENGINES = [
    {"name": "sweep", "path": "vf/props/c20.py", "serves_properties": ["C20"],
     "kind_free_text": "exhaustive loops over small string/integer domains executed on the real helpers, own recogniser as oracle"},
]
FIX_COMMITS = ["e173e89", "69c9427", "3f819f3", "2ac9b91", "83ab516"]
NOT_APPLICABLE = {}
CHECKS = {
    "C20": {
        "engine": "sweep", "level": "exploration", "design_ref": "DESIGN.md §21",
        "technique": "bounded exhaustive enumeration of inputs (all strings <= 5/6 symbols over a 17-symbol alphabet, small integer cubes) executed on the implementation, compared with an independent reference",
        "text": "Every string up to the length bound over the alphabet and every integer/alignment/length tuple in the stated ranges is executed on the real helpers and compared with an own recogniser / arithmetic; inside the bounds the answer is complete, outside (longer strings, other symbols) nothing is claimed.",
        "note": "Trusted: the reference recogniser in vf/props/c20.py (transcribed from the documented grammar) and Python's integer arithmetic.",
    },
}
