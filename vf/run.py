"""CLI: python -m vf.run <Cxx> [--tier quick|thorough] [--replay file]"""
from __future__ import annotations

import argparse
import importlib
import json
import os
import sys
import traceback

from vf import core

LEVELS = {
    "C10": "model_checking", "C11": "model_checking", "C16": "model_checking",
    "C17": "model_checking", "C18": "fault_enumeration", "C05": "model_checking",
}


def main() -> int:
    ap = argparse.ArgumentParser()
    ap.add_argument("pid")
    ap.add_argument("--tier", default=os.environ.get("VERIF_TIER", "quick"), choices=["quick", "thorough"])
    ap.add_argument("--replay", default=None)
    a = ap.parse_args()
    pid = a.pid.upper()
    seed = int(os.environ.get("VERIF_SEED", "0") or 0)
    try:
        core.bind_repo()
        mod = importlib.import_module(f"vf.props.{pid.lower()}")
        ctx = core.Ctx(pid, a.tier, seed, getattr(mod, "LEVEL", LEVELS.get(pid, "exploration")))
        if a.replay:
            rec = core.unhex(json.load(open(a.replay)))
            ctx.replay_case = rec
            res = mod.replay(ctx, rec)
            print("REPLAY", "violates" if res else "holds", rec.get("clause"), rec.get("disc"))
            return 1 if res else 0
        mod.run(ctx)
        rc = ctx.finish()
        c = ctx.counters
        print(f"[{pid}] tier={a.tier} seed={seed} evaluations={c.get('evaluations', 0)} "
              f"distinct={len(ctx.distinct)} exhaustive={ctx.exhaustive} "
              f"violations={len(ctx.viols)} wall={core.time.time() - ctx.t0:.1f}s rc={rc}")
        return rc
    except core.HarnessError as e:
        print(f"HARNESS-ERROR {pid}: {e}", file=sys.stderr)
        return 2
    except Exception:
        traceback.print_exc()
        print(f"HARNESS-ERROR {pid}: unexpected exception in the machinery", file=sys.stderr)
        return 2


if __name__ == "__main__":
    sys.exit(main())
