"""Engine E1 `lattice` (DESIGN §1.4): bounded exhaustive enumeration of configurations.

A configuration space is a list of *dimensions*, each an ordered finite domain whose element 0 is
the default.  `Lattice.enumerate(k)` returns **every** assignment with at most `k` dimensions away
from their default ("departures"), simplest first (fewer departures, then smaller value indices,
then dimension order), followed by the complete cross product of every declared *full-product
group* (a set of dimensions whose interactions are always explored completely, the other
dimensions staying at their default).  Assignments are sparse dicts {dimension name: value index}
holding the non-default dimensions only, so the base configuration is `{}` and a case stays small
in a replay file.  Nothing is sampled; the enumeration is a pure function of (dimensions, groups,
k).

`DimTable` keeps the per-dimension table the evidence reports: for every value of every dimension
how many explored configurations carried it, how many the builder accepted, how many it rejected.
"""
from __future__ import annotations

import itertools
from typing import Any, Iterable, Optional, Sequence


class Dim:
    def __init__(self, name: str, values: Sequence[Any]):
        if len(values) < 1:
            raise ValueError(f"dimension {name}: empty domain")
        self.name = name
        self.values = list(values)

    def __len__(self) -> int:
        return len(self.values)

    def __repr__(self) -> str:
        return f"Dim({self.name}, {self.values})"


class Lattice:
    def __init__(self, dims: Sequence[Dim], groups: Iterable[Sequence[str]] = ()):
        self.dims = [d for d in dims]
        self.by_name = {d.name: d for d in self.dims}
        if len(self.by_name) != len(self.dims):
            raise ValueError("duplicate dimension name")
        self.groups = []
        for g in groups:
            g = tuple(n for n in g if n in self.by_name)
            if len(g) >= 2:
                self.groups.append(g)

    # -- enumeration -----------------------------------------------------------------------
    def departures(self, k: int) -> list[dict]:
        """All assignments with exactly 0, 1, .., k non-default dimensions, simplest first."""
        out: list[dict] = [{}]
        names = [d.name for d in self.dims if len(d) > 1]
        for j in range(1, k + 1):
            level = []
            for combo in itertools.combinations(names, j):
                ranges = [range(1, len(self.by_name[n])) for n in combo]
                for idx in itertools.product(*ranges):
                    level.append(dict(zip(combo, idx)))
            level.sort(key=lambda a: (sum(a.values()), [names.index(n) for n in a], list(a.values())))
            out.extend(level)
        return out

    def group_products(self) -> list[dict]:
        out = []
        for g in self.groups:
            ranges = [range(len(self.by_name[n])) for n in g]
            for idx in itertools.product(*ranges):
                a = {n: i for n, i in zip(g, idx) if i}
                out.append(a)
        out.sort(key=lambda a: (len(a), sum(a.values())))
        return out

    def enumerate(self, k: int, with_groups: bool = True) -> list[dict]:
        seen = set()
        out = []
        for a in self.departures(k) + (self.group_products() if with_groups else []):
            key = tuple(sorted(a.items()))
            if key not in seen:
                seen.add(key)
                out.append(a)
        return out

    def count(self, k: int) -> int:
        return len(self.enumerate(k))

    # -- helpers ---------------------------------------------------------------------------
    def value(self, assignment: dict, name: str) -> Any:
        """Value of dimension `name` under a sparse assignment (default when absent/unknown)."""
        d = self.by_name.get(name)
        if d is None:
            return None
        return d.values[assignment.get(name, 0)]

    def full(self, assignment: dict) -> dict:
        return {d.name: d.values[assignment.get(d.name, 0)] for d in self.dims}

    def describe(self) -> dict:
        return {d.name: [_short(v) for v in d.values] for d in self.dims}


def _short(v: Any) -> Any:
    if isinstance(v, (bytes, bytearray)):
        return f"<{len(v)} bytes>"
    if isinstance(v, int) and not isinstance(v, bool) and v > 9:
        return hex(v)
    return v


class DimTable:
    """Per-dimension accepted / rejected bookkeeping."""

    def __init__(self) -> None:
        self.t: dict[str, dict[str, list[int]]] = {}

    def record(self, lattice: Lattice, assignment: dict, accepted: Optional[bool]) -> None:
        """accepted: True = built, False = rejected by the builder (SPSDKError), None = other."""
        for d in lattice.dims:
            i = assignment.get(d.name, 0)
            if i == 0 and assignment:
                continue  # count a default value only on the base configuration
            row = self.t.setdefault(d.name, {}).setdefault(str(_short(d.values[i])), [0, 0, 0])
            row[0] += 1
            if accepted is True:
                row[1] += 1
            elif accepted is False:
                row[2] += 1

    def merge_counts(self, dim: str, value: str, tried: int, acc: int, rej: int) -> None:
        row = self.t.setdefault(dim, {}).setdefault(value, [0, 0, 0])
        row[0] += tried
        row[1] += acc
        row[2] += rej

    def as_dict(self) -> dict:
        return {dim: {v: {"tried": r[0], "accepted": r[1], "rejected": r[2]} for v, r in sorted(vals.items())}
                for dim, vals in sorted(self.t.items())}
