"""E4 — file-system seams, write-history logger and a controlled scheduler over real forked
OS processes (DESIGN §19).  Used by C18.

All seams are installed from the harness, inside a *forked child* of the check process (the
"zygote": spsdk.utils.database imported, DatabaseManager never instantiated):

  * `builtins.open` for paths inside the cache directory → file wrapper whose Python-level
    `write()` is what `pickle.dump` calls (one call per protocol-4 frame / large chunk);
  * `os.path.exists`, `os.remove`, `os.makedirs`, `os.replace`, `os.rename`, `shutil.rmtree`
    for paths inside the cache directory;
  * the methods `filelock.BaseFileLock.acquire/release` (whatever name the class was imported
    under).

Mode "log": every call is recorded (write history for the crash-point enumeration).
Mode "sched": every call is a *scheduling point*: the child announces (kind, path) on a pipe and
blocks until the scheduler grants the step; file locks are arbitrated by the scheduler (a process
at `acquire` is enabled iff the lock is free), so a deadlock shows as "no enabled process".
A process waiting for a held lock *with a finite timeout* offers one more environment answer: the
wait times out (`filelock.Timeout` raised in the waiter).  It is a deviation priced like a
preemption while somebody else can still move, and the free and only continuation when nobody can.
"""
from __future__ import annotations

import builtins
import json
import os
import shutil
import signal
import struct
import sys
import traceback
from typing import Any, Callable, Optional

_REAL = {}


def _in(path: Any, root: str) -> bool:
    try:
        p = os.fspath(path)
    except TypeError:
        return False
    if isinstance(p, bytes):
        p = p.decode()
    return os.path.abspath(p).startswith(root)


class _FileWrap:
    """Wrapper around a real file object; write() and close() are observable steps."""

    def __init__(self, f, path, seam):
        self._f = f
        self._path = path
        self._seam = seam

    def write(self, data):
        self._seam.point("write", self._path, len(data), bytes(data))
        return self._f.write(data)

    def close(self):
        if not self._f.closed:
            self._seam.point("close", self._path)
        return self._f.close()

    def __enter__(self):
        return self

    def __exit__(self, *a):
        self.close()
        return False

    def __getattr__(self, name):
        return getattr(self._f, name)

    def __iter__(self):
        return iter(self._f)


class Seam:
    def __init__(self, root: str, mode: str, req_fd: int = -1, gnt_fd: int = -1):
        self.root = os.path.abspath(root)
        self.mode = mode
        self.req_fd = req_fd
        self.gnt_fd = gnt_fd
        self.log: list = []
        self.lock_depth: dict[str, int] = {}

    # -- the scheduling point ---------------------------------------------------------------
    def point(self, kind: str, path: str, n: int = 0, data: Optional[bytes] = None) -> Optional[str]:
        rel = os.path.relpath(os.path.abspath(path), self.root)
        if self.mode == "log":
            self.log.append((kind, rel, data if kind == "write" else n))
            return
        if self.mode == "sched":
            msg = json.dumps([kind, rel, n]).encode()
            os.write(self.req_fd, struct.pack("<I", len(msg)) + msg)
            g = os.read(self.gnt_fd, 1)
            if g == b"t" and kind == "acquire":
                return "timeout"
            if g != b"g":  # scheduler went away / kill order
                os._exit(97)
        return None

    # -- installation -----------------------------------------------------------------------
    def install(self) -> None:
        import filelock

        seam = self
        real_open = builtins.open
        _REAL["open"] = real_open

        def v_open(file, mode="r", *a, **k):
            if isinstance(file, (str, bytes, os.PathLike)) and _in(file, seam.root) and not str(file).endswith(".lock"):
                seam.point("open:" + mode, file)
                return _FileWrap(real_open(file, mode, *a, **k), file, seam)
            return real_open(file, mode, *a, **k)

        builtins.open = v_open

        def wrap1(mod, name, kind):
            real = getattr(mod, name)

            def f(path, *a, **k):
                if _in(path, seam.root):
                    seam.point(kind, path)
                return real(path, *a, **k)

            setattr(mod, name, f)

        wrap1(os.path, "exists", "exists")
        wrap1(os, "remove", "remove")
        wrap1(os, "unlink", "remove")
        wrap1(os, "makedirs", "makedirs")
        wrap1(shutil, "rmtree", "rmtree")
        for name in ("replace", "rename"):
            real = getattr(os, name)

            def f2(src, dst, *a, _real=real, _name=name, **k):
                if _in(dst, seam.root):
                    seam.point(_name, dst)
                return _real(src, dst, *a, **k)

            setattr(os, name, f2)

        Base = filelock.BaseFileLock
        from filelock._api import AcquireReturnProxy

        def v_acquire(self_l, *a, **k):
            p = self_l.lock_file
            if not _in(p, seam.root):
                raise AssertionError(f"lock outside the cache dir: {p}")
            d = seam.lock_depth.get(p, 0)
            if d == 0:
                # n = 1: this acquire has a finite timeout (argument, else the lock's own), so "the holder did not let go in
                # time" is a possible answer of the environment; with an unlimited wait it is not
                t = k.get("timeout", a[0] if a else None)
                if t is None:
                    t = getattr(self_l, "timeout", -1)
                if seam.point("acquire", p, 1 if (t is not None and t >= 0) else 0) == "timeout":
                    raise filelock.Timeout(p)
            seam.lock_depth[p] = d + 1
            return AcquireReturnProxy(lock=self_l)

        def v_release(self_l, force=False):
            p = self_l.lock_file
            d = seam.lock_depth.get(p, 0)
            if d == 1 or (force and d > 0):
                seam.point("release", p)
                seam.lock_depth[p] = 0
            elif d > 1:
                seam.lock_depth[p] = d - 1

        if self.mode == "sched":
            Base.acquire = v_acquire
            Base.release = v_release
        else:
            real_acq, real_rel = Base.acquire, Base.release

            def l_acquire(self_l, *a, **k):
                seam.point("acquire", self_l.lock_file)
                return real_acq(self_l, *a, **k)

            def l_release(self_l, force=False):
                seam.point("release", self_l.lock_file)
                return real_rel(self_l, force)

            Base.acquire = l_acquire
            Base.release = l_release


# ---------------------------------------------------------------------------------------------
# scheduler side


def _read_msg(fd: int) -> Optional[list]:
    hdr = b""
    while len(hdr) < 4:
        c = os.read(fd, 4 - len(hdr))
        if not c:
            return None
        hdr += c
    (n,) = struct.unpack("<I", hdr)
    buf = b""
    while len(buf) < n:
        c = os.read(fd, n - len(buf))
        if not c:
            return None
        buf += c
    return json.loads(buf)


class Trace:
    def __init__(self):
        self.points: list[dict] = []  # {"enabled": [...], "chosen": idx, "running_enabled": bool, "op": [pid, kind, path]}
        self.results: list[Any] = []
        self.deadlock = False
        self.horizon = False
        self.diverged = False
        self.killed: list = []
        self.timeouts = 0

    @property
    def choices(self) -> tuple:
        return tuple(p["chosen"] for p in self.points)


TIMEOUT = 100


def run_schedule(nproc: int, body: Callable[[int, Seam], Any], cache_dir: str, prefix: tuple, horizon: int = 4000,
                 kills: Optional[dict] = None, lock_timeouts: bool = True) -> Trace:
    """Run `nproc` forked children, each executing body(i, seam) under the seams in "sched"
    mode, following `prefix` (choice indices into the canonical enabled order) and choice 0
    afterwards.  A prefix choice that is out of range is a hard error (divergence).

    kills = {process index: k}: that process receives SIGKILL the moment it arrives at its k-th own
    scheduling point (k >= 1; the point itself is not executed).  Whatever it had written through
    Python's buffered file object and not flushed is lost, its file locks are released - exactly
    what the operating system does.  Killing on arrival loses no behaviours: between the arrival
    and a later kill the victim does nothing, so only the release of its locks would move, and
    that is the same as the other processes being scheduled later."""
    chans = []
    pids = []
    for i in range(nproc):
        req_r, req_w = os.pipe()
        gnt_r, gnt_w = os.pipe()
        pid = os.fork()
        if pid == 0:
            # child
            try:
                for (a, b, c, d) in chans:
                    os.close(a)
                    os.close(d)
                os.close(req_r)
                os.close(gnt_w)
                signal.alarm(0)
                seam = Seam(cache_dir, "sched", req_w, gnt_r)
                seam.install()
                try:
                    res = body(i, seam)
                    out = ["done", i, res]
                except BaseException as e:  # noqa
                    out = ["done", i, {"exception": f"{type(e).__name__}: {e}", "tb": traceback.format_exc()[-1800:]}]
                msg = json.dumps(out).encode()
                os.write(req_w, struct.pack("<I", len(msg)) + msg)
            finally:
                os._exit(0)
        os.close(req_w)
        os.close(gnt_r)
        chans.append((req_r, None, None, gnt_w))
        pids.append(pid)
    tr = Trace()
    pending: list[Optional[list]] = [None] * nproc
    done = [False] * nproc
    results: list[Any] = [None] * nproc
    locks: dict[str, int] = {}

    own = [0] * nproc
    kills = {int(k): int(v) for k, v in (kills or {}).items()}

    def fetch(i: int) -> None:
        m = _read_msg(chans[i][0])
        if m is not None and m[0] != "done" and kills.get(i) == own[i] + 1:
            os.kill(pids[i], signal.SIGKILL)
            os.waitpid(pids[i], 0)
            done[i] = True
            pending[i] = None
            results[i] = {"killed": True, "at": m[:2], "own_point": own[i] + 1}
            for lp in [lp for lp, o in locks.items() if o == i]:
                locks.pop(lp)
            tr.killed.append([i, own[i] + 1, m[0], m[1]])
            return
        own[i] += 1
        if m is None:
            done[i] = True
            pending[i] = None
            if results[i] is None:
                results[i] = {"exception": "child died without a result"}
        elif m[0] == "done":
            done[i] = True
            pending[i] = None
            results[i] = m[2]
        else:
            pending[i] = m

    try:
        for i in range(nproc):
            fetch(i)
        running = -1
        step = 0
        while not all(done):
            en = []
            blocked = []   # waiting for a lock somebody else holds, with a finite timeout
            for i in range(nproc):
                if done[i] or pending[i] is None:
                    continue
                kind, path, nn = pending[i]
                if kind == "acquire" and locks.get(path, i) != i:
                    if nn == 1 and lock_timeouts:
                        blocked.append(i)
                    continue
                en.append(i)
            if not en and not blocked:
                tr.deadlock = True
                break
            running_enabled = running in en
            # entries >= TIMEOUT mean "the wait of process (entry - TIMEOUT) for its lock times out now"; they come last.
            # When nobody else can move, the timeout is what real time brings (the only continuation, no deviation).
            order = ([running] if running_enabled else []) + [i for i in en if i != running] + [TIMEOUT + i for i in blocked]
            if step < len(prefix):
                c = prefix[step]
                if c >= len(order):
                    tr.diverged = True
                    break
            else:
                c = 0
            who = order[c]
            timed_out = who >= TIMEOUT
            who -= TIMEOUT if timed_out else 0
            kind, path, n = pending[who]
            tr.points.append({"enabled": order, "chosen": c, "running_enabled": running_enabled, "forced_timeout": timed_out and not en,
                              "op": [who, "acquire-timeout" if timed_out else kind, path, n]})
            if timed_out:
                tr.timeouts += 1
            elif kind == "acquire":
                locks[path] = who
            elif kind == "release":
                locks.pop(path, None)
            os.write(chans[who][3], b"t" if timed_out else b"g")
            running = who
            fetch(who)
            step += 1
            if step >= horizon:
                tr.horizon = True
                break
    finally:
        for i, pid in enumerate(pids):
            if not done[i]:
                try:
                    os.kill(pid, signal.SIGKILL)
                except OSError:
                    pass
            try:
                os.waitpid(pid, 0)
            except OSError:
                pass
            os.close(chans[i][0])
            os.close(chans[i][3])
    tr.results = results
    return tr


def successors(tr: Trace, prefix_len: int, bound: int) -> list[tuple]:
    """Deviation-bounded branching (iterative context bounding): alternatives at every point at or
    after `prefix_len`; switching away from a still-enabled running process costs one preemption."""
    out = []
    pre = 0
    ch = tr.choices
    for i, p in enumerate(tr.points):
        if i >= prefix_len:
            for alt in range(1, len(p["enabled"])):
                # switching away from a process that could go on is a preemption; a lock wait that times out although
                # somebody could still move is a deviation of the same price
                dev = 1 if (p["running_enabled"] or p["enabled"][alt] >= TIMEOUT) else 0
                if pre + dev <= bound:
                    out.append(ch[:i] + (alt,))
        if (p["chosen"] != 0 and p["running_enabled"]) or (p["enabled"][p["chosen"]] >= TIMEOUT and not p.get("forced_timeout")):
            pre += 1
    return out
