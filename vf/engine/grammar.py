"""E5 — enumerator of all derivations of an attribute grammar up to a node-count bound.

A grammar is a set of productions  nt -> symbol*  with a non-negative integer *weight* (the
number of "nodes" the production contributes: an operator, a statement, a block ...) and a
*build* function that computes the synthesised attribute of the left-hand side from the
attributes of the right-hand side (terminals are passed through as they are).  The *size* of a
derivation is the sum of the weights of the productions used in it.

The engine is exact and deterministic:

* `count(nt, n)`      number of derivations of `nt` of size exactly n (big-int arithmetic,
                      memoised convolution over the right-hand sides),
* `unrank(nt, n, i)`  the i-th derivation of that class (0 <= i < count) in a fixed total order
                      (productions in declaration order, then sizes of the right-hand-side
                      symbols left to right, smallest first, then ranks left to right) ->
                      its synthesised attribute,
* `smallest_first(nt, max_size)`  every derivation with size <= max_size, by increasing size,
* `blocks(nt, sizes, block)`      the same space cut into index ranges (size, lo, hi) so that a
                      pool of workers can enumerate disjoint parts without materialising the
                      space in the parent (coverage never depends on timing).

Bounded lists (`rep`) and nonterminals indexed by a finite state (any hashable name, e.g.
("pre", (1, 0, 2, 0)) for "one options block, two sources blocks seen so far") are ordinary
nonterminals, which is how multiplicity bounds and parenthesis budgets are expressed.

Inherited attributes (position of a leaf, environment of defined names) are evaluated by the
user in a second pass over the synthesised tree: the engine only guarantees that every tree is
produced exactly once.

Restriction: a production of weight 0 must not be (mutually) recursive through right-hand sides
that can all be of size 0 — such a grammar has infinitely many derivations of one size; it is
detected and reported as a ValueError.
"""
from __future__ import annotations

from typing import Any, Callable, Hashable, Iterator, Optional, Sequence


class NT:
    """Reference to a nonterminal inside a right-hand side."""

    __slots__ = ("name",)

    def __init__(self, name: Hashable):
        self.name = name

    def __repr__(self) -> str:
        return f"<{self.name}>"


def _default_build(*vals: Any) -> Any:
    return tuple(vals)


class Grammar:
    def __init__(self) -> None:
        # nt -> list of (weight, symbols, nt_positions, nt_names, build)
        self._prods: dict[Hashable, list[tuple]] = {}
        self._count: dict[tuple, int] = {}
        self._seq: dict[tuple, int] = {}
        self._busy: set[tuple] = set()

    # -- definition ---------------------------------------------------------------------------
    def prod(self, nt: Hashable, symbols: Sequence[Any], build: Optional[Callable] = None,
             weight: int = 0) -> None:
        if weight < 0:
            raise ValueError("negative weight")
        symbols = tuple(symbols)
        pos = tuple(i for i, s in enumerate(symbols) if isinstance(s, NT))
        names = tuple(symbols[i].name for i in pos)
        self._prods.setdefault(nt, []).append((weight, symbols, pos, names, build or _default_build))
        self._count.clear()
        self._seq.clear()

    def alt(self, nt: Hashable, values: Sequence[Any], weight: int = 0) -> None:
        """nt -> v for every terminal value v (attribute = v)."""
        for v in values:
            self.prod(nt, (v,), build=lambda x: x, weight=weight)

    def rep(self, name: Hashable, item: Hashable, lo: int, hi: int,
            build: Optional[Callable] = None) -> NT:
        """name -> item{lo..hi}; attribute = build(list of item attributes) (default: the list)."""
        fin = build or (lambda xs: xs)
        for k in range(lo, hi + 1):
            self.prod(name, (NT((name, "#", k)),), build=lambda xs, fin=fin: fin(list(xs)))
        self.prod((name, "#", 0), (), build=lambda: ())
        for k in range(1, hi + 1):
            self.prod((name, "#", k), (NT((name, "#", k - 1)), NT(item)), build=lambda xs, x: xs + (x,))
        return NT(name)

    def has(self, nt: Hashable) -> bool:
        return nt in self._prods

    # -- counting -----------------------------------------------------------------------------
    def count(self, nt: Hashable, n: int) -> int:
        if n < 0:
            return 0
        key = (nt, n)
        c = self._count.get(key)
        if c is not None:
            return c
        if nt not in self._prods:
            raise KeyError(f"undefined nonterminal {nt!r}")
        if key in self._busy:
            raise ValueError(f"zero-weight cycle through {nt!r} at size {n}")
        self._busy.add(key)
        try:
            total = 0
            for (w, _syms, _pos, names, _b) in self._prods[nt]:
                if n - w >= 0:
                    total += self._count_seq(names, n - w)
        finally:
            self._busy.discard(key)
        self._count[key] = total
        return total

    def _count_seq(self, names: tuple, n: int) -> int:
        if not names:
            return 1 if n == 0 else 0
        if len(names) == 1:
            return self.count(names[0], n)
        key = (names, n)
        c = self._seq.get(key)
        if c is not None:
            return c
        total = 0
        head, rest = names[0], names[1:]
        for k in range(0, n + 1):
            # evaluate the tail first: for left-recursive rules the tail carries the weight
            r = self._count_seq(rest, n - k)
            if r:
                h = self.count(head, k)
                if h:
                    total += h * r
        self._seq[key] = total
        return total

    def total(self, nt: Hashable, max_size: int, min_size: int = 0) -> int:
        return sum(self.count(nt, n) for n in range(min_size, max_size + 1))

    # -- unranking ----------------------------------------------------------------------------
    def unrank(self, nt: Hashable, n: int, idx: int) -> Any:
        if not 0 <= idx < self.count(nt, n):
            raise IndexError(f"rank {idx} out of range for {nt!r} size {n}")
        for (w, syms, pos, names, build) in self._prods[nt]:
            if n - w < 0:
                continue
            c = self._count_seq(names, n - w)
            if idx < c:
                vals = self._unrank_seq(names, n - w, idx)
                if not pos:
                    return build(*syms)
                out = list(syms)
                for p, v in zip(pos, vals):
                    out[p] = v
                return build(*out)
            idx -= c
        raise AssertionError("count/unrank disagree")

    def _unrank_seq(self, names: tuple, n: int, idx: int) -> list:
        if not names:
            return []
        if len(names) == 1:
            return [self.unrank(names[0], n, idx)]
        head, rest = names[0], names[1:]
        for k in range(0, n + 1):
            r = self._count_seq(rest, n - k)
            if not r:
                continue
            h = self.count(head, k)
            c = h * r
            if idx < c:
                hi, ri = divmod(idx, r)
                return [self.unrank(head, k, hi)] + self._unrank_seq(rest, n - k, ri)
            idx -= c
        raise AssertionError("count/unrank disagree (sequence)")

    # -- enumeration --------------------------------------------------------------------------
    def derivations(self, nt: Hashable, n: int, lo: int = 0, hi: Optional[int] = None) -> Iterator[Any]:
        c = self.count(nt, n)
        hi = c if hi is None else min(hi, c)
        for i in range(lo, hi):
            yield self.unrank(nt, n, i)

    def smallest_first(self, nt: Hashable, max_size: int, min_size: int = 0) -> Iterator[tuple]:
        for n in range(min_size, max_size + 1):
            for i in range(self.count(nt, n)):
                yield n, i, self.unrank(nt, n, i)

    def blocks(self, nt: Hashable, sizes: Sequence[int], block: int) -> list[tuple]:
        """[(size, lo, hi)] covering every derivation of the given sizes, smallest size first."""
        out = []
        for n in sizes:
            c = self.count(nt, n)
            for lo in range(0, c, block):
                out.append((n, lo, min(c, lo + block)))
        return out


def selftest() -> None:
    """Counts of a few known families (Catalan, Schroeder, bounded multiset orders)."""
    g = Grammar()
    # binary trees with n internal nodes: Catalan numbers
    g.prod("T", ("x",), build=lambda x: x)
    g.prod("T", (NT("T"), NT("T")), build=lambda a, b: (a, b), weight=1)
    assert [g.count("T", n) for n in range(6)] == [1, 1, 2, 5, 14, 42]
    seen = {g.unrank("T", 4, i) for i in range(14)}
    assert len(seen) == 14
    # flat chains with optional parenthesised sub-chains of >= 2 items: big Schroeder numbers
    g = Grammar()
    g.prod("E", (NT("I"),), build=lambda a: a)
    g.prod("E", (NT("E"), "+", NT("I")), build=lambda a, o, b: a + o + b, weight=1)
    g.prod("I", ("x",), build=lambda x: x)
    g.prod("I", ("(", NT("E2"), ")"), build=lambda l, e, r: l + e + r)
    g.prod("E2", (NT("E"), "+", NT("I")), build=lambda a, o, b: a + o + b, weight=1)
    assert [g.count("E", n) for n in range(5)] == [1, 2, 6, 22, 90]
    texts = [v for _n, _i, v in g.smallest_first("E", 3)]
    assert len(texts) == len(set(texts)) == 31
    # bounded lists
    g = Grammar()
    g.alt("b", ["0", "1"])
    g.rep("L", "b", 1, 3)
    assert g.count("L", 0) == 2 + 4 + 8
    # zero-weight cycle is reported
    g = Grammar()
    g.prod("A", (NT("A"),))
    g.prod("A", ("a",))
    try:
        g.count("A", 0)
    except ValueError:
        pass
    else:
        raise AssertionError("cycle not detected")


if __name__ == "__main__":
    selftest()
    print("grammar engine selftest ok")
