"""setup_cmd: nothing to build (pure Python); verify that the environment binds to /repo and
that the reference implementations pass their standard vectors."""
import importlib
import os
import sys

from vf import core


def main() -> int:
    core.bind_repo()
    import spsdk

    print("spsdk from", os.path.dirname(spsdk.__file__))
    for name in ("vf.ref.aes", "vf.ref.crc", "vf.ref.kdf", "vf.ref.ecdsa", "vf.ref.rsa", "vf.ref.der", "vf.ref.bd_sem", "vf.engine.grammar"):
        try:
            m = importlib.import_module(name)
        except ModuleNotFoundError:
            continue
        if hasattr(m, "selftest"):
            m.selftest()
            print("selftest ok:", name)
    return 0


if __name__ == "__main__":
    sys.exit(main())
