"""Common runner plumbing: environment binding, worker pool with watchdog, violation
bookkeeping, known-findings filter, evidence writer, determinism double-run.

Every check module in vf.props exposes `run(ctx: Ctx) -> None`, which enumerates a finite
space, feeds cases to `ctx.pool_map(fn, cases)` (or runs them inline) and reports through
`ctx.viol(...)` / `ctx.count(...)`.  `Ctx.finish()` prints VIOLATION / KNOWN-FINDING lines,
writes evidence and returns the exit code.
"""
from __future__ import annotations

import hashlib
import json
import multiprocessing as mp
import os
import signal
import sys
import time
import traceback
from typing import Any, Callable, Iterable, Optional

VERIF_DIR = os.path.dirname(os.path.dirname(os.path.abspath(__file__)))
REPO = os.path.realpath(os.environ.get("VERIF_REPO", "/repo"))
NPROC = int(os.environ.get("VERIF_NPROC", "16"))


class HarnessError(Exception):
    """The machinery (not the code under check) is broken: exit 2, never a VIOLATION."""


class Watchdog(BaseException):
    """Raised by SIGALRM inside a case: the code under check did not terminate in time."""


def bind_repo() -> None:
    """Make sure `spsdk` is imported from the tree under check."""
    if sys.path[0] != REPO:
        sys.path.insert(0, REPO)
    import spsdk  # noqa

    f = os.path.realpath(spsdk.__file__)
    if not f.startswith(REPO + os.sep):
        raise HarnessError(f"spsdk imported from {f}, not from {REPO}")


def jdefault(o: Any) -> Any:
    if isinstance(o, (bytes, bytearray)):
        return {"__hex__": bytes(o).hex()}
    if isinstance(o, (set, frozenset)):
        return sorted(o, key=repr)
    if isinstance(o, tuple):
        return list(o)
    return repr(o)


def jdump(o: Any) -> str:
    return json.dumps(o, default=jdefault, sort_keys=True)


def unhex(o: Any) -> Any:
    """Inverse of jdefault for bytes (used when loading replay files)."""
    if isinstance(o, dict):
        if set(o.keys()) == {"__hex__"}:
            return bytes.fromhex(o["__hex__"])
        return {k: unhex(v) for k, v in o.items()}
    if isinstance(o, list):
        return [unhex(v) for v in o]
    return o


def short_hash(o: Any) -> str:
    return hashlib.sha1(jdump(o).encode()).hexdigest()[:12]


def case_size(o: Any) -> int:
    return len(jdump(o))


# ---------------------------------------------------------------------------------------------
# worker side


def _alarm(signum, frame):  # noqa
    raise Watchdog()


_WORKER_FN: Optional[Callable] = None
_WORKER_TIMEOUT = 10


def _worker_init(fn: Callable, timeout: int, initfn: Optional[Callable]) -> None:
    global _WORKER_FN, _WORKER_TIMEOUT
    _WORKER_FN = fn
    _WORKER_TIMEOUT = timeout
    signal.signal(signal.SIGALRM, _alarm)
    if initfn:
        initfn()


def _worker_call(case: Any) -> Any:
    """Run one case under the watchdog.  Result: dict produced by fn, or a watchdog/crash record."""
    signal.alarm(_WORKER_TIMEOUT)
    try:
        res = _WORKER_FN(case)
    except Watchdog:
        res = {"__watchdog__": True}
    except BaseException as e:  # harness-level failure in fn itself (fn catches what it judges)
        res = {"__crash__": f"{type(e).__name__}: {e}", "tb": traceback.format_exc()[-2000:]}
    finally:
        signal.alarm(0)
    return res


def run_with_watchdog(fn: Callable, arg: Any, timeout: int = 10) -> Any:
    """Inline (same-process) variant."""
    old = signal.signal(signal.SIGALRM, _alarm)
    signal.alarm(timeout)
    try:
        return fn(arg)
    except Watchdog:
        return {"__watchdog__": True}
    finally:
        signal.alarm(0)
        signal.signal(signal.SIGALRM, old)


# ---------------------------------------------------------------------------------------------


class Ctx:
    def __init__(self, pid: str, tier: str, seed: int, level: str):
        self.pid = pid
        self.tier = tier
        self.seed = seed
        self.level = level
        self.t0 = time.time()
        self.workdir = os.environ.get("VERIF_WORKDIR", os.path.join(VERIF_DIR, ".work", "run"))
        os.makedirs(self.workdir, exist_ok=True)
        self.viols: dict[tuple[str, str], dict] = {}  # (clause, disc) -> smallest case
        self.viol_count = 0
        self.cov: dict[str, Any] = {}
        self.counters: dict[str, int] = {}
        self.distinct: set[str] = set()
        self.samples: list[Any] = []
        self.assumptions: list[str] = []
        self.exhaustive = True
        self.budget_s = float(os.environ.get("VERIF_BUDGET_S", "0") or 0) or (
            170.0 if tier == "quick" else 1700.0
        )
        self.rule = ""
        self.replay_case: Any = None

    # -- counters --------------------------------------------------------------------------
    def count(self, key: str, n: int = 1) -> None:
        self.counters[key] = self.counters.get(key, 0) + n

    def add_distinct(self, token: Any) -> None:
        self.distinct.add(token if isinstance(token, str) else short_hash(token))

    def sample(self, case: Any, limit: int = 8) -> None:
        if len(self.samples) < limit:
            self.samples.append(case)

    def time_left(self) -> float:
        return self.budget_s - (time.time() - self.t0)

    def out_of_budget(self) -> bool:
        if self.time_left() <= 0:
            self.exhaustive = False
            return True
        return False

    # -- violations ------------------------------------------------------------------------
    def viol(self, clause: str, disc: str, case: Any, detail: str = "") -> None:
        """Record a violation of oracle clause `clause` with discriminator `disc`."""
        self.viol_count += 1
        key = (clause, disc)
        cur = self.viols.get(key)
        if cur is None or case_size(case) < case_size(cur["case"]):
            if cur is None and len(self.viols) >= 200:
                return
            self.viols[key] = {"clause": clause, "disc": disc, "case": case, "detail": detail[:1500]}

    def absorb(self, case: Any, res: Any, watchdog_clause: Optional[str] = None) -> bool:
        """Standard handling of a worker result dict: `viol` list, `distinct`, counters.

        Returns False when the result is a watchdog/crash record."""
        self.count("evaluations")
        if isinstance(res, dict) and res.get("__watchdog__"):
            self.viol(watchdog_clause or f"{self.pid}.terminates", "watchdog", case,
                      "case did not terminate within the watchdog limit")
            return False
        if isinstance(res, dict) and "__crash__" in res:
            raise HarnessError(f"worker function crashed on case {jdump(case)[:500]}: "
                               f"{res['__crash__']}\n{res.get('tb','')}")
        if isinstance(res, dict):
            for v in res.get("viol", ()):
                self.viol(v[0], v[1], case, v[2] if len(v) > 2 else "")
            for d in res.get("distinct", ()):
                self.add_distinct(d)
            for k, n in res.get("count", {}).items():
                self.count(k, n)
        return True

    # -- pool ------------------------------------------------------------------------------
    def pool_map(self, fn: Callable, cases: Iterable[Any], timeout: int = 10,
                 initfn: Optional[Callable] = None, chunksize: int = 16,
                 nproc: Optional[int] = None, check_det: int = 3):
        """Yield (case, result) for every case, executed in forked workers under a watchdog.

        The first `check_det` cases are executed twice, in two separate worker processes,
        and their results must be identical (ownership of nondeterminism, DESIGN 1.2)."""
        cases = list(cases)
        nproc = nproc or NPROC
        if check_det and cases:
            head = cases[:check_det]
            r = []
            for _ in range(2):
                with mp.get_context("fork").Pool(1, _worker_init, (fn, timeout, initfn)) as p:
                    r.append([jdump(x) for x in p.map(_worker_call, head)])
            if r[0] != r[1]:
                for a, b, c in zip(r[0], r[1], head):
                    if a != b:
                        raise HarnessError(
                            f"nondeterministic result for case {jdump(c)[:300]}:\n{a[:600]}\n{b[:600]}")
            self.count("determinism_double_runs", len(head))
        if nproc <= 1 or len(cases) < 4:
            _worker_init(fn, timeout, initfn)
            for c in cases:
                yield c, _worker_call(c)
            return
        with mp.get_context("fork").Pool(nproc, _worker_init, (fn, timeout, initfn)) as p:
            for c, res in zip(cases, p.imap(_worker_call, cases, chunksize=chunksize)):
                yield c, res

    # -- finish ----------------------------------------------------------------------------
    def finish(self) -> int:
        known = load_known(self.pid)
        new, listed = [], []
        for key, v in sorted(self.viols.items()):
            k = known.get(key)
            if k is not None and k.get("status") == "known":
                listed.append((v, k))
            else:
                new.append(v)
        rc = 0
        for v, k in listed:
            print(f"KNOWN-FINDING: property={self.pid} {v['clause']} [{v['disc']}] {k.get('what','')}")
        rdir = os.path.join(os.environ.get("VERIF_OUT_DIR") or VERIF_DIR, "replays", self.pid)
        for v in new:
            os.makedirs(rdir, exist_ok=True)
            path = os.path.join(rdir, f"{v['clause']}-{short_hash([v['disc'], v['case']])}.json")
            with open(path, "w") as f:
                f.write(jdump({"property": self.pid, **v}))
            print(f"VIOLATION property={self.pid} replay={path}")
            print(f"  clause={v['clause']} disc={v['disc']}\n  case={jdump(v['case'])[:400]}\n  detail={v['detail'][:600]}")
            rc = 1
        self.write_evidence(len(new), len(listed))
        return rc

    def write_evidence(self, nviol: int, nknown: int) -> None:
        cov = dict(self.cov)
        ev = self.counters.get("evaluations", 0)
        cov.setdefault("evaluations", ev)
        cov.setdefault("distinct_nontrivial", len(self.distinct))
        cov.setdefault("rule", self.rule)
        cov.setdefault("samples", self.samples or ["<none>"])
        cov.setdefault("exhaustive", bool(self.exhaustive))
        cov["counters"] = dict(sorted(self.counters.items()))
        cov["known_findings_reported"] = nknown
        cov["violation_records_total"] = self.viol_count
        evd = {
            "property_id": self.pid,
            "tier": self.tier,
            "seed": self.seed,
            "level": self.level,
            "coverage": cov,
            "assumptions": self.assumptions,
            "wall_s": round(time.time() - self.t0, 2),
            "violations": nviol,
        }
        odir = os.environ.get("VERIF_OUT_DIR") or VERIF_DIR  # mutant evaluations write their evidence/replays elsewhere
        os.makedirs(os.path.join(odir, "evidence"), exist_ok=True)
        with open(os.path.join(odir, "evidence", f"{self.pid}.json"), "w") as f:
            json.dump(json.loads(jdump(evd)), f, indent=1, sort_keys=True)
            f.write("\n")


def load_known(pid: str) -> dict[tuple[str, str], dict]:
    path = os.path.join(VERIF_DIR, "known_findings.json")
    out: dict[tuple[str, str], dict] = {}
    if os.path.exists(path):
        for e in json.load(open(path))["findings"]:
            if e["property"] == pid:
                out[(e["clause"], e["disc"])] = e
    return out


def dedupe(viol: list, per_key: int = 1, limit: int = 200) -> list:
    """Keep the first `per_key` records per (clause, discriminator): workers report at most that."""
    seen: dict = {}
    out = []
    for v in viol:
        k = (v[0], v[1])
        seen[k] = seen.get(k, 0) + 1
        if seen[k] <= per_key and len(out) < limit:
            out.append(v)
    return out


def seeded_bytes(seed: int, tag: str, n: int) -> bytes:
    out = b""
    i = 0
    while len(out) < n:
        out += hashlib.sha256(f"{seed}|{tag}|{i}".encode()).digest()
        i += 1
    return out[:n]
