"""C17 child: runs ONE construction history in a fresh interpreter.

usage: python c17_child.py <rng_seed> <json list of kinds> [real]
`secrets.token_bytes/token_hex/randbelow` are replaced *before* spsdk is imported by a counting
generator: draw #i returns SHA256(seed|i) expanded to n bytes, and is logged with the phase
("import" or the index of the artifact under construction).  Prints one JSON object.
"""
import hashlib
import json
import os
import secrets
import sys
import tempfile

SEED = sys.argv[1]
HIST = json.loads(sys.argv[2])
REAL = len(sys.argv) > 3 and sys.argv[3] in ("real", "forkreal")

DRAWS = []  # (index, n, hex, phase)
PHASE = ["import"]


def _gen(n: int) -> bytes:
    i = len(DRAWS)
    out = b""
    c = 0
    while len(out) < n:
        out += hashlib.sha256(f"{SEED}|{i}|{c}".encode()).digest()
        c += 1
    out = out[:n]
    DRAWS.append((i, n, out.hex(), PHASE[0]))
    return out


if not REAL:
    secrets.token_bytes = lambda n=32: _gen(n)
    secrets.token_hex = lambda n=32: _gen(n).hex()
    secrets.randbelow = lambda ub: int.from_bytes(_gen(max(1, (ub.bit_length() + 7) // 8) + 8), "big") % ub
else:
    _tb, _th = secrets.token_bytes, secrets.token_hex

    def _log(n=32):
        b = _tb(n)
        DRAWS.append((len(DRAWS), n, b.hex(), PHASE[0]))
        return b

    secrets.token_bytes = _log
    secrets.token_hex = lambda n=32: _log(n).hex()

REPO = os.environ.get("VERIF_REPO", "/repo")
sys.path.insert(0, REPO)
import spsdk  # noqa: E402

assert os.path.realpath(spsdk.__file__).startswith(os.path.realpath(REPO) + os.sep), spsdk.__file__

# import everything the constructions use *now*, so that import-time draws are labelled as such
import spsdk.apps.nxpimage  # noqa: E402,F401
import spsdk.image.bee  # noqa: E402,F401
import spsdk.image.hab.hab_container  # noqa: E402,F401
import spsdk.image.mbi.mbi  # noqa: E402,F401
import spsdk.sbfile.sb1.images  # noqa: E402,F401
import spsdk.sbfile.sb2.images  # noqa: E402,F401
import spsdk.utils.crypto.iee  # noqa: E402,F401
import spsdk.utils.crypto.otfad  # noqa: E402,F401

TESTS = os.path.join(REPO, "tests")
KEK = bytes(range(32))


def _sb2_section():
    from spsdk.sbfile.sb2.commands import CmdErase, CmdLoad
    from spsdk.sbfile.sb2.sections import BootSectionV2

    return BootSectionV2(0, CmdErase(address=0, length=0x1000), CmdLoad(address=0x10, data=bytes(range(48))), hmac_count=1)


def k_sb20():
    from spsdk.sbfile.sb2.images import BootImageV20

    img = BootImageV20(False, KEK, _sb2_section())
    data = img.export()
    return {"dek": img.dek, "mac": img.mac, "nonce": img.header.nonce}, data


def k_sb21():
    from spsdk.sbfile.sb2.images import BootImageV21

    img = BootImageV21(KEK, _sb2_section())
    return {"dek": img.dek, "mac": img.mac, "nonce": img.header.nonce}, b""


def k_advp():
    from spsdk.sbfile.sb2.images import SBV2xAdvancedParams

    p = SBV2xAdvancedParams()
    return {"dek": p.dek, "mac": p.mac, "nonce": p.nonce, "padding": p.padding}, b""


_SHARED_CFG = {}


def k_sb21cfg(shared: bool = False):
    """BootImageV21 through load_from_config (YAML-style dict), signed with the repository's test keys, exported.
    shared=True: the SAME configuration dictionary object is used for every artifact of this kind in the process."""
    from spsdk.sbfile.sb2.images import BootImageV21

    d = os.path.join(TESTS, "nxpimage", "data", "sb_sources")
    kc = os.path.join(d, "keys_and_certs")
    cfg = _SHARED_CFG.get("sb21") if shared else None
    cfg = cfg or {
        "options": {"flags": "0x8", "buildNumber": "0x1", "productVersion": "1.00.00", "componentVersion": "1.00.00"},
        "containerKeyBlobEncryptionKey": "00" * 32 if False else KEK.hex(),
        "sections": [{"section_id": 0, "commands": [{"erase": {"address": 0, "length": 0x1000}}]}],
        "rootCertificate0File": os.path.join(kc, "root_k0_signed_cert0_noca.der.cert"),
        "mainRootCertId": 0,
        "signPrivateKey": os.path.join(kc, "k0_cert0_2048.pem"),
    }
    if shared:
        _SHARED_CFG["sb21"] = cfg
    with tempfile.TemporaryDirectory() as td:
        img = BootImageV21.load_from_config(cfg, rkth_out_path=os.path.join(td, "hash.bin"), search_paths=[d])
        data = img.export()
    return {"dek": img.dek, "mac": img.mac, "nonce": img.header.nonce}, data


def _mbi_parts():
    from spsdk.crypto.certificate import Certificate
    from spsdk.crypto.signature_provider import SignatureProvider
    from spsdk.image.keystore import KeySourceType, KeyStore
    from spsdk.image.trustzone import TrustZone
    from spsdk.utils.crypto.cert_blocks import CertBlockV1

    d = os.path.join(TESTS, "image", "mbi", "data")
    cert = Certificate.load(os.path.join(d, "keys_and_certs", "selfsign_2048_v3.der.crt"))
    cb = CertBlockV1(build_number=1)
    cb.add_certificate(cert)
    cb.set_root_key_hash(0, cert)
    sp = SignatureProvider.create("type=file;file_path=" + os.path.join(d, "keys_and_certs", "selfsign_privatekey_rsa2048.pem"))
    app = open(os.path.join(d, "normal_boot.bin"), "rb").read()
    return dict(app=app, load_address=0x12345678, trust_zone=TrustZone.disabled(), cert_block=cb, signature_provider=sp,
                hmac_key="E39FD7AB61AE6DDDA37158A0FC3008C6D61100A03C7516EA1BE55A39F546BAD5",
                key_store=KeyStore(KeySourceType.KEYSTORE, None))


def k_mbi_class():
    """Encrypted MBI through the public class constructor, no IV supplied."""
    from spsdk.image.mbi.mbi import create_mbi_class

    mbi = create_mbi_class("encrypted_signed_ram", "rt6xx")(**_mbi_parts())
    data = mbi.export()
    return {"ctr_init_vector": mbi.ctr_init_vector}, data


def k_mbi_cfg(shared: bool = False, sameobj: bool = False):
    """Encrypted MBI through load_from_config without CtrInitVector.
    shared=True: the SAME configuration dictionary object is used for every artifact of this kind in the process."""
    from spsdk.image.mbi.mbi import get_mbi_class

    d = os.path.join(TESTS, "image", "mbi", "data")
    kc = os.path.join(d, "keys_and_certs")
    cfg = _SHARED_CFG.get("mbi") if shared else None
    cfg = cfg or {
        "family": "mimxrt685s", "outputImageExecutionTarget": "load-to-ram", "outputImageAuthenticationType": "encrypted",
        "masterBootOutputFile": "out.bin", "inputImageFile": os.path.join(TESTS, "nxpimage", "data", "mbi", "test_application.bin"),
        "outputImageExecutionAddress": "0x12345678", "enableTrustZone": False,
        "outputImageEncryptionKeyFile": "E39FD7AB61AE6DDDA37158A0FC3008C6D61100A03C7516EA1BE55A39F546BAD5",
        "useKeyStore": True, "enableHwUserModeKeys": False, "rootCertificate0File": os.path.join(kc, "selfsign_2048_v3.der.crt"), "mainRootCertId": 0,
        "signPrivateKey": os.path.join(kc, "selfsign_privatekey_rsa2048.pem"),
    }
    if shared:
        _SHARED_CFG["mbi"] = cfg
    cls = get_mbi_class(cfg)
    if sameobj:
        # one builder object reconfigured for every artifact of this kind (a GUI / long-running service does this)
        mbi = _SHARED_CFG.setdefault("mbi_obj", cls())
    else:
        mbi = cls()
    mbi.load_from_config(cfg)
    data = mbi.export()
    return {"ctr_init_vector": mbi.ctr_init_vector}, data


def k_otfad():
    from spsdk.utils.crypto.otfad import KeyBlob

    kb = KeyBlob(0x08001000, 0x0800F3FF)
    data = kb.export(kek=bytes(16)) + kb.encrypt_image(0x08001000, bytes(range(64)) * 16, True)
    return {"key": kb.key, "ctr_init_vector": kb.ctr_init_vector}, data


def k_iee():
    """Every encrypting IEE mode x key size through the public class with both keys left out: XTS (key1, key2 = the two
    halves of the XTS key) and the three CTR flavours (key1 = AES key, key2 = initial counter)."""
    from spsdk.utils.crypto.iee import IeeKeyBlob, IeeKeyBlobAttribute, IeeKeyBlobKeyAttributes, IeeKeyBlobLockAttributes, IeeKeyBlobModeAttributes

    fields = {}
    data = b""
    for mode in ("AesXTS", "AesCTRWAddress", "AesCTRWOAddress", "AesCTRkeystream"):
        for size in ("CTR128XTS256", "CTR256XTS512"):
            attr = IeeKeyBlobAttribute(IeeKeyBlobLockAttributes.UNLOCK, getattr(IeeKeyBlobKeyAttributes, size), getattr(IeeKeyBlobModeAttributes, mode))
            kb = IeeKeyBlob(attr, 0x30001000, 0x30001FFF)
            data += kb.plain_data() + kb.encrypt_image(0x30001000, bytes(4096))
            sfx = "" if (mode, size) == ("AesXTS", "CTR128XTS256") else f"_{mode}_{size}"
            fields["key1" + sfx] = kb.key1
            fields["key2" + sfx] = kb.key2
    return fields, data


def k_bee():
    from spsdk.image.bee import BeeKIB, BeeProtectRegionBlock, BeeRegionHeader

    prdb = BeeProtectRegionBlock()
    kib = BeeKIB()
    hdr = BeeRegionHeader(prdb=None, sw_key=None, kib=None)
    return {"prdb_counter": prdb.counter, "kib_key": kib.kib_key, "kib_iv": kib.kib_iv, "sw_key_hdr": hdr._sw_key,
            "hdr_kib_key": hdr._kib.kib_key, "hdr_prdb_counter": hdr._prdb.counter}, b""


def k_bee_cfg_both():
    """BEE through the configuration entry point with both engines generated: two region headers (two exported files)
    come out of one call - each must carry its own invented KIB key/IV and PRDB counter."""
    from spsdk.image.bee import BeeNxp

    d = os.path.join(TESTS, "nxpimage", "data", "bee")
    cfg = {
        "output_folder": "bee_output", "input_binary": os.path.join(d, "evkbimxrt1050_iled_blinky_ext_FLASH_unencrypted_nopadding.bin"),
        "engine_selection": "both", "engine_key_selection": "random", "base_address": "0x60001000",
        "bee_engine": [
            {"bee_cfg": {"user_key": "0x0123456789abcdeffedcba9876543210",
                         "protected_region": [{"start_address": "0x60001000", "length": "0x1000", "protected_level": 0}]}},
            {"bee_cfg": {"user_key": "0x0123456789abcdeffedcba9876543210",
                         "protected_region": [{"start_address": "0x60002000", "length": "0x1000", "protected_level": 0}]}},
        ],
    }
    bee = BeeNxp.load_from_config(cfg)
    fields = {}
    for i, h in enumerate(bee.headers):
        fields[f"e{i}_kib_key"] = h._kib.kib_key
        fields[f"e{i}_kib_iv"] = h._kib.kib_iv
        fields[f"e{i}_prdb_counter"] = h._prdb.counter
    return fields, b""


def k_sb1():
    """SB 1.x image: DEK and MAC are chosen at construction (kept in the object; the format stores them for encrypted files)."""
    from spsdk.sbfile.sb1.images import SecureBootV1

    img = SecureBootV1(version="1.1")
    return {"dek": img._dek, "mac": img._mac}, b""


def k_bootimgrt():
    """Legacy i.MX RT boot image, HAB-encrypted application with the nonce left to the library."""
    from spsdk.image.images import BootImgRT

    img = BootImgRT(0x60000000, BootImgRT.IVT_OFFSET_NOR_FLASH)
    app = bytes(4) + (0x60002000 + 0x400).to_bytes(4, "little") + bytes(range(256)) * 4
    img.add_image(app, address=0x60002400, dek_key=bytes(range(16)))
    return {"nonce": img._nonce}, b""


def k_dice():
    """DICE attestation challenge issued by the local verification service."""
    from spsdk.dice.service_local import LocalDICEVerificationService

    with tempfile.TemporaryDirectory() as td:
        svc = LocalDICEVerificationService(os.path.join(td, "dice.sqlite"))
        ch = svc.get_challenge()
    return {"challenge": ch}, b""


_HAB_WS = []


class _KeepDir:
    """A workspace directory that survives between the artifacts of one history (a rebuild in the same folder)."""

    def __enter__(self):
        if not _HAB_WS:
            _HAB_WS.append(tempfile.mkdtemp(prefix="c17habws"))
            import atexit
            import shutil

            atexit.register(shutil.rmtree, _HAB_WS[0], True)
        return _HAB_WS[0]

    def __exit__(self, *a):
        return False


def k_hab(same_ws: bool = False):
    """HAB encrypted image with self-chosen DEK and nonce, through nxpimage hab export (BD config of the repository's tests).
    same_ws=True: every build of the history happens in the same workspace folder (rebuild after a change)."""
    import shutil

    from click.testing import CliRunner

    from spsdk.apps import nxpimage

    src = os.path.join(TESTS, "nxpimage", "data", "hab", "export")
    with (_KeepDir() if same_ws else tempfile.TemporaryDirectory()) as td:
        shutil.copytree(os.path.join(src, "rt1165_semcnand_encrypted_random"), td, dirs_exist_ok=True)
        shutil.copytree(os.path.join(src, "keys"), os.path.join(td, "keys"), dirs_exist_ok=True)
        shutil.copytree(os.path.join(src, "crts"), os.path.join(td, "crts"), dirs_exist_ok=True)
        cwd = os.getcwd()
        os.chdir(td)
        try:
            r = CliRunner().invoke(nxpimage.main, ["hab", "export", "--command", "config.bd", "--output", "out.bin",
                                                   "evkmimxrt1064_iled_blinky_SDRAM.s19"])
        finally:
            os.chdir(cwd)
        if r.exit_code != 0:
            raise RuntimeError(f"hab export failed: {r.output[-500:]} {r.exception!r}")
        dek = open(os.path.join(td, "gen_hab_encrypt", "evkmimxrt1064_iled_blinky_SDRAM_hab_dek.bin"), "rb").read()
        data = open(os.path.join(td, "out.bin"), "rb").read()
    return {"dek": dek}, data


def k_hexstr():
    from spsdk.utils.misc import load_hex_string

    return {"key": load_hex_string(None, 16)}, b""


def k_sb1():
    from spsdk.sbfile.sb1.images import SecureBootV1

    img = SecureBootV1(version="1.0")
    return {"dek": img._dek, "mac": img._mac}, b""


KINDS = {"sb20": k_sb20, "sb21": k_sb21, "advp": k_advp, "sb21cfg": k_sb21cfg, "mbi_class": k_mbi_class, "mbi_cfg": k_mbi_cfg,
         "otfad": k_otfad, "iee": k_iee, "bee": k_bee, "hab": k_hab, "hexstr": k_hexstr,
         "sb21cfg_same": lambda: k_sb21cfg(True), "mbi_cfg_same": lambda: k_mbi_cfg(True), "hab_same": lambda: k_hab(True),
         "mbi_cfg_sameobj": lambda: k_mbi_cfg(False, True),
         "sb1": k_sb1, "bootimgrt": k_bootimgrt, "dice": k_dice, "bee_cfg_both": k_bee_cfg_both}


def fork_mode():
    """argv[3] == "forkreal": real entropy. Build each kind of HIST once in this process (warms any module-level
    state), then fork twice WITHOUT exec and build the same kinds in each child; report the fields of parent and
    children. A value equal in two processes means entropy state was duplicated by fork()."""
    import logging

    logging.disable(logging.CRITICAL)

    def build_all():
        out = []
        for kind in HIST:
            try:
                fields, _ = KINDS[kind]()
                out.append({"kind": kind, "fields": {k: (v.hex() if isinstance(v, (bytes, bytearray)) else None) for k, v in fields.items()}})
            except Exception as e:  # noqa
                out.append({"kind": kind, "error": f"{type(e).__name__}: {e}"})
        return out

    res = {"parent": build_all(), "children": []}
    for _ in range(2):
        r, w = os.pipe()
        pid = os.fork()
        if pid == 0:
            try:
                os.close(r)
                os.write(w, json.dumps(build_all()).encode())
            finally:
                os._exit(0)
        os.close(w)
        buf = b""
        while True:
            c = os.read(r, 65536)
            if not c:
                break
            buf += c
        os.close(r)
        os.waitpid(pid, 0)
        res["children"].append(json.loads(buf or b"[]"))
    print("C17JSON" + json.dumps(res))


def main():
    import logging

    if len(sys.argv) > 3 and sys.argv[3] == "forkreal":
        return fork_mode()
    logging.disable(logging.CRITICAL)
    arts = []
    for idx, kind in enumerate(HIST):
        PHASE[0] = str(idx)
        start = len(DRAWS)
        try:
            fields, data = KINDS[kind]()
            arts.append({"kind": kind, "fields": {k: (v.hex() if isinstance(v, (bytes, bytearray)) else None) for k, v in fields.items()},
                         "export": data.hex(), "window": [start, len(DRAWS)]})
        except Exception as e:  # noqa
            import traceback

            arts.append({"kind": kind, "error": f"{type(e).__name__}: {e}", "tb": traceback.format_exc()[-1500:], "window": [start, len(DRAWS)]})
    PHASE[0] = "after"
    print("C17JSON" + json.dumps({"draws": DRAWS, "artifacts": arts}))


main()
