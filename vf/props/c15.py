"""C15 — debug authentication: credentials (DC) and responses (DAR) are bound and verifiable
(DESIGN §16; engine E1: lattice of departures from a base configuration per protocol class, plus
full-product groups and binding matrices).  Oracle: vf/ref/dat_ref.py — an independent byte-level
model/reader of DC, DAC and DAR per protocol version, calibrated on the repository's golden binaries.

Groups of cases (one forked worker call per case; `g` selects the group):

  fam  every DAT family x revision of the database x every protocol class its DAT hardware takes,
       at the base configuration.
  lat  per protocol class, on representative families (one per equivalence class of the database
       values the DAT code reads): all configurations with <= k departures from the base over
       socc source/value x uuid x cc_socu x cc_vu x credential beacon x (number of RoT keys, used
       index) x key set (incl. keys with leading-zero coordinates) x DCK key x version argument x
       signer form x key file form x number form (x CA flag), and for the response: authentication
       beacon x challenge pattern x challenge uuid / version / socc fields x construction path.
  rot  full product (number of RoT keys 1..4) x (used index) x key set (x CA flag) per protocol class.
  bind binding matrix per protocol class: responses for every (credential_i, challenge_j, uuid_k)
       verified against every other triple.
  reuse one response configuration dictionary reused for 3 (quick) / 4 (thorough) different challenges, every protocol
       class: each response answers its own challenge and equals the one a fresh dictionary gives.
  errpath rot_id / private key mismatch: sign() refuses, the caller goes on: export() must raise or hand out only a
       credential that verifies under keys[rot_id]; again after a second refusal; after a sign() with the right key the
       export verifies and parses back (every classic / EdgeLock v1 class; key given as rotk, sign_provider, constructor).
  hist object histories per protocol class: from a new / signed / parsed credential object every sequence
       of <= 3 (quick) / 4 (thorough) operations over {sign, export, parse(export) and go on with the parsed
       object, set one field, set another field, set two fields, set two fields to second values}; every
       export is judged by the same byte-level oracle against the object's *current* values.
  cli  `nxpdebugmbox dat dc export` through click's CliRunner for one representative per protocol
       class — only when the application imports in this environment (reported otherwise).

Clauses (discriminator = scope ':' symptom; the scope is the protocol class, or the layout kind where a
symptom cannot depend on the key size):
  C15.dc-bytes      exported bytes before the signature differ from the byte-level model built from the inputs
                    (field values, RoT meta from the fixture key numbers, DCK, RoT key) / not readable / a second
                    build from the same configuration differs
  C15.dc-signature  signature does not verify under the RoT key the credential names over bytes[0 : sig offset]
  C15.dc-tamper     a bit flip in a field region leaves the independent verification intact
  C15.dc-roundtrip  parse(export(dc)) raises / differs field by field / is not == dc / re-exports other bytes;
                    the builder hands out a credential whose DCK the format cannot carry
  C15.rot-hash      calculate_hash() raises or differs from the documented construction over the same keys, or from
                    what SPSDK's image tools give for the same ordered keys (RKHTv1 / CertBlockV1, RKHTv21 / CertBlockV21,
                    AHAB SRK table)
  C15.dac-parse     a challenge built from bytes parses to other field values / does not re-export identically
  C15.dac-validate  a challenge carrying the credential's own version/socc/uuid/RoT hash is refused
  C15.dar-embeds    response does not embed the credential bytes, the authentication beacon (and the uuid)
  C15.dar-signature response signature does not verify under the DCK over DC || beacon || (uuid) || challenge
  C15.dar-binding   a response verifies against another challenge / credential / uuid (or not against its own)
Builder rejections (SPSDKError) are counted as rejected; other exception types out of a *builder* are
recorded as observations (cov["observations"]), not violations.
"""
from __future__ import annotations

import os
import shutil
import struct
import tempfile
import traceback
from typing import Any, Optional

from vf import core, fixtures
from vf.ref import dat_ref as R

LEVEL = "exploration"
U32 = 0xFFFFFFFF

# ---------------------------------------------------------------------------------------------
# protocol classes

# cls id -> layout ('plain' | 'ele' | 'ele2'), RoT meta kind, key pool, protocol version
CLASSES: dict[str, dict] = {
    "rsa-1.0": {"layout": "plain", "meta": "rsa", "pool": "rsa2048", "ver": (1, 0)},
    "rsa-1.1": {"layout": "plain", "meta": "rsa", "pool": "rsa4096", "ver": (1, 1)},
    "ecc-2.0": {"layout": "plain", "meta": "ecc", "pool": "p256", "ver": (2, 0)},
    "ecc-2.1": {"layout": "plain", "meta": "ecc", "pool": "p384", "ver": (2, 1)},
    "ecc-2.2": {"layout": "plain", "meta": "ecc", "pool": "p521", "ver": (2, 2)},
    "ele-1.0": {"layout": "ele", "meta": "ele", "pool": "rsa2048", "ver": (1, 0)},
    "ele-1.1": {"layout": "ele", "meta": "ele", "pool": "rsa4096", "ver": (1, 1)},
    "ele-2.0": {"layout": "ele", "meta": "ele", "pool": "p256", "ver": (2, 0)},
    "ele-2.1": {"layout": "ele", "meta": "ele", "pool": "p384", "ver": (2, 1)},
    "ele-2.2": {"layout": "ele", "meta": "ele", "pool": "p521", "ver": (2, 2)},
    "ele2-p256": {"layout": "ele2", "meta": None, "pool": "p256", "ver": (2, 0)},
    "ele2-p384": {"layout": "ele2", "meta": None, "pool": "p384", "ver": (2, 1)},
    "ele2-p521": {"layout": "ele2", "meta": None, "pool": "p521", "ver": (2, 2)},
    "ele2-rsa2048": {"layout": "ele2", "meta": None, "pool": "rsa2048", "ver": (1, 0)},
    "ele2-rsa4096": {"layout": "ele2", "meta": None, "pool": "rsa4096", "ver": (1, 1)},
}
POOLS = {
    # standard order, alternative order (leading-zero-coordinate keys first / reversed), standard DCK
    "p256": (["p256_0", "p256_1", "p256_2", "p256_3"], ["p256_x0", "p256_y0", "p256_0", "p256_1"], "p256_3"),
    "p384": (["p384_0", "p384_1", "p384_2", "p384_3"], ["p384_x0", "p384_y0", "p384_0", "p384_1"], "p384_3"),
    "p521": (["p521_0", "p521_1", "p521_x0", "p521_y0"], ["p521_x0", "p521_y0", "p521_0", "p521_1"], "p521_1"),
    "rsa2048": (["rsa2048_0", "rsa2048_1", "rsa2048_2", "rsa2048_3"], ["rsa2048_3", "rsa2048_2", "rsa2048_1", "rsa2048_0"], "rsa2048_4"),
    "rsa4096": (["rsa4096_0", "rsa4096_1", "rsa4096_2", "rsa4096_3"], ["rsa4096_3", "rsa4096_2", "rsa4096_1", "rsa4096_0"], "rsa4096_3"),
}
OTHER_SIZE = {"p256": "p384_0", "p384": "p256_0", "p521": "p384_0", "rsa2048": "rsa4096_0", "rsa4096": "rsa2048_0"}
OTHER_TYPE = {"p256": "rsa2048_0", "p384": "rsa2048_0", "p521": "rsa2048_0", "rsa2048": "p256_0", "rsa4096": "p384_0"}
ROT_PAIRS = [(n, i) for n in (1, 2, 3, 4) for i in range(n)]

_IDX: Optional[dict] = None


def knum(name: str) -> dict:
    """Fixture key numbers in dat_ref's form."""
    global _IDX
    if _IDX is None:
        _IDX = fixtures.key_index()
    k = _IDX[name]
    if k["type"] == "rsa":
        return {"type": "rsa", "n": int(k["n"], 16), "e": int(k["e"])}
    return {"type": "ecc", "curve": k["curve"], "x": int(k["x"], 16), "y": int(k["y"], 16)}


def kpath(name: str, form: str) -> str:
    """form: pub.pem | pub.der | priv.pem | priv.der"""
    kind, enc = form.split(".")
    return fixtures.key_path(name, kind == "priv", enc)


PASSPHRASE = "correct horse battery staple"
_ENC: dict = {}


def enc_key_path(name: str, enc: str) -> str:
    """The fixture private key `name` as a passphrase-protected PKCS#8 file (PEM | DER), written with `cryptography` into
    the run's work directory on first use (the salt/IV are random; nothing that is judged depends on the file bytes)."""
    if (name, enc) not in _ENC:
        d = os.path.join(os.environ.get("VERIF_WORKDIR") or tempfile.gettempdir(), "c15-enc-keys")
        os.makedirs(d, exist_ok=True)
        path = os.path.join(d, f"{name}.enc.{enc}")
        if not os.path.exists(path):
            from cryptography.hazmat.primitives import serialization as ser

            k = ser.load_der_private_key(fixtures.read(f"keys/{name}.der"), None, unsafe_skip_rsa_key_validation=True)
            data = k.private_bytes(ser.Encoding.PEM if enc == "pem" else ser.Encoding.DER, ser.PrivateFormat.PKCS8,
                                   ser.BestAvailableEncryption(PASSPHRASE.encode()))
            part = f"{path}.{os.getpid()}"
            with open(part, "wb") as f:
                f.write(data)
            os.replace(part, path)
        _ENC[(name, enc)] = path
    return _ENC[(name, enc)]


class PromptSeam:
    """The operator at the passphrase prompt: the seam the repository's own tests use
    (spsdk.crypto.signature_provider.prompt_for_passphrase), answered with the passphrase; counts the prompts."""

    def __init__(self) -> None:
        self.count = 0
        self.saved: list = []

    def _answer(self) -> str:
        self.count += 1
        return PASSPHRASE

    def __enter__(self) -> "PromptSeam":
        import spsdk.crypto.keys as ck
        import spsdk.crypto.signature_provider as sp

        for mod in (sp, ck):
            self.saved.append((mod, mod.prompt_for_passphrase))
            mod.prompt_for_passphrase = self._answer
        return self

    def __exit__(self, *a) -> None:
        for mod, fn in self.saved:
            mod.prompt_for_passphrase = fn


def pattern(name: str, n: int, seed: int, tag: str) -> bytes:
    if name == "zeros":
        return bytes(n)
    if name == "ones":
        return b"\xff" * n
    if name == "counter":
        return bytes(range(n))
    if name == "one":
        return bytes(n - 1) + b"\x01"
    if name in ("pattern", "seed"):
        return core.seeded_bytes(seed, f"c15|{name}|{tag}", n)
    raise core.HarnessError(f"pattern {name}")


def lk(cls: str) -> str:
    """Coarser scope: device kind (classic / EdgeLock) + key type."""
    c = CLASSES[cls]
    return f"{c['layout'].rstrip('2')}-{'rsa' if c['pool'].startswith('rsa') else 'ecc'}"


# ---------------------------------------------------------------------------------------------
# lattice


def dims_for(cls: str) -> dict[str, list]:
    """Dimension name -> ordered domain, element 0 = base."""
    c = CLASSES[cls]
    rsa = c["pool"].startswith("rsa")
    if c["layout"] == "ele2":
        return {
            "uuid": ["pattern", "zeros", "ones", "one", "absent"],
            "socu": [0x3FF, 0, 1, U32],
            "fuse": [0, 1, 255],
            "dck": ["std", "signer"] if rsa else ["std", "x0", "y0", "signer"],
            "skey": ["std", "alt"] if rsa else ["std", "x0", "y0"],  # the signing (SRK) key
            "signer": ["key-pem", "key-der", "sp-file", "key-enc-pem", "sp-file-enc-pw"],
            "keyform": ["pub.pem", "pub.der", "priv.pem"],
            "cfgform": ["int", "hex-str"],
            "reuse": ["fresh-config", "same-config-twice"],
            "abeacon": [0, 1, 0xFFFF],
            "chal": ["seed", "zeros", "ones", "counter"],
            "dacuuid": ["same", "zeros", "ones", "pattern"],
            "srkidx": [0, 1, 3],
        }
    d = {
        "socc": ["family", "legacy", "ctor", "ctor-0", "ctor-max"],
        "uuid": ["zeros", "ones", "pattern", "one"],
        "socu": [0x3FF, 0, 1, U32],
        "vu": [0x5678, 0, 1, U32],
        "beacon": [0, 1, 0xFFFF, U32],
        "rot": ([(4, 1)] if c["layout"] == "ele" else [(3, 1)]),
        "keyset": ["std", "alt", "dup-two-slots", "all-same"],
        "dck": ["std", "rot", "othersize", "othertype"] if rsa else ["std", "x0", "y0", "rot", "othersize", "othertype"],
        "verarg": ["none", "explicit"],
        "signer": ["rotk-pem", "rotk-der", "sp-file", "rotk-enc-pem", "rotk-enc-der", "sp-file-enc-pw"],
        "keyform": ["pub.pem", "pub.der", "priv.pem"],
        "cfgform": ["int", "hex-str"],
        "reuse": ["fresh-config", "same-config-twice"],
        "abeacon": [0, 1, 0xFFFF, U32],
        "chal": ["seed", "zeros", "ones", "counter"],
        "dacuuid": ["same", "zeros", "ones", "pattern"],
        "dacver": ["match", "other"],
        "dacsocc": ["family", "other"],
        "darpath": ["create", "ctor", "config", "config-sp", "create-nofamily", "config-enc", "config-sp-enc-pw"],
    }
    d["rot"] = d["rot"] + [p for p in ROT_PAIRS if p != d["rot"][0]]
    if c["layout"] == "ele":
        d["ca"] = [False, True]
    return d


# dimensions of the challenge / response side (and the socc source, which selects the family the code looks up)
RESPONSE_DIMS = {"socc", "abeacon", "chal", "dacuuid", "dacver", "dacsocc", "darpath", "srkidx"}


# quick tier, class keys other than the first of a device kind: the dimensions the database flags can meet
QUICK_OTHER_DIMS = RESPONSE_DIMS - {"darpath"}
# dimensions whose handling depends on the key material (type, size, file form): all values on every class; of the other
# ("value") dimensions the RSA-4096 classes - 8 private-key loads of 0.1 s per case - take the first departure in quick
STRUCT_DIMS = {"rot", "keyset", "dck", "signer", "keyform", "darpath", "skey", "srkidx", "ca"}


def quick_keep(cls: str, dep: dict, first: bool) -> bool:
    if not dep:
        return True
    (dim, idx), = dep.items()
    if not first and dim not in QUICK_OTHER_DIMS:
        return False
    if CLASSES[cls]["pool"] == "rsa4096" and dim not in STRUCT_DIMS and idx != 1:
        return False
    return True


def lattice(cls: str, k: int) -> list[dict]:
    """All assignments with <= k non-base dimensions, as {dim: index} of the departures, simplest first."""
    dims = dims_for(cls)
    names = list(dims)
    out: list[dict] = [{}]
    if k >= 1:
        for a in names:
            for i in range(1, len(dims[a])):
                out.append({a: i})
    if k >= 2:
        for x, a in enumerate(names):
            for b in names[x + 1:]:
                for i in range(1, len(dims[a])):
                    for j in range(1, len(dims[b])):
                        out.append({a: i, b: j})
    return out


def resolve(cls: str, dep: dict) -> dict:
    dims = dims_for(cls)
    return {n: dom[dep.get(n, 0)] for n, dom in dims.items()}


# ---------------------------------------------------------------------------------------------
# worker helpers


def exc_name(e: BaseException) -> str:
    t = type(e)
    return t.__name__ if t.__module__ == "builtins" else f"{t.__module__.split('.')[0]}.{t.__name__}"


def call(fn, *a, **k):
    """('ok', value) | ('spsdk', message) | ('<ExceptionType>', message + where)"""
    from spsdk.exceptions import SPSDKError

    try:
        return "ok", fn(*a, **k)
    except SPSDKError as e:
        return "spsdk", f"{type(e).__name__}: {str(e)[:160]}"
    except core.Watchdog:
        raise
    except Exception as e:  # noqa
        frames = traceback.extract_tb(e.__traceback__)
        inner = [f for f in frames if os.path.realpath(f.filename).startswith(core.REPO + os.sep)]
        where = f"{os.path.relpath(inner[-1].filename, core.REPO)}:{inner[-1].name}" if inner else "?"
        return exc_name(e), f"{str(e)[:120]} @{where}"


def sym(st: str) -> str:
    return "rejected" if st == "spsdk" else st


def flip(data: bytes, byte: int, bit: int = 0) -> bytes:
    b = bytearray(data)
    b[byte] ^= 1 << bit
    return bytes(b)


def pubnum(pub: Any) -> Optional[dict]:
    """Numbers of an SPSDK public key object through its accessors."""
    from spsdk.crypto.keys import PublicKeyEcc, PublicKeyRsa

    if isinstance(pub, PublicKeyRsa):
        return {"type": "rsa", "n": pub.n, "e": pub.e}
    if isinstance(pub, PublicKeyEcc):
        return {"type": "ecc", "curve": str(pub.curve.value), "x": pub.x, "y": pub.y}
    return None


def dar_class(ver: tuple[int, int]):
    from spsdk.dat import dar_packet as dp

    return {(1, 0): dp.DebugAuthenticateResponseRSA, (1, 1): dp.DebugAuthenticateResponseRSA,
            (2, 0): dp.DebugAuthenticateResponseECC_256, (2, 1): dp.DebugAuthenticateResponseECC_384,
            (2, 2): dp.DebugAuthenticateResponseECC_521}[ver]


def dac_hash_len(fam: dict, ver: tuple[int, int]) -> int:
    """Length of the RoT hash field of a challenge (rule written next to the DAC parser: EdgeLock devices always
    256 bit; devices that always use SHA-256; else by protocol version)."""
    if fam["ele"] or fam["sha256"]:
        return 32
    return {(2, 1): 48, (2, 2): 64}.get(ver, 32)


class Obs:
    """Per-case collector."""

    def __init__(self, cls: str) -> None:
        self.cls = cls
        self.viol: list = []
        self.cnt: dict = {}
        self.distinct: list = []
        self.obs: list = []

    def v(self, clause: str, disc: str, detail: str, scope: Optional[str] = None) -> None:
        self.viol.append((f"C15.{clause}", f"{scope or self.cls}:{disc}", detail[:900]))

    def c(self, key: str, n: int = 1) -> None:
        self.cnt[key] = self.cnt.get(key, 0) + n

    def observe(self, what: str) -> None:
        self.obs.append(what)
        self.c("builder_non_spsdk_exceptions")

    def result(self) -> dict:
        return {"viol": core.dedupe(self.viol), "count": self.cnt, "distinct": self.distinct, "obs": sorted(set(self.obs))}


def builder_outcome(o: Obs, st: str, val: Any, stage: str, base: bool) -> bool:
    """True when the builder stage succeeded; bookkeeping of rejections / observations otherwise."""
    if st == "ok":
        return True
    if st == "spsdk":
        o.c(f"rejected_{stage}")
        o.distinct.append(f"rejected|{o.cls}|{stage}")
        if base:
            raise core.HarnessError(f"base case rejected at {stage} for {o.cls}: {val}")
    else:
        o.observe(f"{o.cls}:{stage}:{st}: {val}")
        if base:
            raise core.HarnessError(f"base case failed at {stage} for {o.cls}: {st}: {val}")
    return False


_FTAB: Optional[dict] = None


def fam_of(case: dict) -> dict:
    """The database row of the case's "family/revision" (table computed once per process; inherited through fork)."""
    global _FTAB
    if _FTAB is None:
        _FTAB = {fkey(e): e for e in family_table()}
    return _FTAB[case["fam"]]


_SP: dict = {}


def sp_for(path: str, pss: bool):
    """Signature provider over a key file, as the public helper builds it (cached per process: RSA-4096 loads are slow)."""
    from spsdk.crypto.signature_provider import get_signature_provider

    if (path, pss) not in _SP:
        _SP[(path, pss)] = get_signature_provider(local_file_key=path, pss_padding=pss)
    return _SP[(path, pss)]


# ---------------------------------------------------------------------------------------------
# classic + EdgeLock v1 credential: build, judge


def plan_classic(case: dict) -> dict:
    """Resolve a case into concrete inputs and the expected (model) values."""
    cls = case["cls"]
    c = CLASSES[cls]
    fam = fam_of(case)
    val = resolve(cls, case.get("dep", {}))
    seed = case.get("seed", 0)
    pool_std, pool_alt, dck_std = POOLS[c["pool"]]
    n, used = val["rot"]
    keys = {"std": pool_std, "alt": pool_alt, "dup-two-slots": [pool_std[0], pool_std[1], pool_std[0], pool_std[2]],
            "all-same": [pool_std[0]] * 4}[val["keyset"]][:n]  # the list as written: the same file may fill several slots
    dck = {"std": dck_std, "x0": f"{c['pool']}_x0", "y0": f"{c['pool']}_y0", "rot": keys[used],
           "othersize": OTHER_SIZE[c["pool"]], "othertype": OTHER_TYPE[c["pool"]]}[val["dck"]]
    uuid = pattern(val["uuid"], 16, seed, "dcuuid")
    socc = {"family": fam["socc"], "legacy": fam["socc"], "ctor": fam["socc"], "ctor-0": 0, "ctor-max": U32}[val["socc"]]
    return {"cls": cls, "fam": fam, "val": val, "keys": keys, "used": used, "dck": dck, "uuid": uuid, "socc": socc,
            "ver": c["ver"], "layout": c["layout"], "meta": c["meta"], "seed": seed,
            "pss": bool(fam["pss"]) and c["pool"].startswith("rsa"), "ca": bool(val.get("ca", False)),
            "dck_matches": val["dck"] not in ("othersize", "othertype")}


def classic_config(p: dict) -> dict:
    val, fam = p["val"], p["fam"]
    form = val["keyform"]
    num = (lambda x: x) if val["cfgform"] == "int" else hex
    used_key = p["keys"][p["used"]]
    cfg: dict[str, Any] = {
        "uuid": p["uuid"].hex() if val["cfgform"] == "int" else p["uuid"].hex().upper(),
        "cc_socu": num(val["socu"]), "cc_vu": num(val["vu"]), "cc_beacon": num(val["beacon"]),
        "rot_meta": [kpath(k, form) for k in p["keys"]], "rot_id": num(p["used"]), "dck": kpath(p["dck"], form),
    }
    sg = val["signer"]
    if sg == "sp-file":
        cfg["sign_provider"] = f"type=file;file_path={kpath(used_key, 'priv.pem')}"
    elif sg == "sp-file-enc-pw":  # protected key file, password configured
        cfg["sign_provider"] = f"type=file;file_path={enc_key_path(used_key, 'pem')};password={PASSPHRASE}"
    elif sg in ("rotk-enc-pem", "rotk-enc-der"):  # protected key file, no password configured: SPSDK prompts
        cfg["rotk"] = enc_key_path(used_key, sg[-3:])
    else:
        cfg["rotk"] = kpath(used_key, "priv.pem" if sg == "rotk-pem" else "priv.der")
    if val.get("ca"):
        cfg["flag_ca"] = True
    if val["socc"] == "legacy":
        cfg["socc"] = num(fam["socc"])
    else:
        cfg["family"] = fam["family"]
        cfg["revision"] = fam["rev"]
    return cfg


def build_classic(p: dict, o: Obs, base: bool, cfg: Optional[dict] = None):
    """-> (dc object, exported bytes) or None when the builder refused."""
    from spsdk.crypto.signature_provider import get_signature_provider
    from spsdk.crypto.utils import extract_public_key
    from spsdk.dat import debug_credential as dcm

    val = p["val"]
    cfg = classic_config(p) if cfg is None else cfg
    version = dcm.ProtocolVersion(f"{p['ver'][0]}.{p['ver'][1]}")
    if val["socc"] in ("family", "legacy"):
        st, dc = call(dcm.DebugCredentialCertificate.create_from_yaml_config, cfg,
                      version=version if val["verarg"] == "explicit" else None)
        if not builder_outcome(o, st, dc, "create_from_yaml_config", base):
            return None
    else:
        klass = {"rsa": dcm.DebugCredentialCertificateRsa, "ecc": dcm.DebugCredentialCertificateEcc,
                 "ele": dcm.DebugCredentialEdgeLockEnclave}[p["meta"]]
        mklass = {"rsa": dcm.RotMetaRSA, "ecc": dcm.RotMetaEcc, "ele": dcm.RotMetaEdgeLockEnclave}[p["meta"]]
        st, meta = call(mklass.load_from_config, {"rot_meta": cfg["rot_meta"], "rot_id": p["used"], "flag_ca": p["ca"]})
        if not builder_outcome(o, st, meta, "rotmeta.load_from_config", base):
            return None
        st, dc = call(lambda: klass(
            version=version, socc=p["socc"], uuid=p["uuid"], rot_meta=meta,
            dck_pub=extract_public_key(cfg["dck"]), cc_socu=val["socu"], cc_vu=val["vu"],
            cc_beacon=val["beacon"], rot_pub=extract_public_key(cfg["rot_meta"][p["used"]]),
            signature_provider=get_signature_provider(
                sp_cfg=cfg.get("sign_provider"), local_file_key=cfg.get("rotk"), pss_padding=p["pss"])))
        if not builder_outcome(o, st, dc, "constructor", base):
            return None
    st, r = call(dc.sign)
    if not builder_outcome(o, st, r, "sign", base):
        return None
    st, data = call(dc.export)
    if not builder_outcome(o, st, data, "export", base):
        return None
    return dc, data


def first_region(regions: dict, a: bytes, b: bytes) -> str:
    for name, (x, y) in sorted(regions.items(), key=lambda kv: kv[1]):
        if name != "signature" and a[x:y] != b[x:y]:
            return name
    return "length"


def tamper_sweep(o: Obs, regions: dict, data: bytes, sig_off: int, verify) -> None:
    """Field coverage: one bit in every field region (first, middle, last byte; low and high bit) must break
    the independent verification."""
    for name, (a, b) in regions.items():
        if name == "signature" or a == b or a >= sig_off:
            continue
        for pos in sorted({a, (a + b) // 2, b - 1}):
            for bit in (0, 7):
                o.c("dc_tamper_flips")
                if verify(flip(data, pos, bit)[:sig_off]):
                    o.v("dc-tamper", f"region:{name}", f"bit {bit} of byte {pos} flipped, signature still verifies")


def judge_classic_bytes(p: dict, data: bytes, o: Obs) -> Optional[dict]:
    """Clauses that need only the exported bytes: dc-bytes, dc-signature, dc-tamper.  -> parsed (own reader) | None"""
    rot_keys = [knum(k) for k in p["keys"]]
    dck = knum(p["dck"])
    val = p["val"]
    try:
        parsed = R.parse_dc(data, p["layout"])
    except (R.DatError, struct.error) as e:
        o.v("dc-bytes", "unreadable", f"{type(e).__name__}: {e}")
        return None
    o.c("dc_parsed_by_reference")
    model = R.build_dc_body(p["layout"], p["ver"], p["socc"], p["uuid"], val["socu"], val["vu"], val["beacon"],
                            rot_keys, p["used"], dck, p["ca"])
    body = data[:parsed["sig_off"]]
    if body != model:
        where = first_region(parsed["regions"], body, model)
        rg = parsed["regions"].get(where, (0, 16))
        o.v("dc-bytes", f"differs-in:{where}", f"exported {len(body)} B before the signature, model {len(model)} B; "
            f"got {body[slice(*rg)].hex()[:160]} expected {model[slice(*rg)].hex()[:160]}")
    why = R.dc_names_key(parsed, rot_keys[p["used"]])
    if why:
        o.v("dc-bytes", f"rot-key-not-named:{why}", f"used index {p['used']} of {len(rot_keys)}")
    if parsed["dck"] != dck:
        o.v("dc-bytes", "dck-differs", "DCK field does not hold the numbers of the key file")
    # signature under the named key over exactly bytes[0:sig_off]
    if len(parsed["signature"]) != R.signature_size(parsed["rot_key"]):
        o.v("dc-signature", "length", f"{len(parsed['signature'])} bytes")
    ok = R.verify_dc(data, parsed, p["pss"])
    o.c("dc_signatures_verified_by_reference")
    if not ok:
        alt = parsed["rot_key"]["type"] == "rsa" and R.verify_dc(data, parsed, not p["pss"])
        o.v("dc-signature", ("other-padding:signer=" + val["signer"]) if alt else "does-not-verify",
            f"RoT key index {p['used']}, padding expected {'PSS' if p['pss'] else 'PKCS1-v1.5'}", scope=lk(p["cls"]))
    else:
        if R.verify_dc(data, parsed, p["pss"], fast=True) is not True:
            raise core.HarnessError("reference and OpenSSL verification disagree on a credential")
        tamper_sweep(o, parsed["regions"], data, parsed["sig_off"],
                     lambda b: R.verify_sig(parsed["rot_key"], b, parsed["signature"], pss=p["pss"], fast=True))
        # ... and it is the used key's signature, not another key's of the set
        for i, k in enumerate(rot_keys):
            if i != p["used"] and k != rot_keys[p["used"]]:
                o.c("dc_wrong_key_checks")
                if R.verify_sig(k, body, parsed["signature"], pss=p["pss"], fast=True):
                    o.v("dc-signature", "verifies-under-unused-key", f"key {i}")
    return parsed


def report_parse_failures(o: Obs, fails: dict, scope: Optional[str]) -> None:
    """A failure of the class's own parser is named 'parse:'; the generic entry point (which ends in the same parser)
    is reported separately only where it fails differently or alone."""
    if "class-parse" in fails:
        s, d = fails["class-parse"]
        o.v("dc-roundtrip", f"parse:{s}", d, scope=scope)
    if "generic-parse" in fails and fails["generic-parse"][0] != fails.get("class-parse", ("",))[0]:
        s, d = fails["generic-parse"]
        o.v("dc-roundtrip", f"generic-parse:{s}", d, scope=scope)


def judge_classic_object(p: dict, dc: Any, data: bytes, parsed: Optional[dict], o: Obs) -> None:
    """dc-roundtrip and rot-hash on the live object."""
    from spsdk.dat import debug_credential as dcm

    rot_keys = [knum(k) for k in p["keys"]]
    klass = type(dc)
    fam = p["fam"]
    table = ":crtk-table" if (p["meta"] == "ecc" and len(rot_keys) > 1) else ""

    def fields(x: Any) -> dict:
        return {"version": (x.version.major, x.version.minor), "socc": x.socc, "uuid": bytes(x.uuid), "cc_socu": x.cc_socu,
                "cc_vu": x.cc_vu, "cc_beacon": x.cc_beacon, "dck": pubnum(x.dck_pub), "rot": pubnum(x.rot_pub),
                "rot_meta": x.rot_meta.export(), "signature": bytes(x.signature or b"")}

    fails: dict = {}  # entry point -> (symptom, detail)
    p["generic_parse_ok"] = False
    for ep, fn in (("class-parse", klass.parse), ("generic-parse", dcm.DebugCredentialCertificate.parse)):
        if ep == "generic-parse":
            # the generic parser takes the credential class from the SOCC's "ambassador" family in the database
            sk = fam["socc_kind"].get(p["socc"])
            if sk is None:
                st, back = call(fn, data)
                o.c("generic_parse_unknown_socc_" + ("refused" if st == "spsdk" else st))
                continue
            if sk != p["layout"] and p["socc"] != fam["socc"]:
                o.c("generic_parse_not_applicable_socc_of_other_layout")
                continue
        o.c("dc_roundtrips")
        st, back = call(fn, data)
        if st != "ok":
            if ep == "generic-parse" and fam["socc_kind"].get(p["socc"]) != p["layout"]:
                o.v("dc-roundtrip", "generic-parse:class-taken-from-socc-ambassador",
                    f"{fam['family']}/{fam['rev']} shares SOCC {p['socc']:#x} with {fam['amb']}, whose latest revision has "
                    f"another credential class: {str(back)[:200]}", scope=p["layout"])
                continue
            fails[ep] = (f"{sym(st)}{table}", str(back))
            continue
        if type(back) is not klass:
            fails[ep] = (f"other-class:{type(back).__name__}", "")
            continue
        st, fb = call(fields, back)
        st2, fo = call(fields, dc)
        if st != "ok" or st2 != "ok":
            fails[ep] = (f"fields-unreadable{table}", f"{fb if st != 'ok' else fo}")
            continue
        bad = sorted(k for k in fo if fo[k] != fb[k])
        if bad:
            fails[ep] = (f"field:{'+'.join(bad)}{table}", f"{ {k: (fo[k], fb[k]) for k in bad[:2]} }"[:500])
            continue
        st, eq = call(lambda: (back == dc, dc == back))
        if st != "ok" or tuple(eq) != (True, True):
            fails[ep] = (f"not-equal{table}", f"== gives {eq}")
            continue
        st, again = call(back.export)
        if st != "ok" or again != data:
            fails[ep] = (f"reexport:{'differs' if st == 'ok' else sym(st)}{table}", "" if st == "ok" else str(again))
            continue
        # the parsed values are the given ones (not only self-consistent)
        want = {"version": p["ver"], "socc": p["socc"], "uuid": p["uuid"], "cc_socu": p["val"]["socu"],
                "cc_vu": p["val"]["vu"], "cc_beacon": p["val"]["beacon"], "dck": knum(p["dck"]), "rot": rot_keys[p["used"]]}
        off = sorted(k for k in want if fb[k] != want[k])
        if off:
            fails[ep] = (f"value:{'+'.join(off)}", f"{ {k: (want[k], fb[k]) for k in off[:2]} }"[:500])
            continue
        if ep == "generic-parse":
            p["generic_parse_ok"] = True
    report_parse_failures(o, fails, None)
    # RoT hash
    want_hash = R.expected_rot_hash(p["meta"], rot_keys, p["ca"])
    o.c("rot_hashes")
    st, h = call(dc.calculate_hash)
    p["rot_hash_ok"] = False
    if st != "ok":
        o.v("rot-hash", f"{sym(st)}:{'table' if len(rot_keys) > 1 else 'single-key'}", str(h))
    elif h != want_hash:
        o.v("rot-hash", f"value:{'table' if len(rot_keys) > 1 else 'single-key'}", f"got {h.hex()} expected {want_hash.hex()}")
    else:
        p["rot_hash_ok"] = True
        st, h2 = call(dc.calculate_hash)
        if st != "ok" or h2 != h:
            o.v("rot-hash", "not-repeatable", "")
        st, d2 = call(dc.export)
        if st != "ok" or d2 != data:
            o.v("dc-roundtrip", "export-changed-by-calculate_hash", "")
    # cross-tool agreement: the credential's RoT hash equals what SPSDK's image tools compute for the same ordered keys
    st_h, h_now = call(dc.calculate_hash)
    if st_h == "ok":
        if True:
            differing = []
            for tool, (ts, tv) in image_tool_hashes(p["meta"], tuple(p["keys"]), p["used"], p["ca"]).items():
                o.c("rot_hash_image_tool_comparisons")
                if ts == "ok":
                    if tv != h_now:
                        differing.append((tool, tv))
                elif ts == "spsdk":
                    o.c(f"image_tool_refuses_keys_{tool}")  # e.g. certificate block v2.1 has no P-521
                else:
                    o.observe(f"{p['cls']}:image-tool:{tool}:{ts}: {tv}")
            if differing:
                lz = any(R.ilen(knum(k)[c]) < R.COORD_BY_CURVE[knum(k)["curve"]] for k in p["keys"] if knum(k)["type"] == "ecc" for c in ("x", "y"))
                o.v("rot-hash", "differs-from-image-tools:" + "+".join(t for t, _ in differing),
                    f"keys {p['keys']}{' (a coordinate starts with a zero byte)' if lz else ''}: calculate_hash() {len(h_now)} B {h_now.hex()[:32]}.. "
                    f"{differing[0][0]} {len(differing[0][1])} B {differing[0][1].hex()[:32]}..; own construction {len(want_hash)} B "
                    f"{want_hash.hex()[:32]}..", scope=p["meta"])


_TOOL_HASH: dict = {}


def image_tool_hashes(meta: str, keys: tuple, used: int, ca: bool) -> dict:
    """RoT hash of the ordered key set by SPSDK's image tools: tool -> ('ok', hash) | ('spsdk', msg) | (exception, msg).
    rsa: RKHTv1.from_keys, CertBlockV1 over the fixture certificates of the same keys; ecc: RKHTv21.from_keys,
    CertBlockV21; ele: the AHAB SRK table built by SRKTable.load_from_config.  Cached per process (pure functions of the keys)."""
    ident = (meta, keys, used if meta == "ecc" else 0, ca)
    if ident in _TOOL_HASH:
        return _TOOL_HASH[ident]
    from spsdk.crypto.utils import extract_public_key

    paths = [kpath(k, "pub.pem") for k in keys]
    out: dict = {}
    if meta == "rsa":
        from spsdk.crypto.certificate import Certificate
        from spsdk.utils.crypto.cert_blocks import CertBlockV1
        from spsdk.utils.crypto.rkht import RKHTv1

        out["RKHTv1"] = call(lambda: RKHTv1.from_keys(paths).rkth())

        def cbv1() -> bytes:
            cb = CertBlockV1()
            for i, k in enumerate(keys):
                bits, r = k.split("_")
                cb.set_root_key_hash(i, Certificate.parse(fixtures.read(f"certs/{bits}_root{r}_nonca.der")))
            return cb.rkth

        out["CertBlockV1"] = call(cbv1)
    elif meta == "ecc":
        from spsdk.utils.crypto.cert_blocks import CertBlockV21
        from spsdk.utils.crypto.rkht import RKHTv21

        out["RKHTv21"] = call(lambda: RKHTv21.from_keys(paths).rkth())

        def cbv21() -> bytes:
            cb = CertBlockV21(root_certs=[extract_public_key(x) for x in paths], used_root_cert=used)
            cb.calculate()
            return cb.rkth

        out["CertBlockV21"] = call(cbv21)
    elif meta == "ele":
        from spsdk.image.ahab.ahab_srk import SRKTable

        def srk() -> bytes:
            t = SRKTable.load_from_config({"flag_ca": ca, "srk_array": paths})
            t.update_fields()
            return t.compute_srk_hash()

        out["AhabSRKTable"] = call(srk)
    _TOOL_HASH[ident] = out
    return out


# ---------------------------------------------------------------------------------------------
# challenge + response (classic / EdgeLock v1)


def plan_dac(p: dict) -> dict:
    val, fam, seed = p["val"], p["fam"], p["seed"]
    ver = p["ver"]
    if val.get("dacver", "match") == "other":
        ver = {(1, 0): (1, 1), (1, 1): (1, 0), (2, 0): (2, 1), (2, 1): (2, 2), (2, 2): (2, 0)}[ver]
    own = val.get("dacsocc", "family") == "family"
    socc = fam["socc"] if own else fam["other_socc"]
    ofam = fam if own else fam["other_fam"]
    uuid = p["uuid"] if val["dacuuid"] == "same" else pattern(val["dacuuid"], 16, seed, "dacuuid")
    chal = pattern(val["chal"], 32, seed, "challenge")
    hlen = dac_hash_len(ofam, ver)
    d = {"ver": ver, "socc": socc, "uuid": uuid, "chal": chal, "hlen": hlen, "rkth": core.seeded_bytes(seed, "rkth", hlen),
         "swapped": bool(ofam["swapped"]), "revocation": 0x1, "pinned": 0x2, "default": 0x3, "cc_vu": 0x4, "fam": ofam}
    d["bytes"] = R.build_dac(ver, socc, uuid, d["revocation"], d["rkth"], d["pinned"], d["default"], d["cc_vu"], chal, d["swapped"])
    return d


def make_dac(d: dict, o: Obs):
    """Parse own challenge bytes with SPSDK; dac-parse clause."""
    from spsdk.dat.dac_packet import DebugAuthenticationChallenge as DAC

    st, dac = call(DAC.parse, d["bytes"])
    o.c("dac_parses")
    scope = "dac"
    if st != "ok":
        o.v("dac-parse", sym(st), f"{dac}; challenge for {d['fam']['family']} v{d['ver']}", scope=scope)
        return None
    got = {"ver": (dac.version.major, dac.version.minor), "socc": dac.socc, "uuid": bytes(dac.uuid), "chal": bytes(dac.challenge),
           "rkth": bytes(dac.rotid_rkth_hash), "revocation": dac.rotid_rkh_revocation, "pinned": dac.cc_soc_pinned,
           "default": dac.cc_soc_default, "cc_vu": dac.cc_vu}
    bad = sorted(k for k in got if got[k] != d[k])
    if bad:
        o.v("dac-parse", f"field:{'+'.join(bad)}", f"{d['fam']['family']} v{d['ver']}: { {k: (d[k], got[k]) for k in bad[:3]} }"[:500], scope=scope)
        return None
    st, again = call(dac.export)
    if st != "ok" or again != d["bytes"]:
        if not d["swapped"]:
            o.v("dac-parse", "reexport", f"{st}", scope=scope)
        else:
            o.c("dac_reexport_differs_swapped_version")  # export() writes major first: the device quirk is on input only
    return dac


def judge_dar(p: dict, dc: Any, data: bytes, dacd: dict, dac: Any, o: Obs, tmp: str, base: bool) -> None:
    from spsdk.dat.dar_packet import DebugAuthenticateResponse

    val, fam = p["val"], p["fam"]
    with_uuid = p["ver"][0] == 2
    dck_priv = kpath(p["dck"], "priv.pem")
    path = val["darpath"]
    dck = knum(p["dck"])
    dpss = bool(fam["pss"]) and dck["type"] == "rsa"
    st, dar = "skip", None
    if path == "create-nofamily" and p["socc"] != fam["socc"]:
        o.c("dar_create_nofamily_not_applicable_foreign_socc")  # the family would be looked up from a SOCC of another device
        path = "ctor"
    if path in ("create", "create-nofamily"):
        st, dar = call(DebugAuthenticateResponse.create, family=fam["family"] if path == "create" else None, version=None, dc=dc,
                       auth_beacon=val["abeacon"], dac=dac, dck=dck_priv)
        if st not in ("ok", "spsdk") and fam["latest_kind"] != fam["kind"]:
            # create() has no revision argument: the response class comes from the family's latest revision
            o.c("dar_create_without_revision_argument_unusable")
            path = "ctor"
    elif path in ("config", "config-sp", "config-enc", "config-sp-enc-pw"):
        dcf = os.path.join(tmp, "dc.bin")
        with open(dcf, "wb") as f:
            f.write(data)
        cfg = {"family": fam["family"], "revision": fam["rev"], "certificate": dcf, "beacon": val["abeacon"]}
        if path == "config":
            cfg["dck_private_key"] = dck_priv
        elif path == "config-enc":  # protected DCK file, no password configured: SPSDK prompts
            cfg["dck_private_key"] = enc_key_path(p["dck"], "pem")
        elif path == "config-sp-enc-pw":
            cfg["sign_provider"] = f"type=file;file_path={enc_key_path(p['dck'], 'pem')};password={PASSPHRASE}"
        else:
            cfg["sign_provider"] = f"type=file;file_path={dck_priv}"
        st, dar = call(DebugAuthenticateResponse.load_from_config, cfg, dac)
        if st != "ok" and not p.get("generic_parse_ok"):
            o.c("dar_config_path_inherits_generic_parse_failure")  # load_from_config starts with the generic DC parse
            path = "ctor"
    if path == "ctor":
        st, dar = call(lambda: dar_class(p["ver"])(family=fam["family"], debug_credential=dc, auth_beacon=val["abeacon"], dac=dac,
                                                   sign_provider=sp_for(dck_priv, dpss), revision=fam["rev"]))
    if not builder_outcome(o, st, dar, f"dar-{path}", base):
        return
    st, rb = call(dar.export)
    if not builder_outcome(o, st, rb, "dar-export", base):
        return
    o.c("dar_built")
    try:
        parts = R.split_dar(rb, len(data), with_uuid)
    except R.DatError as e:
        o.v("dar-embeds", "too-short", str(e))
        return
    emb = []
    if parts["dc"] != data:
        emb.append("credential")
    if parts["beacon"] != val["abeacon"]:
        emb.append("beacon")
    if with_uuid and parts["uuid"] != dacd["uuid"]:
        emb.append("uuid")
    if len(parts["signature"]) != R.signature_size(dck):
        emb.append("signature-length")
    if emb:
        o.v("dar-embeds", "+".join(emb), f"response of {len(rb)} bytes for a credential of {len(data)}")
    uu = dacd["uuid"] if with_uuid else None
    ok = R.verify_dar(parts, dck, data, val["abeacon"], uu, dacd["chal"], dpss)
    o.c("dar_signatures_verified_by_reference")
    if not ok:
        alt = dck["type"] == "rsa" and R.verify_dar(parts, dck, data, val["abeacon"], uu, dacd["chal"], not dpss)
        o.v("dar-signature", f"other-padding:path={path}" if alt else "does-not-verify", f"path {path}, DCK {p['dck']}, padding expected "
            f"{'PSS' if dpss else 'PKCS1-v1.5'}", scope=lk(p["cls"]) if alt else None)
        return
    # local binding: one departure in each signed component must break it
    others = {"challenge": (data, val["abeacon"], uu, flip(dacd["chal"], 31)),
              "challenge-first": (data, val["abeacon"], uu, flip(dacd["chal"], 0, 7)),
              "beacon": (data, val["abeacon"] ^ 1, uu, dacd["chal"]),
              "credential": (flip(data, 33), val["abeacon"], uu, dacd["chal"]),
              "credential-signature": (flip(data, len(data) - 1), val["abeacon"], uu, dacd["chal"])}
    if with_uuid:
        others["uuid"] = (data, val["abeacon"], flip(uu, 15), dacd["chal"])
    for name, (d2, b2, u2, c2) in others.items():
        o.c("dar_binding_checks")
        if R.verify_dar(parts, dck, d2, b2, u2, c2, dpss, fast=True):
            o.v("dar-binding", f"verifies-with-other-{name}", f"path {path}")
    # validate_against_dc: a challenge that carries the credential's own identity must be accepted
    if val["dacver"] == "match" and val["dacsocc"] == "family" and p["socc"] == fam["socc"]:
        from spsdk.dat.dac_packet import DebugAuthenticationChallenge as DAC

        want_hash = R.expected_rot_hash(p["meta"], [knum(k) for k in p["keys"]], p["ca"])
        hl = dacd["hlen"]
        good = R.build_dac(p["ver"], p["socc"], p["uuid"], 0, (want_hash + bytes(hl))[:hl], 0, 0, 0, dacd["chal"], dacd["swapped"])
        st, gd = call(DAC.parse, good)
        if st == "ok":
            st, r = call(gd.validate_against_dc, fam["family"], dc)
            o.c("dac_validations")
            if st != "ok":
                if not p.get("rot_hash_ok"):
                    o.c("dac_validate_inherits_rot_hash_failure")
                else:
                    o.v("dac-validate", "matching-challenge-refused:" + sym(st), str(r))
            if any(p["uuid"]):
                other = R.build_dac(p["ver"], p["socc"], flip(p["uuid"], 0), 0, (want_hash + bytes(hl))[:hl], 0, 0, 0,
                                    dacd["chal"], dacd["swapped"])
                st, od = call(DAC.parse, other)
                if st == "ok":
                    st, r = call(od.validate_against_dc, fam["family"], dc)
                    o.c("dac_negative_validations")
                    if st == "ok":
                        o.c("dac_validate_accepts_other_uuid")  # observation only: host-side sanity check


# ---------------------------------------------------------------------------------------------
# workers (classic, EdgeLock v1)


def w_classic(case: dict) -> dict:
    cls = case["cls"]
    o = Obs(cls)
    base = not case.get("dep") and case.get("g") == "lat"
    p = plan_classic(case)
    tmp = tempfile.mkdtemp(prefix="c15-", dir=os.environ.get("VERIF_WORKDIR") or None)
    try:
        if not p["dck_matches"]:
            return w_foreign_dck(p, o)
        cfg = classic_config(p)
        built = build_classic(p, o, base, cfg)
        if built is None:
            return o.result()
        dc, data = built
        o.c("dc_built")
        o.distinct.append(f"dc|{cls}|{p['fam']['kind_key']}|{core.short_hash(case.get('dep', {}))}|{case.get('rotsel', '')}")
        want_cls = {"rsa": "DebugCredentialCertificateRsa", "ecc": "DebugCredentialCertificateEcc", "ele": "DebugCredentialEdgeLockEnclave"}[p["meta"]]
        if type(dc).__name__ != want_cls:
            o.v("dc-bytes", f"credential-class:{type(dc).__name__}", f"for {case['fam']}")
            return o.result()
        parsed = judge_classic_bytes(p, data, o)
        if p["val"]["reuse"] == "same-config-twice" and parsed is not None:
            again = build_classic(p, o, False, cfg)
            if again is not None and again[1][:parsed["sig_off"]] != data[:parsed["sig_off"]]:
                try:
                    where = first_region(parsed["regions"], again[1], data)
                except Exception:  # noqa
                    where = "?"
                o.v("dc-bytes", f"second-build-from-same-config-differs:{where}", "", scope=p["layout"])
        judge_classic_object(p, dc, data, parsed, o)
        dacd = plan_dac(p)
        dac = make_dac(dacd, o)
        if dac is not None and parsed is not None:
            judge_dar(p, dc, data, dacd, dac, o, tmp, base)
    finally:
        shutil.rmtree(tmp, ignore_errors=True)
    return o.result()


def w_foreign_dck(p: dict, o: Obs) -> dict:
    """A debug key that is not of the protocol version's type and size (RSA-4096 in a 1.0 credential, P-384 in a 2.0
    one...): the format has no room for it.  Whatever goes wrong with a credential the builder hands out anyway
    (field truncated, unreadable by parse) is ONE finding per credential class: the builder does not refuse the key."""
    built = build_classic(p, o, False)
    if built is None:
        return o.result()
    dc, data = built
    o.c("dc_built_with_foreign_dck")
    probe = Obs(o.cls)
    parsed = judge_classic_bytes(p, data, probe)
    judge_classic_object(p, dc, data, parsed, probe)
    if probe.viol:
        first = probe.viol[0]
        o.v("dc-roundtrip", "builder-accepts-dck-not-of-protocol-size", f"DCK {p['dck']} in a {p['ver']} credential: "
            f"{len(probe.viol)} clause(s) fail, first {first[0]} [{first[1]}] {first[2][:300]}", scope=p["meta"])
    o.distinct.append(f"foreign-dck|{o.cls}|{p['val']['dck']}")
    return o.result()


def w_bind(case: dict) -> dict:
    """Binding matrix for one protocol class: credentials d_i (same DCK, same RoT keys, one field different each),
    challenges c_j, uuids u_k; every response R(i,j,k) verified against every (i',j',k')."""
    cls = case["cls"]
    o = Obs(cls)
    fam = fam_of(case)
    seed = case.get("seed", 0)
    n = case.get("n", 4)
    dcs = []
    for dep in ({}, {"beacon": 1}, {"socu": 2}, {"uuid": 2})[:n]:
        p = plan_classic({**case, "dep": dep})
        built = build_classic(p, o, True)
        assert built is not None
        dcs.append((p, built[0], built[1]))
    chals = [pattern(x, 32, seed, "challenge") for x in ("zeros", "ones", "counter", "seed")][:n]
    uuids = [pattern(x, 16, seed, "dacuuid") for x in ("zeros", "ones", "pattern", "one")][:n]
    p0 = dcs[0][0]
    with_uuid = p0["ver"][0] == 2
    dck = knum(p0["dck"])
    dpss = bool(fam["pss"]) and dck["type"] == "rsa"
    resp: dict = {}
    for i, (p, dc, data) in enumerate(dcs):
        for j, ch in enumerate(chals):
            for k, uu in enumerate(uuids):
                dacd = {**plan_dac(p), "uuid": uu, "chal": ch, "revocation": 0, "pinned": 0, "default": 0, "cc_vu": 0}
                dacd["bytes"] = R.build_dac(p["ver"], fam["socc"], uu, 0, dacd["rkth"], 0, 0, 0, ch, dacd["swapped"])
                dac = make_dac(dacd, o)
                if dac is None:
                    continue
                st, dar = call(lambda: dar_class(p["ver"])(
                    family=fam["family"], debug_credential=dc, auth_beacon=i, dac=dac, revision=fam["rev"],
                    sign_provider=sp_for(kpath(p["dck"], "priv.pem"), dpss)))
                if st != "ok":
                    raise core.HarnessError(f"binding matrix: response constructor failed: {dar}")
                st, rb = call(dar.export)
                if st != "ok":
                    raise core.HarnessError(f"binding matrix: response export failed: {rb}")
                resp[(i, j, k)] = R.split_dar(rb, len(data), with_uuid)
                o.c("dar_built")
    for (i, j, k), parts in sorted(resp.items()):
        for (i2, j2, k2) in sorted(resp):
            if not with_uuid and k2 != k:
                continue  # RSA protocol versions do not sign the uuid: (i, j, k) and (i, j, k') are the same statement
            data2 = dcs[i2][2]
            ok = R.verify_dar(parts, dck, data2, i2, uuids[k2] if with_uuid else None, chals[j2], dpss, fast=True)
            o.c("dar_matrix_verifications")
            same = (i, j, k) == (i2, j2, k2)
            if ok and not same:
                diff = "+".join(nm for nm, a, b in (("credential", i, i2), ("challenge", j, j2), ("uuid", k, k2)) if a != b)
                o.v("dar-binding", f"matrix:verifies-with-other-{diff}", f"response {(i, j, k)} against {(i2, j2, k2)}")
            if same and not ok:
                o.v("dar-signature", "matrix:does-not-verify", f"response {(i, j, k)}")
            if same and (parts["dc"] != data2 or parts["beacon"] != i or (with_uuid and parts["uuid"] != uuids[k])):
                o.v("dar-embeds", "matrix", f"response {(i, j, k)}")
    o.distinct.append(f"bind|{cls}|{fam['kind_key']}")
    return o.result()


# ---------------------------------------------------------------------------------------------
# EdgeLock container version 2: certificate-based credential, signed-message response


def plan_ele2(case: dict) -> dict:
    cls = case["cls"]
    c = CLASSES[cls]
    fam = fam_of(case)
    val = resolve(cls, case.get("dep", {}))
    seed = case.get("seed", 0)
    pool_std, pool_alt, dck_std = POOLS[c["pool"]]
    skey = {"std": pool_std[0], "alt": pool_std[1], "x0": f"{c['pool']}_x0", "y0": f"{c['pool']}_y0"}[val["skey"]]
    dck = {"std": dck_std, "x0": f"{c['pool']}_x0", "y0": f"{c['pool']}_y0", "signer": skey}[val["dck"]]
    uuid = None if val["uuid"] == "absent" else pattern(val["uuid"], 16, seed, "dcuuid")
    return {"cls": cls, "fam": fam, "val": val, "skey": skey, "dck": dck, "uuid": uuid, "socc": fam["socc"], "seed": seed,
            "pool": pool_std, "layout": "ele2"}


def ele2_config(p: dict) -> dict:
    val, fam = p["val"], p["fam"]
    form = val["keyform"]
    cfg: dict[str, Any] = {"family": fam["family"], "revision": fam["rev"],
                           "cc_socu": val["socu"] if val["cfgform"] == "int" else hex(val["socu"]),
                           "fuse_version": val["fuse"] if val["cfgform"] == "int" else hex(val["fuse"]),
                           "public_key_0": kpath(p["dck"], form)}
    if p["uuid"] is not None:
        cfg["uuid"] = "0x" + (p["uuid"].hex() if val["cfgform"] == "int" else p["uuid"].hex().upper())
    if val["signer"] == "sp-file":
        cfg["signature_provider_0"] = f"type=file;file_path={kpath(p['skey'], 'priv.pem')}"
    elif val["signer"] == "sp-file-enc-pw":
        cfg["signature_provider_0"] = f"type=file;file_path={enc_key_path(p['skey'], 'pem')};password={PASSPHRASE}"
    elif val["signer"] == "key-enc-pem":
        cfg["signing_key_0"] = enc_key_path(p["skey"], "pem")
    else:
        cfg["signing_key_0"] = kpath(p["skey"], "priv.pem" if val["signer"] == "key-pem" else "priv.der")
    return cfg


def build_ele2(p: dict, o: Obs, base: bool, cfg: dict):
    from spsdk.dat.debug_credential import DebugCredentialEdgeLockEnclaveV2 as V2

    st, dc = call(V2.create_from_yaml_config, cfg)
    if not builder_outcome(o, st, dc, "create_from_yaml_config", base):
        return None
    st, r = call(dc.sign)
    if not builder_outcome(o, st, r, "sign", base):
        return None
    st, data = call(dc.export)
    if not builder_outcome(o, st, data, "export", base):
        return None
    return dc, data


def w_ele2(case: dict) -> dict:
    from spsdk.dat import debug_credential as dcm

    cls = case["cls"]
    o = Obs(cls)
    base = not case.get("dep") and case.get("g") == "lat"
    p = plan_ele2(case)
    val, fam = p["val"], p["fam"]
    dck, signer = knum(p["dck"]), knum(p["skey"])
    tmp = tempfile.mkdtemp(prefix="c15-", dir=os.environ.get("VERIF_WORKDIR") or None)
    try:
        cfg = ele2_config(p)
        built = build_ele2(p, o, base, dict(cfg) if val["reuse"] == "fresh-config" else cfg)
        if built is None:
            return o.result()
        dc, data = built
        o.c("dc_built")
        o.distinct.append(f"dc|{cls}|{fam['kind_key']}|{core.short_hash(case.get('dep', {}))}")
        uuid16 = p["uuid"] if p["uuid"] is not None else bytes(16)
        try:
            parsed = R.parse_cert_v2(data)
        except (R.DatError, struct.error) as e:
            o.v("dc-bytes", "unreadable", f"{type(e).__name__}: {e}")
            return o.result()
        o.c("dc_parsed_by_reference")
        model = R.build_cert_v2_body(p["socc"], val["socu"], 0, val["fuse"], uuid16, dck, signer)
        body = data[:parsed["sig_off"]]
        if body != model:
            # several defects can meet in one credential: one record per differing field region
            for name, (a, b) in sorted(parsed["regions"].items(), key=lambda kv: kv[1]):
                if name not in ("signature", "header", "sig_offset") and body[a:b] != model[a:b]:
                    extra = ""
                    if name == "uuid":
                        extra = ":leading-zero-bytes-lost" if p["uuid"] is not None and p["uuid"][0] == 0 and any(p["uuid"]) else ""
                    o.v("dc-bytes", f"differs-in:{name}{extra}", f"got {body[a:b].hex()[:120]} expected {model[a:b].hex()[:120]}", scope="ele2")
            if len(body) != len(model):
                o.v("dc-bytes", "differs-in:length", f"{len(body)} vs model {len(model)}", scope="ele2")
        if not parsed["keys"][0]["data_hash_ok"] or len(parsed["keys"]) != 1:
            o.v("dc-bytes", "key-record", f"{len(parsed['keys'])} key record(s), data hash ok: {parsed['keys'][0]['data_hash_ok']}")
        ok = R.verify_cert_v2(data, parsed, signer)
        o.c("dc_signatures_verified_by_reference")
        if not ok:
            alt = signer["type"] == "rsa" and R.verify_sig(signer, data[:parsed["sig_off"]], parsed["signature"], pss=False)
            o.v("dc-signature", ("other-padding:signer=" + val["signer"]) if alt else "does-not-verify",
                f"signing key {p['skey']}", scope=lk(cls))
        else:
            tamper_sweep(o, parsed["regions"], data, parsed["sig_off"],
                         lambda b: R.verify_sig(signer, b, parsed["signature"], pss=True, fast=True))
        if val["reuse"] == "same-config-twice":
            again = build_ele2(p, o, False, cfg)
            if again is not None and again[1][:parsed["sig_off"]] != body:
                o.v("dc-bytes", f"second-build-from-same-config-differs:{first_region(parsed['regions'], again[1], data)}",
                    f"configuration keys after the first build: {sorted(cfg)}", scope="ele2")
        # round trip
        fails: dict = {}
        gen_ok = False
        for ep, fn in (("class-parse", dcm.DebugCredentialEdgeLockEnclaveV2.parse), ("generic-parse", dcm.DebugCredentialCertificate.parse)):
            o.c("dc_roundtrips")
            st, back = call(fn, data)
            if st != "ok":
                fails[ep] = (sym(st), str(back))
                continue
            if type(back) is not type(dc):
                fails[ep] = (f"other-class:{type(back).__name__}", "")
                continue
            st, again = call(back.export)
            if st != "ok" or again != data:
                d = first_region(parsed["regions"], again, data) if st == "ok" else sym(st)
                fails[ep] = (f"reexport-differs-in:{d}", "" if st == "ok" else str(again))
                continue
            st, eq = call(lambda: (back == dc, dc == back))
            if st != "ok" or tuple(eq) != (True, True):
                # a uuid given as a number loses its leading zero bytes in the object (b"\x00" for zeros, b"" when absent) while
                # the exported field is padded: where the bytes are right this is a matter of representation only
                rep = p["uuid"] is None or p["uuid"][0] == 0
                if rep and st == "ok" and bytes(back.uuid) == (bytes(dc.uuid) + bytes(16))[:16]:
                    o.c("ele2_objects_unequal_only_by_uuid_representation")
                else:
                    fails[ep] = ("not-equal", f"== gives {eq}")
                    continue
            st, got = call(lambda: {"socc": back.socc, "cc_socu": back.socu, "uuid": bytes(back.uuid), "dck": pubnum(back.dck_pub)})
            want = {"socc": parsed["socc"], "cc_socu": parsed["cc_socu"], "uuid": parsed["uuid"], "dck": parsed["dck"]}
            if st != "ok" or got != want:
                bad = sorted(k for k in want if st != "ok" or got.get(k) != want[k])
                fails[ep] = (f"field:{'+'.join(bad)}", f"object says {got}, its bytes say {want}"[:400])
                continue
            gen_ok = gen_ok or ep == "generic-parse"
        report_parse_failures(o, fails, "ele2")
        # a credential that arrives from outside (same layout, the family's SOCC in it) must keep its bytes through parse/export
        ext = bytearray(data)
        ext[8:12] = struct.pack("<L", p["socc"])
        st, back = call(dcm.DebugCredentialEdgeLockEnclaveV2.parse, bytes(ext))
        if st == "ok":
            st, again = call(back.export)
            o.c("dc_foreign_bytes_roundtrips")
            if st == "ok" and again != bytes(ext):
                o.v("dc-roundtrip", f"parse-export-of-given-bytes-differs-in:{first_region(parsed['regions'], again, bytes(ext))}",
                    "bytes with the family's SOCC in the permission data", scope="ele2")
        # (RSA keys: the AHAB v2 container refuses its own RSA SRK records at export — rejected, counted)
        judge_dar2(p, dc, data, parsed, o, tmp, base and signer["type"] == "ecc", gen_ok)
    finally:
        shutil.rmtree(tmp, ignore_errors=True)
    return o.result()


def judge_dar2(p: dict, dc: Any, data: bytes, parsed: dict, o: Obs, tmp: str, base: bool, gen_ok: bool) -> None:
    """Response of the certificate-based variant: an AHAB signed message (container v2) signed with the DCK."""
    from spsdk.dat.dac_packet import DebugAuthenticationChallenge as DAC
    from spsdk.dat.dar_packet import DebugAuthenticateResponse

    val, fam, seed = p["val"], p["fam"], p["seed"]
    chal = pattern(val["chal"], 32, seed, "challenge")
    uuid16 = p["uuid"] if p["uuid"] is not None else bytes(16)
    duuid = uuid16 if val["dacuuid"] == "same" else pattern(val["dacuuid"], 16, seed, "dacuuid")
    dacd = {"ver": (2, 0), "socc": fam["socc"], "uuid": duuid, "chal": chal, "hlen": 32, "rkth": core.seeded_bytes(seed, "rkth", 32),
            "swapped": bool(fam["swapped"]), "revocation": 1, "pinned": 2, "default": 3, "cc_vu": 4, "fam": fam}
    dacd["bytes"] = R.build_dac(dacd["ver"], dacd["socc"], duuid, 1, dacd["rkth"], 2, 3, 4, chal, dacd["swapped"])
    dac = make_dac(dacd, o)
    if dac is None:
        return
    dcf = os.path.join(tmp, "dc.bin")
    with open(dcf, "wb") as f:
        f.write(data)
    srk = [p["skey"]] + [k for k in p["pool"] if k != p["skey"]][:3]
    idx = val["srkidx"]
    srk[0], srk[idx] = srk[idx], srk[0]  # the credential's signing key sits at the used SRK index
    cfg = {"family": fam["family"], "revision": fam["rev"], "certificate": dcf, "beacon": val["abeacon"], "srk_set": "oem",
           "used_srk_id": idx, "srk_revoke_mask": 0, "signing_key": kpath(p["dck"], "priv.pem"), "output": os.path.join(tmp, "dar.bin"),
           "srk_table": {"flag_ca": False, "srk_array": [kpath(k, "pub.pem") for k in srk]}}
    st, dar = call(DebugAuthenticateResponse.load_from_config, cfg, dac)
    if st != "ok" and not gen_ok:
        o.c("dar_config_path_inherits_generic_parse_failure")
        return
    if not builder_outcome(o, st, dar, "dar-config", base):
        return
    st, rb = call(dar.export)
    if not builder_outcome(o, st, rb, "dar-export", base):
        return
    o.c("dar_built")
    try:
        m = R.parse_signed_msg_v2(rb)
    except (R.DatError, struct.error) as e:
        o.v("dar-embeds", "unreadable", f"{type(e).__name__}: {e}", scope="ele2")
        return
    emb = []
    if m["certificate"] != data:
        emb.append("credential")
    if m["beacon"] != val["abeacon"]:
        emb.append("beacon")
    if m["challenge"] != chal:
        emb.append("challenge")
    if m["command"] != 0xC8:
        emb.append("command")
    if emb:
        o.v("dar-embeds", "+".join(emb), f"signed message of {len(rb)} bytes", scope="ele2")
    # the message's unique id: 64 bits of the credential's uuid, bytes reversed in 32-bit words (counted, not demanded)
    rev = b"".join(uuid16[i:i + 4][::-1] for i in range(0, 8, 4))
    o.c("dar2_unique_id_is_reversed_first_half_of_dc_uuid" if m["unique_id"] == rev else "dar2_unique_id_other")
    dck = knum(p["dck"])
    ok = R.verify_signed_msg_v2(rb, m, dck)
    o.c("dar_signatures_verified_by_reference")
    if not ok:
        o.v("dar-signature", "does-not-verify", f"DCK {p['dck']} over bytes[0:{m['signed_end']}]", scope="ele2")
        return
    for name, (a, b) in m["regions"].items():
        for pos in sorted({a, (a + b) // 2, b - 1}):
            o.c("dar_binding_checks")
            if R.verify_sig(dck, flip(rb, pos)[:m["signed_end"]], m["signature"], pss=True, fast=True):
                o.v("dar-binding", f"verifies-with-other-{name}", f"byte {pos}", scope="ele2")
    # the certificate is not covered by the DCK signature (it carries the SRK's): binding to the credential = embedding


# ---------------------------------------------------------------------------------------------
# object histories: sign / modify / export / parse on ONE credential object


HIST_OPS = ["S", "E", "P", "Ma", "Mb", "Mc", "Md"]  # sign, export (judged), parse(export) and go on with the parsed object, 4 modifications
HIST_STARTS = ["new", "signed", "parsed"]


def hist_mods(layout: str) -> dict:
    """Modifications: one field / another field / two fields / two fields with second values."""
    if layout == "ele2":
        return {"Ma": {"socu": 1}, "Mb": {"beacon": 0xFFFF}, "Mc": {"socc": 0, "socu": U32}, "Md": {"beacon": 1, "socu": 0}}
    return {"Ma": {"cc_socu": 1}, "Mb": {"uuid": b"\xff" * 16}, "Mc": {"socc": 0, "cc_beacon": 0xFFFF}, "Md": {"cc_vu": 1, "cc_socu": U32}}


def hist_sequences(length: int, first: Optional[str]) -> list[tuple]:
    """All operation sequences of length <= `length` that end with an export (every judged point of every sequence of
    that length is a prefix of one of them), optionally only those starting with `first`."""
    import itertools

    out = []
    for n in range(1, length + 1):
        for head in itertools.product(HIST_OPS, repeat=n - 1):
            seq = head + ("E",)
            if first is None or seq[0] == first:
                out.append(seq)
    return out


_PUB: dict = {}


def pub_for(path: str):
    from spsdk.crypto.utils import extract_public_key

    if path not in _PUB:
        _PUB[path] = extract_public_key(path)
    return _PUB[path]


def hist_new_object(p: dict):
    """A fresh, unsigned credential object through the public constructors (key objects and the signature provider are
    cached per process; RoT meta / certificate objects are new every time)."""
    from spsdk.dat import debug_credential as dcm

    if p["layout"] == "ele2":
        from spsdk.image.ahab.ahab_certificate import AhabCertificate
        from spsdk.image.ahab.ahab_srk import SRKRecordV2

        cert = AhabCertificate(permissions=AhabCertificate.create_permissions(["debug"]),
                               permissions_data=struct.pack("<LLL", p["socc"], p["val"]["socu"], 0), fuse_version=p["val"]["fuse"],
                               uuid=p["uuid"], public_key_0=SRKRecordV2.create_from_key(pub_for(kpath(p["dck"], "pub.pem"))),
                               signature_provider_0=sp_for(kpath(p["skey"], "priv.pem"), True))
        return dcm.DebugCredentialEdgeLockEnclaveV2(certificate=cert)
    val = p["val"]
    paths = [kpath(k, "pub.pem") for k in p["keys"]]
    klass = {"rsa": dcm.DebugCredentialCertificateRsa, "ecc": dcm.DebugCredentialCertificateEcc, "ele": dcm.DebugCredentialEdgeLockEnclave}[p["meta"]]
    mklass = {"rsa": dcm.RotMetaRSA, "ecc": dcm.RotMetaEcc, "ele": dcm.RotMetaEdgeLockEnclave}[p["meta"]]
    meta = mklass.load_from_config({"rot_meta": paths, "rot_id": p["used"], "flag_ca": p["ca"]})
    return klass(version=dcm.ProtocolVersion(f"{p['ver'][0]}.{p['ver'][1]}"), socc=p["socc"], uuid=p["uuid"], rot_meta=meta,
                 dck_pub=pub_for(kpath(p["dck"], "pub.pem")), cc_socu=val["socu"], cc_vu=val["vu"], cc_beacon=val["beacon"],
                 rot_pub=pub_for(paths[p["used"]]), signature_provider=sp_for(kpath(p["keys"][p["used"]], "priv.pem"), p["pss"]))


def w_hist(case: dict) -> dict:
    """Histories on one object.  The harness tracks the field values and the values the current signature was made over;
    every export is judged by the unchanged oracle: the bytes before the signature equal the model of the *current*
    values, and - when sign() was called after the last change - the signature verifies under the named RoT key."""
    from spsdk.dat import debug_credential as dcm

    cls = case["cls"]
    o = Obs(cls)
    ele2 = CLASSES[cls]["layout"] == "ele2"
    p = plan_ele2({**case, "dep": {}}) if ele2 else plan_classic({**case, "dep": {}})
    layout = p["layout"]
    mods = hist_mods(layout)
    if ele2:
        base_fields = {"socc": p["socc"], "socu": p["val"]["socu"], "beacon": 0}
        signer, dck = knum(p["skey"]), knum(p["dck"])
    else:
        base_fields = {"socc": p["socc"], "uuid": p["uuid"], "cc_socu": p["val"]["socu"], "cc_vu": p["val"]["vu"], "cc_beacon": p["val"]["beacon"]}
        rot_keys, dck = [knum(k) for k in p["keys"]], knum(p["dck"])
    worst: dict = {}  # (clause, disc) -> (sequence length, detail)

    def note(clause: str, disc: str, seq: tuple, upto: int, detail: str) -> None:
        key = (clause, disc)
        txt = f"start={case['start']}: {','.join(seq[:upto + 1])}: {detail}"
        if key not in worst or upto < worst[key][0]:
            worst[key] = (upto, txt)

    def attach_provider(obj: Any) -> None:
        if ele2:
            obj.certificate.signature_0.signature_provider = sp_for(kpath(p["skey"], "priv.pem"), True)
        else:
            obj.signature_provider = sp_for(kpath(p["keys"][p["used"]], "priv.pem"), p["pss"])

    def parse_back(data: bytes):
        return call((dcm.DebugCredentialEdgeLockEnclaveV2 if ele2 else type(hist_new_object(p))).parse, data)

    def judge_export(data: bytes, fields: dict, sig_fields: Optional[dict], seq: tuple, i: int) -> None:
        o.c("hist_exports_judged")
        try:
            if ele2:
                parsed = R.parse_cert_v2(data)
                model = R.build_cert_v2_body(fields["socc"], fields["socu"], fields["beacon"], p["val"]["fuse"], p["uuid"], dck, signer)
                key, pss = signer, True
            else:
                parsed = R.parse_dc(data, layout)
                model = R.build_dc_body(layout, p["ver"], fields["socc"], fields["uuid"], fields["cc_socu"], fields["cc_vu"],
                                        fields["cc_beacon"], rot_keys, p["used"], dck, p["ca"])
                key, pss = parsed["rot_key"], p["pss"]
        except (R.DatError, struct.error) as e:
            note("dc-bytes", "history:unreadable", seq, i, f"{type(e).__name__}: {e}")
            return
        body = data[:parsed["sig_off"]]
        if body != model:
            note("dc-bytes", f"history:differs-in:{first_region(parsed['regions'], body, model)}", seq, i,
                 "exported fields are not the object's current values")
        if not ele2 and key != rot_keys[p["used"]]:
            note("dc-bytes", "history:rot-key-differs", seq, i, "")
        if sig_fields == fields:
            o.c("hist_signatures_verified")
            if not R.verify_sig(key, body, parsed["signature"], pss=pss, fast=True):
                note("dc-signature", "history:export-after-sign-does-not-verify", seq, i,
                     "sign() was called after the last change, yet the signature does not verify under the named RoT key "
                     "over the bytes as exported")
        else:
            o.c("hist_exports_of_objects_changed_since_sign")  # the caller's omission: bytes judged, signature not

    for seq in hist_sequences(case["L"], case.get("first")):
        o.c("hist_sequences")
        st, obj = call(hist_new_object, p)
        if st != "ok":
            raise core.HarnessError(f"history: cannot construct the {cls} object: {obj}")
        fields = dict(base_fields)
        sig_fields: Optional[dict] = None
        if case["start"] in ("signed", "parsed"):
            st, r = call(obj.sign)
            if st != "ok":
                raise core.HarnessError(f"history: first sign() of a {cls} object failed: {r}")
            sig_fields = dict(fields)
        if case["start"] == "parsed":
            st, data = call(obj.export)
            st2, obj = parse_back(data) if st == "ok" else (st, data)
            if st != "ok" or st2 != "ok":
                raise core.HarnessError(f"history: parse(export()) of a fresh {cls} object failed: {obj}")
            attach_provider(obj)
        for i, op in enumerate(seq):
            if op == "S":
                st, r = call(obj.sign)
                if st == "ok":
                    sig_fields = dict(fields)
                elif st == "spsdk":
                    o.c("hist_sign_refused")
                else:
                    o.observe(f"{cls}:history-sign:{st}: {r}")
                    break
            elif op in mods:
                for f, v in mods[op].items():
                    setattr(obj, f, v)
                    fields[f] = v
            elif op == "E":
                st, data = call(obj.export)
                if st == "ok":
                    judge_export(data, fields, sig_fields, seq, i)
                elif st == "spsdk":
                    o.c("hist_export_refused")  # not signed yet
                else:
                    o.observe(f"{cls}:history-export:{st}: {data}")
                    break
            elif op == "P":
                st, data = call(obj.export)
                if st != "ok":
                    o.c("hist_export_refused")
                    break  # nothing to parse: the rest of the sequence is covered by the sequence without this step
                st, back = parse_back(data)
                o.c("hist_parses")
                if st != "ok":
                    note("dc-roundtrip", f"history:parse:{sym(st)}", seq, i, str(back))
                    break
                attach_provider(back)
                got = ({"socc": back.socc, "socu": back.socu, "beacon": back.beacon} if ele2 else
                       {"socc": back.socc, "uuid": bytes(back.uuid), "cc_socu": back.cc_socu, "cc_vu": back.cc_vu, "cc_beacon": back.cc_beacon})
                bad = sorted(f for f in fields if got[f] != fields[f])
                if bad:
                    note("dc-roundtrip", f"history:parsed-object-field:{'+'.join(bad)}", seq, i, f"{ {f: (fields[f], got[f]) for f in bad} }")
                    break
                obj = back  # its signature is the exported one: made over sig_fields
    for (clause, disc), (_, txt) in sorted(worst.items()):
        o.v(clause, disc, txt, scope=layout)
    o.distinct.append(f"hist|{cls}|{case['start']}|{case.get('first')}|{case['L']}")
    return o.result()


# ---------------------------------------------------------------------------------------------
# error path: sign() refused, the caller goes on with the object


def w_errpath(case: dict) -> dict:
    """rot_id names RoT key i, the private key supplied belongs to another RoT key: sign() refuses (SPSDKError).  A caller
    that catches the error and goes on (batch generation, "try: sign() except: log") must not be handed an invalid
    credential: export() raises, or whatever bytes it returns verify under keys[rot_id] over the bytes before the
    signature; the same after a second refused sign(); after a sign() with the right key the export verifies and parses back."""
    from spsdk.crypto.signature_provider import get_signature_provider
    from spsdk.crypto.utils import extract_public_key
    from spsdk.dat import debug_credential as dcm

    cls = case["cls"]
    o = Obs(cls)
    p = plan_classic({**case, "dep": {}})
    layout = p["layout"]
    rot_keys = [knum(k) for k in p["keys"]]
    wrong = p["keys"][(p["used"] + 1) % len(p["keys"])]
    right_sp = lambda: sp_for(kpath(p["keys"][p["used"]], "priv.pem"), p["pss"])  # noqa

    def judge(data: bytes, stage: str, variant: str) -> None:
        o.c("errpath_exports_judged")
        try:
            parsed = R.parse_dc(data, layout)
        except (R.DatError, struct.error) as e:
            o.v("dc-bytes", f"error-path:{stage}:unreadable", f"{variant}: {e}", scope=layout)
            return
        named = parsed["rot_key"] == rot_keys[p["used"]] and R.dc_names_key(parsed, rot_keys[p["used"]]) is None
        ok = named and R.verify_sig(parsed["rot_key"], data[:parsed["sig_off"]], parsed["signature"], pss=p["pss"], fast=True)
        if not ok:
            o.v("dc-signature", f"error-path:{stage}:credential-handed-out-does-not-verify-under-named-rot-key",
                f"variant {variant}: rot_id {p['used']}, private key supplied: {wrong}; export() returned {len(data)} bytes", scope=layout)

    for variant in ("rotk", "sign_provider", "constructor"):
        cfg = classic_config(p)
        cfg.pop("rotk", None)
        cfg.pop("sign_provider", None)
        if variant == "sign_provider":
            cfg["sign_provider"] = f"type=file;file_path={kpath(wrong, 'priv.pem')}"
        else:
            cfg["rotk"] = kpath(wrong, "priv.pem")
        if variant == "constructor":
            klass = {"rsa": dcm.DebugCredentialCertificateRsa, "ecc": dcm.DebugCredentialCertificateEcc, "ele": dcm.DebugCredentialEdgeLockEnclave}[p["meta"]]
            mklass = {"rsa": dcm.RotMetaRSA, "ecc": dcm.RotMetaEcc, "ele": dcm.RotMetaEdgeLockEnclave}[p["meta"]]
            st, dc = call(lambda: klass(
                version=dcm.ProtocolVersion(f"{p['ver'][0]}.{p['ver'][1]}"), socc=p["socc"], uuid=p["uuid"],
                rot_meta=mklass.load_from_config({"rot_meta": cfg["rot_meta"], "rot_id": p["used"], "flag_ca": p["ca"]}),
                dck_pub=extract_public_key(cfg["dck"]), cc_socu=p["val"]["socu"], cc_vu=p["val"]["vu"], cc_beacon=p["val"]["beacon"],
                rot_pub=extract_public_key(cfg["rot_meta"][p["used"]]),
                signature_provider=get_signature_provider(local_file_key=cfg["rotk"], pss_padding=p["pss"])))
        else:
            st, dc = call(dcm.DebugCredentialCertificate.create_from_yaml_config, cfg)
        if not builder_outcome(o, st, dc, f"errpath-create-{variant}", False):
            continue
        o.c("errpath_objects")
        for attempt in ("after-refused-sign", "after-second-refused-sign"):
            st, r = call(dc.sign)
            o.c("errpath_sign_refused" if st == "spsdk" else f"errpath_sign_{st}")
            if st not in ("ok", "spsdk"):
                o.observe(f"{cls}:errpath-sign:{st}: {r}")
            st, data = call(dc.export)
            if st == "ok":
                judge(data, attempt, variant)
            elif st == "spsdk":
                o.c("errpath_export_refused")
            else:
                o.observe(f"{cls}:errpath-export:{st}: {data}")
        # the caller repairs the key supply and signs again: now the credential must be right
        dc.signature_provider = right_sp()
        st, r = call(dc.sign)
        if st != "ok":
            o.v("dc-signature", f"error-path:after-repaired-sign:sign-{sym(st)}", f"variant {variant}: {r}", scope=layout)
            continue
        st, data = call(dc.export)
        if st != "ok":
            o.v("dc-signature", f"error-path:after-repaired-sign:export-{sym(st)}", f"variant {variant}: {data}", scope=layout)
            continue
        judge(data, "after-repaired-sign", variant)
        st, back = call(type(dc).parse, data)
        if st != "ok" or back != dc or call(back.export) != ("ok", data):
            o.v("dc-roundtrip", "error-path:after-repaired-sign:parse", f"variant {variant}: {back if st != 'ok' else 'differs'}", scope=layout)
        o.distinct.append(f"errpath|{cls}|{variant}")
    return o.result()


# ---------------------------------------------------------------------------------------------
# one configuration dictionary, several challenges


def w_reuse(case: dict) -> dict:
    """A caller keeps ONE response configuration (dict object) and answers several challenges with it (retry after a
    time-out: the device issues a new challenge; several boards served by one script).  Every response must answer ITS
    challenge - the challenge bytes inside the response (EdgeLock v2) and under the DCK signature (all classes) - and must
    equal, outside the (random) signature, the response a fresh dictionary gives."""
    from spsdk.dat.dar_packet import DebugAuthenticateResponse

    cls = case["cls"]
    o = Obs(cls)
    ele2 = CLASSES[cls]["layout"] == "ele2"
    fam = fam_of(case)
    seed = case.get("seed", 0)
    tmp = tempfile.mkdtemp(prefix="c15-", dir=os.environ.get("VERIF_WORKDIR") or None)
    try:
        if ele2:
            p = plan_ele2({**case, "dep": {}})
            built = build_ele2(p, o, False, ele2_config(p))
        else:
            p = plan_classic({**case, "dep": {}})
            built = build_classic(p, o, False)
        if built is None:
            return o.result()
        dc, data = built
        dcf = os.path.join(tmp, "dc.bin")
        with open(dcf, "wb") as f:
            f.write(data)
        dck = knum(p["dck"])
        dpss = ele2 or (bool(fam["pss"]) and dck["type"] == "rsa")
        with_uuid = (not ele2) and p["ver"][0] == 2
        uuid16 = p["uuid"] if p["uuid"] is not None else bytes(16)

        def new_config() -> dict:
            if ele2:
                srk = [p["skey"]] + [k for k in p["pool"] if k != p["skey"]][:3]
                return {"family": fam["family"], "revision": fam["rev"], "certificate": dcf, "beacon": 3, "srk_set": "oem",
                        "used_srk_id": 0, "srk_revoke_mask": 0, "signing_key": kpath(p["dck"], "priv.pem"),
                        "output": os.path.join(tmp, "dar.bin"), "srk_table": {"flag_ca": False, "srk_array": [kpath(k, "pub.pem") for k in srk]}}
            return {"family": fam["family"], "revision": fam["rev"], "certificate": dcf, "beacon": 3,
                    "dck_private_key": kpath(p["dck"], "priv.pem")}

        rounds = []
        for i, (cp, up) in enumerate((("seed", "same"), ("zeros", "ones"), ("counter", "pattern"), ("ones", "zeros"))[:case.get("n", 3)]):
            chal = pattern(cp, 32, seed, "challenge")
            duuid = uuid16 if up == "same" else pattern(up, 16, seed, "dacuuid")
            ver = (2, 0) if ele2 else p["ver"]
            hl = dac_hash_len(fam, ver)
            dacb = R.build_dac(ver, fam["socc"], duuid, 0, core.seeded_bytes(seed, "rkth", hl), 0, 0, 0, chal, bool(fam["swapped"]))
            rounds.append((chal, duuid, dacb))
        shared = new_config()
        before = core.jdump(shared)
        answers = []
        oneobj = None   # ONE response object answering every challenge: re-targeted through its public `dac` attribute
        for i, (chal, duuid, dacb) in enumerate(rounds):
            row = {}
            # (the EdgeLock v2 response composes its signed message - challenge included - when it is created and offers no
            # way to re-target it, so one object per challenge is the only use there; demanding more was a false alarm)
            for kind, cfg in (("reused", shared), ("fresh", new_config())) + ((("sameobj", None),) if not ele2 else ()):
                dac = make_dac({"bytes": dacb, "ver": (2, 0) if ele2 else p["ver"], "socc": fam["socc"], "uuid": duuid, "chal": chal,
                                "rkth": core.seeded_bytes(seed, "rkth", dac_hash_len(fam, (2, 0) if ele2 else p["ver"])), "revocation": 0,
                                "pinned": 0, "default": 0, "cc_vu": 0, "swapped": bool(fam["swapped"]), "fam": fam}, o)
                if dac is None:
                    return o.result()
                if kind == "sameobj":
                    if oneobj is None:
                        st, dar = call(DebugAuthenticateResponse.load_from_config, new_config(), dac)
                        oneobj = dar if st == "ok" else None
                    else:
                        oneobj.dac = dac
                        st, dar = "ok", oneobj
                else:
                    st, dar = call(DebugAuthenticateResponse.load_from_config, cfg, dac)
                if st == "ok":
                    st, dar = call(dar.export)
                if st != "ok":
                    builder_outcome(o, st, dar, f"dar-config-{kind}", False)
                    row = None
                    break
                row[kind] = dar
            if row is None:
                break
            answers.append(row)
            o.c("dar_built", len(row))
        if core.jdump(shared) != before:
            o.c("response_config_dict_changed_by_load_from_config")  # counted; what is demanded is that later answers are right
        for i, row in enumerate(answers):
            chal, duuid, _ = rounds[i]
            for kind in ("reused", "fresh", "sameobj"):
                if kind not in row:
                    continue
                rb = row[kind]
                if ele2:
                    try:
                        m = R.parse_signed_msg_v2(rb)
                    except (R.DatError, struct.error) as e:
                        o.v("dar-embeds", f"reused-config:unreadable:{kind}", str(e), scope="ele2")
                        continue
                    ok = R.verify_signed_msg_v2(rb, m, dck, fast=True)
                    inside = m["challenge"]
                    mine = inside == chal and m["certificate"] == data and m["beacon"] == 3
                    other = next((j for j, r in enumerate(rounds) if j != i and r[0] == inside), None)
                else:
                    parts = R.split_dar(rb, len(data), with_uuid)
                    ok = R.verify_dar(parts, dck, data, 3, duuid if with_uuid else None, chal, dpss, fast=True)
                    mine = parts["dc"] == data and parts["beacon"] == 3 and (not with_uuid or parts["uuid"] == duuid)
                    other = next((j for j, r in enumerate(rounds) if j != i and R.verify_dar(
                        parts, dck, data, 3, r[1] if with_uuid else None, r[0], dpss, fast=True)), None)
                o.c("dar_reuse_answers_judged")
                which = f"{'first' if i == 0 else 'later'}-answer-of-{kind}-{'config' if kind != 'sameobj' else 'response-object'}"
                if other is not None:
                    o.v("dar-binding", f"reused-config:{which}:answers-another-challenge",
                        f"response #{i} carries / verifies for the challenge of request #{other}", scope=p["layout"])
                elif not ok or not mine:
                    o.v("dar-signature" if mine else "dar-embeds", f"reused-config:{which}:{'does-not-verify' if mine else 'wrong-content'}",
                        f"response #{i}", scope=p["layout"])
            b = row["fresh"]
            cut = R.parse_signed_msg_v2(b)["signed_end"] if ele2 else len(data) + 4 + (16 if with_uuid else 0)
            for kind in ("reused", "sameobj"):
                if kind not in row:
                    continue
                a = row[kind]
                if a[:cut] != b[:cut] or len(a) != len(b):
                    o.v("dar-embeds", f"reused-config:{'first' if i == 0 else 'later'}-answer{'-of-response-object' if kind == 'sameobj' else ''}-differs-from-fresh-config",
                        f"response #{i}: the two differ before the signature", scope=p["layout"])
        o.distinct.append(f"reuse|{cls}|{fam['kind_key']}")
    finally:
        shutil.rmtree(tmp, ignore_errors=True)
    return o.result()


WORKERS = {"fam": w_classic, "lat": w_classic, "rot": w_classic, "bind": w_bind, "hist": w_hist, "reuse": w_reuse, "errpath": w_errpath}
WORKERS2 = {"fam": w_ele2, "lat": w_ele2, "hist": w_hist, "reuse": w_reuse}


def w_dispatch(case: dict) -> dict:
    import logging

    logging.getLogger("spsdk").setLevel(logging.CRITICAL)
    if case["g"] == "cli":
        return w_cli(case)
    with PromptSeam() as seam:
        if CLASSES[case["cls"]]["layout"] == "ele2":
            res = WORKERS2[case["g"]](case)
        else:
            res = WORKERS[case["g"]](case)
    if seam.count:
        res.setdefault("count", {})["passphrase_prompts_answered"] = seam.count
    return res


# ---------------------------------------------------------------------------------------------
# command line (only where the application imports)


def cli_importable() -> tuple[bool, str]:
    """Import spsdk.apps.nxpdebugmbox in a child process (an import failure must not poison this one)."""
    import subprocess
    import sys

    r = subprocess.run([sys.executable, "-c", "import spsdk.apps.nxpdebugmbox"], capture_output=True, text=True, timeout=300,
                       env={**os.environ, "PYTHONPATH": core.REPO + os.pathsep + os.environ.get("PYTHONPATH", "")})
    if r.returncode == 0:
        return True, ""
    last = [ln for ln in r.stderr.strip().splitlines() if ln.strip()]
    return False, (last[-1] if last else f"rc={r.returncode}")[:300]


def w_cli(case: dict) -> dict:
    """`nxpdebugmbox dat dc export -c cfg.yaml -o dc.bin` on the base configuration; the file goes through the same
    byte-level clauses as the API result."""
    import yaml
    from click.testing import CliRunner

    from spsdk.apps import nxpdebugmbox

    cls = case["cls"]
    o = Obs(cls)
    ele2 = CLASSES[cls]["layout"] == "ele2"
    p = plan_ele2(case) if ele2 else plan_classic(case)
    tmp = tempfile.mkdtemp(prefix="c15-", dir=os.environ.get("VERIF_WORKDIR") or None)
    try:
        cfg = ele2_config(p) if ele2 else classic_config(p)
        cfgf, outf = os.path.join(tmp, "dc.yaml"), os.path.join(tmp, "dc.bin")
        with open(cfgf, "w") as f:
            yaml.safe_dump(cfg, f)
        res = CliRunner().invoke(nxpdebugmbox.main, ["dat", "dc", "export", "-c", cfgf, "-o", outf])
        o.c("cli_invocations")
        if res.exit_code != 0 or not os.path.exists(outf):
            o.c("cli_refused")
            o.obs.append(f"{cls}:cli-export:rc={res.exit_code}: {str(res.exception or res.output)[:200]}")
            return o.result()
        data = open(outf, "rb").read()
        o.distinct.append(f"cli|{cls}")
        if ele2:
            parsed = R.parse_cert_v2(data)
            model = R.build_cert_v2_body(p["socc"], p["val"]["socu"], 0, p["val"]["fuse"], p["uuid"] or bytes(16), knum(p["dck"]), knum(p["skey"]))
            if data[:parsed["sig_off"]] != model:
                o.v("dc-bytes", f"differs-in:{first_region(parsed['regions'], data, model)}", "file written by the command line", scope="ele2")
            if not R.verify_cert_v2(data, parsed, knum(p["skey"])):
                o.v("dc-signature", "does-not-verify", "file written by the command line", scope=lk(cls))
        else:
            probe = Obs(cls)
            judge_classic_bytes(p, data, probe)  # same clauses and discriminators as for the API result
            for c, d, t in probe.viol:
                o.viol.append((c, d, "file written by the command line: " + t))
    finally:
        shutil.rmtree(tmp, ignore_errors=True)
    return o.result()


# ---------------------------------------------------------------------------------------------
# enumeration


def fkey(e: dict) -> str:
    return f"{e['family']}/{e['rev']}"


def family_table() -> list[dict]:
    """Every DAT family x revision with the database values the DAT code reads (equivalence-class key)."""
    from spsdk.utils.database import DatabaseManager, get_db, get_families

    def flags(db) -> dict:
        g = lambda k, d=None: db.get_value("dat", k, d)  # noqa
        try:
            pss = bool(db.get_bool("signing", "pss_padding"))
        except Exception:  # noqa
            pss = False
        ele = bool(g("based_on_ele", False))
        cnt = int(g("ele_cnt_version", 1)) if ele else 0
        return {"socc": int(g("socc", 0)), "ele": ele, "cnt": cnt, "sha256": bool(g("dat_is_using_sha256_always", False)),
                "swapped": bool(g("dac_version_is_swapped", False)), "rot_np": bool(g("rot_not_part_of_dac", False)),
                "rot_inv": bool(g("rot_could_be_invalid", False)), "pss": pss,
                "kind": "ele2" if cnt == 2 else ("ele" if ele else "plain")}

    out = []
    latest = {}
    for f in sorted(get_families(DatabaseManager.DAT)):
        latest[f] = flags(get_db(f))
        for r in sorted(DatabaseManager().db.devices.get(f).revisions.revision_names()):
            fl = flags(get_db(f, r))
            fl["pss"] = latest[f]["pss"]  # the DAT code reads the signing padding from the family's latest revision
            out.append({"family": f, "rev": r, **fl, "latest_kind": latest[f]["kind"]})
    by_socc: dict = {}
    for e in out:
        by_socc.setdefault(e["socc"], set()).add(e["family"])
    # get_family_ambassador: the last family (sorted) with this SOCC, at its latest revision
    socc_kind = {s: latest[max(fs)]["kind"] for s, fs in by_socc.items()}
    for e in out:
        e["amb"] = max(by_socc[e["socc"]])
        e["socc_kind"] = socc_kind
        e["kind_key"] = "|".join(str(e[k]) for k in ("kind", "sha256", "swapped", "rot_np", "rot_inv", "pss", "latest_kind")) \
            + "|" + socc_kind[e["socc"]]
    for e in out:  # a second device (other SOCC, plain layout) for the "challenge of another device" dimension
        oth = next(x for x in out if x["socc"] != e["socc"] and x["kind"] == "plain" and x["socc"] != 0)
        e["other_socc"] = oth["socc"]
        e["other_fam"] = {k: oth[k] for k in ("family", "rev", "socc", "ele", "sha256", "swapped", "pss", "kind")}
    return out


def classes_for(fam: dict) -> list[str]:
    return [c for c, d in CLASSES.items() if d["layout"] == fam["kind"]]


def build_cases(tier: str, seed: int, ftab: list[dict], cli: bool) -> tuple[list[dict], dict]:
    quick = tier == "quick"
    cases: list[dict] = []
    reps: dict = {}
    for e in ftab:
        reps.setdefault(e["kind_key"], []).append(e)
    nrep = 1 if quick else 3
    rep_list = {k: v[:nrep] for k, v in sorted(reps.items())}
    k = 1 if quick else 2
    classic = lambda c: CLASSES[c]["layout"] != "ele2"  # noqa
    # three light cases first (the runner executes the head of the queue twice for the determinism proof)
    plain0 = next(fams[0] for fams in rep_list.values() if fams[0]["kind"] == "plain")
    for cls in ("ecc-2.0", "ecc-2.1", "rsa-1.0"):
        cases.append({"g": "lat", "cls": cls, "fam": fkey(plain0), "dep": {"chal": 3}, "seed": seed})
    # bind (heaviest: early in the queue)
    bind_done: set = set()
    for key, fams in rep_list.items():
        n = 4 if not quick else (3 if fams[0]["kind"] not in bind_done else 2)
        bind_done.add(fams[0]["kind"])
        for cls in filter(classic, classes_for(fams[0])):
            cases.append({"g": "bind", "cls": cls, "fam": fkey(fams[0]), "seed": seed, "n": n})
    # lat: k departures on the first representative of the first class key of each device kind (the database flags that
    # separate the other class keys only reach the challenge's hash length and validate_against_dc: 1 departure there)
    # quick: on those other class keys only the departures that can meet the flags (the response/challenge dimensions and
    # the socc source) are run; the credential dimensions are run on the first class key of the kind for every class.
    kinds_done: set = set()
    lat: list = []
    for key, fams in rep_list.items():
        kind = (fams[0]["kind"], fams[0]["socc_kind"][fams[0]["socc"]])
        for fi, fam in enumerate(fams):
            first = fi == 0 and kind not in kinds_done
            kk = k if first else 1
            for cls in classes_for(fam):
                for dep in lattice(cls, kk):
                    if quick and not quick_keep(cls, dep, first):
                        continue
                    lat.append({"g": "lat", "cls": cls, "fam": fkey(fam), "dep": dep, "seed": seed})
        kinds_done.add(kind)
    # slow classes (RSA-4096 key loads) first, for an even load at the end of the run
    lat.sort(key=lambda c: 0 if CLASSES[c["cls"]]["pool"] == "rsa4096" else (1 if CLASSES[c["cls"]]["pool"] == "rsa2048" else 2))
    cases += [c for c in lat if c not in cases[:3]]
    # reuse: one response configuration dict for several challenges; every protocol class on the first representative of
    # each layout kind (thorough: of each class key)
    reuse_done: set = set()
    for key, fams in rep_list.items():
        if quick and fams[0]["kind"] in reuse_done:
            continue
        reuse_done.add(fams[0]["kind"])
        for cls in classes_for(fams[0]):
            cases.append({"g": "reuse", "cls": cls, "fam": fkey(fams[0]), "seed": seed, "n": 3 if quick else 4})
    # errpath: refused sign() and what the object hands out afterwards; every classic / EdgeLock v1 class on the first
    # representative of each layout kind (thorough: of each class key)
    err_done: set = set()
    for key, fams in rep_list.items():
        if quick and fams[0]["kind"] in err_done:
            continue
        err_done.add(fams[0]["kind"])
        for cls in filter(classic, classes_for(fams[0])):
            cases.append({"g": "errpath", "cls": cls, "fam": fkey(fams[0]), "seed": seed})
    # hist: object histories for every protocol class, on the first representative of each layout kind
    hist_done: set = set()
    for key, fams in rep_list.items():
        if fams[0]["kind"] in hist_done:
            continue
        hist_done.add(fams[0]["kind"])
        for cls in classes_for(fams[0]):
            for start in HIST_STARTS:
                for first in ([None] if quick else HIST_OPS):
                    c = {"g": "hist", "cls": cls, "fam": fkey(fams[0]), "start": start, "L": 3 if quick else 4, "seed": seed}
                    if first:
                        c["first"] = first
                    cases.append(c)
    # rot x keyset (x ca) full product on the first representative of each class key (quick: of each layout kind —
    # the RoT meta code reads no database value besides the layout)
    # The ECC credential's hash length does read a database flag (SHA-256-always devices): (number of keys 1..4) x (used
    # index) with the standard key list runs for the ECC classes on every class key also in quick.
    layouts_done: set = set()
    for key, fams in rep_list.items():
        ecc_only = quick and fams[0]["kind"] in layouts_done
        if ecc_only and fams[0]["kind"] != "plain":
            continue
        layouts_done.add(fams[0]["kind"])
        for cls in filter(classic, classes_for(fams[0])):
            if ecc_only and CLASSES[cls]["meta"] != "ecc":
                continue
            dims = dims_for(cls)
            for ri in range(len(dims["rot"])):
                for ks in range(len(dims["keyset"])):
                    if ecc_only and ks:
                        continue
                    nkeys = dims["rot"][ri][0]
                    if (dims["keyset"][ks] == "dup-two-slots" and nkeys < 3) or (dims["keyset"][ks] == "all-same" and nkeys < 2):
                        continue  # the list is the standard one
                    if quick and CLASSES[cls]["pool"] == "rsa4096" and (dims["keyset"][ks] == "alt" or (ks >= 2 and nkeys < 4)):
                        continue  # RSA-4096 (slow key loads): standard order everywhere, repeated keys in full tables only
                    for ca in range(len(dims.get("ca", [0]))):
                        dep = {a: b for a, b in (("rot", ri), ("keyset", ks), ("ca", ca)) if b}
                        cases.append({"g": "rot", "cls": cls, "fam": fkey(fams[0]), "dep": dep, "seed": seed, "rotsel": f"{ri}/{ks}/{ca}"})
    # fam: every family x revision at base; thorough: every protocol class, quick: every class on the representatives
    # (they are in `lat` at base already) and one RSA and one ECC class (the smallest keys) on every other family x revision
    rep_keys = {fkey(f) for fams in rep_list.values() for f in fams}
    for e in ftab:
        for cls in classes_for(e):
            if quick and (fkey(e) in rep_keys or CLASSES[cls]["pool"] not in ("rsa2048", "p256")):
                continue
            cases.append({"g": "fam", "cls": cls, "fam": fkey(e), "seed": seed})
    if cli:
        done = set()
        for key, fams in rep_list.items():
            for cls in classes_for(fams[0]):
                if cls not in done:
                    done.add(cls)
                    cases.append({"g": "cli", "cls": cls, "fam": fkey(fams[0]), "seed": seed})
    return cases, {k: [fkey(e) for e in v] for k, v in rep_list.items()}


def run(ctx: core.Ctx) -> None:
    global _FTAB
    ncal = R.selftest(core.REPO)
    ctx.count("reference_calibration_files", ncal)
    if ncal < 8:
        raise core.HarnessError(f"dat_ref calibrated on {ncal} golden files only")
    ftab = family_table()
    _FTAB = {fkey(e): e for e in ftab}
    cli_ok, cli_why = cli_importable()
    ctx.cov["cli"] = "driven through CliRunner" if cli_ok else f"SKIPPED: spsdk.apps.nxpdebugmbox does not import here ({cli_why})"
    cases, reps = build_cases(ctx.tier, ctx.seed, ftab, cli_ok)
    only = os.environ.get("VERIF_C15_ONLY")  # development aid, e.g. "lat:ecc-2.0,fam" (never reported as exhaustive)
    if only:
        sel = [x.split(":") for x in only.split(",")]
        cases = [c for c in cases if any(c["g"] == s[0] and (len(s) == 1 or c["cls"] == s[1]) for s in sel)]
        ctx.exhaustive = False
        ctx.cov["restricted_to"] = only
    ctx.cov["families_x_revisions"] = len(ftab)
    ctx.cov["equivalence_classes"] = {k: {"size": sum(1 for e in ftab if e["kind_key"] == k), "representatives": v} for k, v in reps.items()}
    per_group: dict = {}
    per_class: dict = {}
    for c in cases:
        per_group[c["g"]] = per_group.get(c["g"], 0) + 1
        per_class[c["cls"]] = per_class.get(c["cls"], 0) + 1
    ctx.cov["cases_per_group"] = per_group
    ctx.cov["cases_per_protocol_class"] = per_class
    ctx.cov["dimensions"] = {c: {n: [str(x) for x in dom] for n, dom in dims_for(c).items()} for c in ("ecc-2.0", "ele-1.0", "ele2-p256")}
    ctx.cov["departures_bound_k"] = 1 if ctx.tier == "quick" else 2
    seen_g = set()
    for c in cases:
        if (c["g"], CLASSES[c["cls"]]["layout"]) not in seen_g:
            seen_g.add((c["g"], CLASSES[c["cls"]]["layout"]))
            ctx.sample(c, limit=12)
    obs: dict = {}
    done: dict = {}
    rej: dict = {}
    for case, res in ctx.pool_map(w_dispatch, cases, timeout=300, chunksize=2, check_det=3):
        if ctx.absorb(case, res):
            done[case["g"]] = done.get(case["g"], 0) + 1
            for x in res.get("obs", ()):
                obs[x] = obs.get(x, 0) + 1
            stages = sorted(k[9:] for k in res.get("count", {}) if k.startswith("rejected_"))
            if stages:
                # which single departures the builders refuse (a legal value that starts being refused shows up here)
                dep = case.get("dep", {})
                dims = dims_for(case["cls"])
                what = ",".join(f"{a}={dims[a][i]}" for a, i in sorted(dep.items())) if len(dep) <= 1 else "(two departures)"
                key = f"{case['cls']}|{what or 'base'}|{'+'.join(stages)}"
                rej[key] = rej.get(key, 0) + 1
        if ctx.out_of_budget():
            break
    ctx.cov["cases_completed_per_group"] = done
    if done != per_group:
        ctx.exhaustive = False
    ctx.cov["observations"] = dict(sorted(obs.items()))
    ctx.cov["rejected_by_departure"] = dict(sorted(rej.items()))
    c = ctx.counters
    ctx.cov["evaluations"] = (c.get("dc_signatures_verified_by_reference", 0) + c.get("dc_tamper_flips", 0) + c.get("dc_wrong_key_checks", 0)
                              + c.get("dc_roundtrips", 0) + c.get("rot_hashes", 0) + c.get("dac_parses", 0) + c.get("dac_validations", 0)
                              + c.get("dar_signatures_verified_by_reference", 0) + c.get("dar_binding_checks", 0)
                              + c.get("dar_matrix_verifications", 0))
    ctx.rule = (
        "E1 lattice per protocol class {RSA 1.0/1.1, ECC 2.0/2.1/2.2, EdgeLock v1 with RSA-2048/4096 and P-256/384/521 root keys, "
        "EdgeLock v2 (certificate based) with P-256/384/521 and RSA-2048/4096}: every configuration with <= k departures (k = 1 quick, "
        "2 thorough) from the base over the dimensions in cov.dimensions, on one (quick) / up to three (thorough; k only on the first) "
        "representative family per equivalence class of the database values the DAT code reads (class, SHA-256-always, swapped challenge "
        "version, RoT-hash flags, PSS, class of the latest revision and of the SOCC's ambassador family); plus every DAT family x "
        "revision x protocol class at the base configuration, the full product (number of RoT keys 1..4) x (used index) x key set "
        "(x CA flag), and per class the binding matrix of credentials x challenges x uuids (3^3 quick, 4^3 thorough responses, each "
        "verified against every triple). Quick thins this without dropping a class or a dimension: credential-side departures, the "
        "RoT full product and the 3^3 matrix run on the first class key of each device kind (response-side departures and a 2^3 "
        "matrix on the others), and non-representative family x revision pairs run the RSA-2048 and P-256 classes at base. "
        "A case is distinct/non-trivial when it is another point of these products for which SPSDK "
        "produced a credential (rejections with SPSDKError are counted as rejected); VERIF_SEED only changes the bytes of the "
        "'pattern' uuid, the seed-derived challenge and the RoT hash field of the challenge")
    ctx.assumptions += [
        "RSA credentials/responses are RSASSA-PKCS1-v1_5 on classic devices and RSASSA-PSS (SHA-256, salt 32) on EdgeLock devices (their SRK "
        "records announce RSA-PSS; database key signing.pss_padding)",
        "protocol version is the one the key implies: RSA-2048 1.0, RSA-4096 1.1, P-256 2.0, P-384 2.1, P-521 2.2",
        "the generic DebugCredentialCertificate.parse is demanded only for a SOCC that the database maps to a family of the credential's "
        "layout (it has no family argument); a SOCC outside the database must be refused or parsed correctly",
        "a DCK that is not of the protocol version's key type and size cannot be carried by the format: the finding is that the builder "
        "accepts it, reported once per credential class",
        "EdgeLock v2: the RoT key is not named by the credential (AHAB certificate); the signature is checked under the configured signing "
        "key; calculate_hash() is empty by design; the response is an AHAB signed message whose DCK signature covers container head, "
        "message (unique id, challenge, 16-bit beacon) and signature block up to the signature, not the certificate itself",
        "validate_against_dc: only acceptance of a challenge carrying the credential's own identity is demanded; refusals of foreign "
        "challenges are counted (host-side sanity check, not part of the statement)",
        "exception types other than SPSDKError out of builders are observations (cov.observations), per the task's oracle decision",
    ]


def replay(ctx: core.Ctx, rec: dict) -> bool:
    case = rec["case"]
    res = core.run_with_watchdog(w_dispatch, case, 600)
    if res.get("__watchdog__"):
        print("watchdog: does not terminate")
        return rec["clause"].endswith(".terminates")
    hits = [v for v in res["viol"] if v[0] == rec["clause"] and v[1] == rec["disc"]]
    for h in hits[:5]:
        print(h)
    if not hits:
        for v in res["viol"][:10]:
            print("other:", v[:2])
    return bool(hits)
