"""C12 adapters: one small class per configuration area giving the areas one face.

    enum()                       every instance the database offers: {"kind", "family", "rev", "sub": [...]}
    template(inst) -> str        what the CLI / API hands the user
    validate(inst, cfg)          the area's own validation schema (check_config) - raises SPSDKError
    load(inst, cfg) -> obj       the area's load-from-configuration entry point
    export(obj) -> bytes         the area's binary
    parse(inst, data) -> obj     the area's parser
    verify(obj) -> None | str    the area's verifier where it has one (str = complaint)
    config(obj) -> dict          the area's configuration, in the form `load` takes
    settings(cfg) -> dict        the sub-dictionary of a configuration that holds the register values
    facts(inst) -> dict          *data* for the independent rules: register description file(s), grouped
                                 registers, documented size, prefill, seal / computed-field entries

spsdk is imported inside functions only (after core.bind_repo()).  The adapters contain no
judgement: every comparison lives in c12.py / vf/ref/area_rules.py.
"""
from __future__ import annotations

import contextlib
import copy
import hashlib
import os
from typing import Any, Optional

from vf import core
from vf.ref import area_rules as AR

# documented sizes that the database does not carry (class docstrings / reference manuals: PFR page 512 bytes,
# IFR ROMCFG 0x130 bytes, CMAC table 0x80 bytes, BCA 64 bytes, FCF 16 bytes, FlexSPI/XSPI FCB 512 bytes)
DOC_SIZE = {"pfr.cmpa": 512, "pfr.cfpa": 512, "ifr.romcfg": 304, "ifr.cmactable": 128, "bca": 64, "fcf": 16}
# FlexSPI NOR configuration block: 512 bytes; XSPI NOR (RT7xx): 768 bytes (the bootable image layout puts the next
# segment at 0x300)
FCB_DOC_SIZE = {"flexspi_nor": 512, "xspi_nor": 768}
DOC_PREFILL = {"pfr.cmpa": 0x00, "pfr.cfpa": 0x00, "ifr.romcfg": 0xFF, "ifr.cmactable": 0xFF}


def inst_id(inst: dict) -> str:
    return f"{inst['kind']}:{inst['family']}:{inst['rev']}" + ("".join(":" + s for s in inst["sub"]) if inst["sub"] else "")


def _db(inst: dict):
    from spsdk.utils.database import get_db

    return get_db(inst["family"], inst["rev"])


def _revisions(family: str) -> list[str]:
    from spsdk.utils.database import get_device

    return [r.name for r in get_device(family).revisions]


def _raw(inst: dict, feature: str) -> dict:
    """The database *data* of a feature (deep copy, never handed to spsdk)."""
    return copy.deepcopy(_db(inst).features[feature])


def _yaml(text: str) -> dict:
    import yaml

    return yaml.load(text, Loader=getattr(yaml, "CSafeLoader", yaml.SafeLoader))


# ---------------------------------------------------------------------------------------------
# recording of the database values an area reads (class key of DESIGN 1.9)


@contextlib.contextmanager
def db_recorder(log: list):
    from spsdk.utils.database import Features

    orig_v, orig_p = Features.get_value, Features.get_file_path

    def get_value(self, feature, key, default=None):
        k = list(key) if isinstance(key, list) else key
        try:
            v = orig_v(self, feature, key, default)
        except Exception as e:  # noqa
            log.append((feature, core.jdump(k), "raise:" + type(e).__name__))
            raise
        log.append((feature, core.jdump(k), core.jdump(v)))
        return v

    def get_file_path(self, feature, key, default=None, just_standard_lib=False):
        k = list(key) if isinstance(key, list) else key
        p = orig_p(self, feature, key, default, just_standard_lib)
        try:
            log.append((feature, core.jdump(k) + "#file", AR.file_sha1(p)))
        except OSError:
            log.append((feature, core.jdump(k) + "#file", "missing"))
        return p

    Features.get_value, Features.get_file_path = get_value, get_file_path
    try:
        yield
    finally:
        Features.get_value, Features.get_file_path = orig_v, orig_p


def class_key(kind: str, log: list) -> str:
    return kind + ":" + hashlib.sha1(core.jdump(sorted(set(log))).encode()).hexdigest()[:16]


# ---------------------------------------------------------------------------------------------


class Area:
    kind = ""
    feature = ""
    settings_key = "settings"
    has_parse = True
    cli = ""

    @classmethod
    def enum(cls) -> list[dict]:
        raise NotImplementedError

    def settings(self, cfg: dict) -> dict:
        return cfg[self.settings_key]

    def verify(self, obj) -> Optional[str]:
        return None

    def load_raw(self, inst: dict, cfg: dict):
        """The load entry point on exactly the dictionary object handed in (no protective copy)."""
        return self.load(inst, cfg)

    def queries(self, obj, inst: dict) -> list:
        """Every public, read-only looking call the area offers on an object: [(name, thunk)].  Nothing is judged here;
        c12.hist_case demands that export() and the configuration of the object are the same after each of them."""
        import inspect

        q: list = [("str", lambda: str(obj)), ("repr", lambda: repr(obj)), ("eq", lambda: obj == obj)]
        for name in ("get_config", "generate_config", "create_config", "get_yaml", "verify", "create_fuse_script",
                     "create_crc_hash_fuses_script", "calculate_crc", "create_blhost_batch_config"):
            fn = getattr(obj, name, None)
            if callable(fn):
                q.append((name, fn))
                try:
                    if "diff" in inspect.signature(fn).parameters:
                        q.append((name + "(diff=True)", lambda fn=fn: fn(diff=True)))
                except (TypeError, ValueError):
                    pass
        for prop in ("crc", "size", "mem_type", "config_type", "option_words", "option_words_count", "supported_interfaces",
                     "fuse_operator_type"):
            if isinstance(getattr(type(obj), prop, None), property):
                q.append((prop, lambda prop=prop: getattr(obj, prop)))
        if hasattr(obj, "export") and "add_seal" in getattr(getattr(obj.export, "__code__", None), "co_varnames", ()):
            q.append(("export(add_seal=True)", lambda: obj.export(add_seal=True, draw=False)))
        regs = self.registers(obj)
        if regs is not None:
            q += [("registers.image_info", lambda: regs.image_info().export()),
                  ("registers.get_validation_schema", regs.get_validation_schema),
                  ("registers.get_config", regs.get_config),
                  ("registers.get_config(diff=True)", lambda: regs.get_config(diff=True)),
                  ("registers.get_reg_names(group)", lambda: regs.get_reg_names(include_group_regs=True)),
                  ("registers.get_registers(group)", lambda: regs.get_registers(include_group_regs=True)),
                  ("registers.get_diff", lambda: regs.get_diff(regs)),
                  ("registers.str", lambda: str(regs)),
                  ("registers.eq", lambda: regs == regs)]
        q.append(("validate(own config)", lambda: self.validate(inst, copy.deepcopy(self.config(obj)))))
        return q

    def key_path(self, inst: dict) -> list[str]:
        return list(inst["sub"])

    def facts(self, inst: dict) -> dict:
        db = _db(inst)
        raw = _raw(inst, self.feature)
        node = raw
        for k in self.key_path(inst):
            node = node[k]
        spec = db.device.create_file_path(node["reg_spec"])
        return {"spec": spec, "grouped": node.get("grouped_registers", []) or [], "node": node,
                "size": DOC_SIZE.get(self.kind, 0), "prefill": DOC_PREFILL.get(self.kind, 0), "base_offset": 0}


# --------------------------------------------------------------------------------------------- PFR / IFR


class PfrArea(Area):
    settings_key = "settings"
    cli = "pfr"

    def __init__(self, kind: str):
        self.kind = kind
        self.feature, self.sub = kind.split(".")

    def _cls(self):
        from spsdk.pfr import pfr

        return pfr.CONFIG_AREA_CLASSES[self.sub]

    def enum(self) -> list[dict]:  # type: ignore[override]
        from spsdk.utils.database import get_families

        out = []
        for fam in get_families(self.feature, self.sub):
            for rev in _revisions(fam):
                if self.sub in _db({"family": fam, "rev": rev}).features.get(self.feature, {}):
                    out.append({"kind": self.kind, "family": fam, "rev": rev, "sub": [self.sub]})
        return out

    def template(self, inst):
        from spsdk.utils.schema_validator import CommentedConfig

        schemas = self._cls().get_validation_schemas(family=inst["family"], revision=inst["rev"])
        return CommentedConfig(f"PFR {self.sub.upper()} configuration template", schemas).get_template()

    def validate(self, inst, cfg):
        self._cls().validate_config(cfg)

    def load(self, inst, cfg):
        from spsdk.pfr.pfr import BaseConfigArea

        return BaseConfigArea.load_from_config(cfg)

    def export(self, obj, **kw) -> bytes:
        return obj.export(draw=False, **kw)

    def parse(self, inst, data):
        o = self._cls()(family=inst["family"], revision=inst["rev"])
        o.parse(data)
        return o

    def config(self, obj) -> dict:
        return obj.get_config()

    def registers(self, obj):
        return obj.registers

    def facts(self, inst):
        f = super().facts(inst)
        node = f["node"]
        if "size" in node:
            f["size"] = AR.num(node["size"])  # documented size from the database where it has one
            f["size_from_db"] = True
        f["seal_start"] = node.get("seal_start")
        f["seal_count"] = AR.num(node["seal_count"]) if node.get("seal_count") is not None else None
        f["computed"] = node.get("computed_fields", {}) or {}
        try:
            f["rot_type"] = _raw(inst, "cert_block").get("rot_type")
        except KeyError:
            f["rot_type"] = None
        return f


# --------------------------------------------------------------------------------------------- BCA / FCF


class SegArea(Area):
    cli = "nxpimage"

    def __init__(self, kind: str):
        self.kind = self.feature = self.settings_key = kind

    def _cls(self):
        if self.kind == "bca":
            from spsdk.image.bca.bca import BCA

            return BCA
        from spsdk.image.fcf.fcf import FCF

        return FCF

    def enum(self):  # type: ignore[override]
        return [{"kind": self.kind, "family": fam, "rev": rev, "sub": []}
                for fam in self._cls().get_supported_families() for rev in _revisions(fam)]

    def template(self, inst):
        return self._cls().generate_config_template(inst["family"], inst["rev"])

    def validate(self, inst, cfg):
        from spsdk.utils.schema_validator import check_config

        check_config(cfg, self._cls().get_validation_schemas_family())
        check_config(cfg, self._cls().get_validation_schemas(inst["family"], inst["rev"]))

    def load(self, inst, cfg):
        return self._cls().load_from_config(cfg)

    def export(self, obj) -> bytes:
        return obj.export()

    def parse(self, inst, data):
        return self._cls().parse(data, family=inst["family"], revision=inst["rev"])

    def config(self, obj) -> dict:
        return obj.get_config()

    def registers(self, obj):
        return obj.registers


# --------------------------------------------------------------------------------------------- FCB


class FcbArea(Area):
    kind = feature = "fcb"
    settings_key = "fcb_settings"
    cli = "nxpimage"

    def enum(self):  # type: ignore[override]
        from spsdk.image.fcb.fcb import FCB

        out = []
        for fam in FCB.get_supported_families():
            for rev in _revisions(fam):
                for mt in _db({"family": fam, "rev": rev}).features["fcb"].get("mem_types", {}):
                    out.append({"kind": "fcb", "family": fam, "rev": rev, "sub": [mt]})
        return out

    def key_path(self, inst):
        return ["mem_types", inst["sub"][0]]

    def _mt(self, inst):
        from spsdk.image.mem_type import MemoryType

        return MemoryType.from_label(inst["sub"][0])

    def template(self, inst):
        from spsdk.image.fcb.fcb import FCB

        return FCB.generate_config_template(inst["family"], self._mt(inst), inst["rev"])

    def validate(self, inst, cfg):
        from spsdk.image.fcb.fcb import FCB
        from spsdk.utils.schema_validator import check_config

        check_config(cfg, FCB.get_validation_schemas_family())
        check_config(cfg, FCB.get_validation_schemas(inst["family"], self._mt(inst), inst["rev"]))

    def load(self, inst, cfg):
        from spsdk.image.fcb.fcb import FCB

        return FCB.load_from_config(cfg)

    def export(self, obj) -> bytes:
        return obj.export()

    def parse(self, inst, data):
        from spsdk.image.fcb.fcb import FCB

        return FCB.parse(data, family=inst["family"], mem_type=self._mt(inst), revision=inst["rev"])

    def config(self, obj) -> dict:
        return _yaml(obj.create_config())  # FCB has no dictionary form: its configuration *is* the YAML text

    def registers(self, obj):
        return obj.registers

    def facts(self, inst):
        f = super().facts(inst)
        f["size"] = FCB_DOC_SIZE.get(inst["sub"][0], 0)
        return f


# --------------------------------------------------------------------------------------------- XMCD


class XmcdArea(Area):
    kind = feature = "xmcd"
    settings_key = "xmcd_settings"
    cli = "nxpimage"

    def enum(self):  # type: ignore[override]
        from spsdk.image.xmcd.xmcd import XMCD

        out = []
        for fam in XMCD.get_supported_families():
            for rev in _revisions(fam):
                for mt, v in _db({"family": fam, "rev": rev}).features["xmcd"].get("mem_types", {}).items():
                    for ct in v:
                        out.append({"kind": "xmcd", "family": fam, "rev": rev, "sub": [mt, ct]})
        return out

    def key_path(self, inst):
        return ["mem_types"] + list(inst["sub"])

    def _types(self, inst):
        from spsdk.image.mem_type import MemoryType
        from spsdk.image.xmcd.xmcd import ConfigurationBlockType

        return MemoryType.from_label(inst["sub"][0]), ConfigurationBlockType.from_label(inst["sub"][1])

    def template(self, inst):
        from spsdk.image.xmcd.xmcd import XMCD

        mt, ct = self._types(inst)
        return XMCD.generate_config_template(inst["family"], mt, ct, inst["rev"])

    def validate(self, inst, cfg):
        from spsdk.image.xmcd.xmcd import XMCD
        from spsdk.utils.schema_validator import check_config

        mt, ct = self._types(inst)
        check_config(cfg, XMCD.get_validation_schemas_family())
        check_config(cfg, XMCD.get_validation_schemas(inst["family"], mt, ct, inst["rev"]))

    def load(self, inst, cfg):
        from spsdk.image.xmcd.xmcd import XMCD

        # (load_from_config used to pop "header" out of the caller's dict: the departures share nested dicts with the
        # template configuration, so they hand in a copy; c12.hist_case checks the entry point on the very object)
        return XMCD.load_from_config(copy.deepcopy(cfg))

    def load_raw(self, inst, cfg):
        from spsdk.image.xmcd.xmcd import XMCD

        return XMCD.load_from_config(cfg)

    def export(self, obj) -> bytes:
        return obj.export()

    def parse(self, inst, data):
        from spsdk.image.xmcd.xmcd import XMCD

        return XMCD.parse(data, family=inst["family"], revision=inst["rev"])

    def verify(self, obj) -> Optional[str]:
        v = obj.verify()
        return None if not v.has_errors else v.draw()

    def config(self, obj) -> dict:
        return _yaml(obj.create_config())

    def registers(self, obj):
        return obj.registers

    def crc(self, obj) -> bytes:
        return obj.crc

    def queries(self, obj, inst):
        # XMCD.registers hands out a deep copy on every access: calls on that copy cannot reach the object, and each
        # comparison afterwards costs 0.3 s
        return [(n, f) for n, f in super().queries(obj, inst) if not n.startswith("registers.")] + \
            [("registers(property)", lambda: obj.registers), ("header.verify", lambda: obj.header.verify()),
             ("header.size", lambda: obj.header.size), ("config_block.registers", lambda: obj.config_block.registers)]

    def facts(self, inst):
        f = super().facts(inst)
        db = _db(inst)
        raw = _raw(inst, "xmcd")
        f["header_spec"] = db.device.create_file_path(raw["header"]["reg_spec"])
        f["mem_types"] = {k: list(v) for k, v in raw.get("mem_types", {}).items()}
        return f


# --------------------------------------------------------------------------------------------- TrustZone


class TzArea(Area):
    kind = feature = "tz"
    settings_key = "trustZonePreset"
    cli = "nxpimage"

    def enum(self):  # type: ignore[override]
        from spsdk.image.trustzone import TrustZone

        return [{"kind": "tz", "family": fam, "rev": rev, "sub": []}
                for fam in TrustZone.get_supported_families() for rev in _revisions(fam)]

    def template(self, inst):
        from spsdk.image.trustzone import TrustZone

        return TrustZone.generate_config_template(inst["family"], inst["rev"])[f"{inst['family']}_tz"]

    def validate(self, inst, cfg):
        from spsdk.image.trustzone import TrustZone
        from spsdk.utils.schema_validator import check_config

        check_config(cfg, TrustZone.get_validation_schemas_family())
        check_config(cfg, TrustZone.get_validation_schemas(inst["family"], inst["rev"]))

    def load(self, inst, cfg):
        from spsdk.image.trustzone import TrustZone

        return TrustZone.from_config(cfg)

    def export(self, obj) -> bytes:
        return obj.export()

    def parse(self, inst, data):
        from spsdk.image.trustzone import TrustZone

        return TrustZone.from_binary(family=inst["family"], raw_data=data, revision=inst["rev"])

    def config(self, obj) -> dict:
        # TrustZone has no get_config: its configuration is the `customs` dictionary it was built from / parsed into
        return {"family": obj.family, "revision": getattr(obj, "_c12_rev", "latest"), "trustZonePreset": dict(obj.customs),
                "tzpOutputFile": "tz.bin"}

    def registers(self, obj):
        return None


# --------------------------------------------------------------------------------------------- fuses


class FusesArea(Area):
    kind = feature = "fuses"
    settings_key = "registers"
    has_parse = False
    cli = "nxpfuses"

    def enum(self):  # type: ignore[override]
        from spsdk.fuses.fuses import Fuses

        return [{"kind": "fuses", "family": fam, "rev": rev, "sub": []}
                for fam in Fuses.get_supported_families() for rev in _revisions(fam)]

    def template(self, inst):
        from spsdk.fuses.fuses import Fuses

        return Fuses.generate_config_template(inst["family"], inst["rev"])

    def validate(self, inst, cfg):
        from spsdk.fuses.fuses import Fuses
        from spsdk.utils.schema_validator import check_config

        check_config(cfg, Fuses.get_validation_schemas_family())
        check_config(cfg, Fuses.get_validation_schemas(inst["family"], inst["rev"]))

    def load(self, inst, cfg):
        from spsdk.fuses.fuses import Fuses

        return Fuses.load_from_config(cfg)

    def export(self, obj) -> bytes:
        return obj.create_fuse_script().encode()  # the artefact of the fuse tool: the programming script

    def parse(self, inst, data):
        raise NotImplementedError

    def config(self, obj) -> dict:
        return obj.get_config()

    def registers(self, obj):
        return obj.fuse_regs

    def facts(self, inst):
        f = super().facts(inst)
        f["tool"] = f["node"].get("tool", "blhost")
        return f


# --------------------------------------------------------------------------------------------- memcfg


class MemcfgArea(Area):
    kind = feature = "memcfg"
    settings_key = "settings"
    cli = "nxpmemcfg"

    def enum(self):  # type: ignore[override]
        from spsdk.memcfg.memcfg import MemoryConfig

        out = []
        for fam in MemoryConfig.get_supported_families():
            for rev in _revisions(fam):
                for per, v in _db({"family": fam, "rev": rev}).features["memcfg"].get("peripherals", {}).items():
                    if len(v.get("instances", [])):
                        out.append({"kind": "memcfg", "family": fam, "rev": rev, "sub": [per]})
        return out

    def key_path(self, inst):
        return ["peripherals", inst["sub"][0]]

    def _obj(self, inst):
        from spsdk.memcfg.memcfg import MemoryConfig

        return MemoryConfig(family=inst["family"], peripheral=inst["sub"][0], revision=inst["rev"])

    def template(self, inst):
        from spsdk.utils.registers import Registers
        from spsdk.utils.schema_validator import CommentedConfig

        m = self._obj(inst)
        return CommentedConfig(main_title=f"Option Words Configuration template for {inst['family']}, {inst['sub'][0]}.",
                               schemas=m.get_validation_schemas(),
                               note="Note for settings:\n" + Registers.TEMPLATE_NOTE).get_template()

    def validate(self, inst, cfg):
        from spsdk.memcfg.memcfg import MemoryConfig
        from spsdk.utils.schema_validator import check_config

        check_config(cfg, MemoryConfig.get_validation_schemas_base())
        check_config(cfg, self._obj(inst).get_validation_schemas())

    def load(self, inst, cfg):
        from spsdk.memcfg.memcfg import MemoryConfig

        return MemoryConfig.load_config(cfg)

    def export(self, obj) -> bytes:
        # the artefact of nxpmemcfg: the option words handed to `blhost configure-memory`
        return obj.option_words_to_bytes(obj.option_words)

    def parse(self, inst, data):
        from spsdk.memcfg.memcfg import MemoryConfig

        return MemoryConfig.parse(data, family=inst["family"], peripheral=inst["sub"][0], revision=inst["rev"])

    def config(self, obj) -> dict:
        return obj.get_config()

    def registers(self, obj):
        return obj.regs

    def facts(self, inst):
        f = super().facts(inst)
        f["rule"] = f["node"].get("ow_counts_rule")
        return f


AREAS: dict[str, Area] = {}
for _a in (PfrArea("pfr.cmpa"), PfrArea("pfr.cfpa"), PfrArea("ifr.romcfg"), PfrArea("ifr.cmactable"), SegArea("bca"),
           SegArea("fcf"), FcbArea(), XmcdArea(), TzArea(), FusesArea(), MemcfgArea()):
    AREAS[_a.kind] = _a


def enum_all(kinds: Optional[list[str]] = None) -> list[dict]:
    out = []
    for k, a in AREAS.items():
        if kinds and k not in kinds:
            continue
        out += a.enum()
    return out


# --------------------------------------------------------------------------------------------- CLIs


def cli_main(name: str):
    if name == "pfr":
        from spsdk.apps.pfr import main
    elif name == "ifr":
        from spsdk.apps.ifr import main
    elif name == "nxpimage":
        from spsdk.apps.nxpimage import main
    elif name == "nxpfuses":
        from spsdk.apps.nxpfuses import main
    elif name == "nxpmemcfg":
        from spsdk.apps.nxpmemcfg import main
    else:
        raise KeyError(name)
    return main


def cli_run(name: str, args: list[str]) -> tuple[int, str, Optional[BaseException]]:
    from click.testing import CliRunner

    r = CliRunner().invoke(cli_main(name), args, catch_exceptions=True)
    exc = r.exception if not isinstance(r.exception, SystemExit) else None
    return r.exit_code, r.output, exc


def cli_script(inst: dict, d: str) -> dict:
    """Argument lists of the CLI round trip for an instance: template -> export -> parse (where the tool has one).

    Returns {"tool", "template": args, "template_file", "export": args | None, "binary", "parse": args | None, "parsed"}."""
    k, fam, rev, sub = inst["kind"], inst["family"], inst["rev"], inst["sub"]
    t = os.path.join(d, "t.yaml")
    b = os.path.join(d, "out.bin")
    p = os.path.join(d, "parsed.yaml")
    s: dict[str, Any] = {"template_file": t, "binary": b, "parsed": p, "export": None, "parse": None, "latest_only": False}
    if k.startswith("pfr."):
        s.update(tool="pfr", template=["get-template", "-f", fam, "-r", rev, "-t", sub[0], "-o", t],
                 export=["generate-binary", "-c", t, "-o", b],
                 parse=["parse-binary", "-f", fam, "-r", rev, "-t", sub[0], "-b", b, "-o", p])
    elif k.startswith("ifr."):
        sector = {"romcfg": "ROMCFG", "cmactable": "CMACTable"}[sub[0]]
        s.update(tool="ifr", template=["get-template", "-f", fam, "-r", rev, "-s", sector, "-o", t],
                 export=["generate-binary", "-f", fam, "-c", t, "-o", b],  # -f is "deprecated" but still required by click
                 parse=["parse-binary", "-f", fam, "-r", rev, "-s", sector, "-b", b, "-o", p])
    elif k in ("bca", "fcf"):
        s.update(tool="nxpimage", template=[k, "get-template", "-f", fam, "-o", t], export=[k, "export", "-c", t, "-o", b],
                 parse=[k, "parse", "-f", fam, "-b", b, "-o", p], latest_only=True)
    elif k == "fcb":
        t = os.path.join(d, f"fcb_{fam}_{sub[0]}.yaml")
        s.update(tool="nxpimage", template=["bootable-image", "fcb", "get-templates", "-f", fam, "-o", d], template_file=t,
                 export=["bootable-image", "fcb", "export", "-c", t, "-o", b],
                 parse=["bootable-image", "fcb", "parse", "-f", fam, "-m", sub[0], "-b", b, "-o", p], latest_only=True)
    elif k == "xmcd":
        t = os.path.join(d, f"xmcd_{fam}_{sub[0]}_{sub[1]}.yaml")
        s.update(tool="nxpimage", template=["bootable-image", "xmcd", "get-templates", "-f", fam, "-o", d], template_file=t,
                 export=["bootable-image", "xmcd", "export", "-c", t, "-o", b],
                 parse=["bootable-image", "xmcd", "parse", "-f", fam, "-b", b, "-o", p], latest_only=True)
    elif k == "tz":
        s.update(tool="nxpimage", template=["tz", "get-template", "-f", fam, "-r", rev, "-o", t], export=["tz", "export", "-c", t],
                 binary=None)  # the output file name comes from the configuration (tzpOutputFile)
    elif k == "fuses":
        s.update(tool="nxpfuses", template=["get-template", "-f", fam, "-r", rev, "-o", t],
                 export=["fuses-script", "-c", t, "-o", b])
    elif k == "memcfg":
        t = os.path.join(d, f"ow_{sub[0]}.yaml")
        s.update(tool="nxpmemcfg", template=["get-templates", "-f", fam, "-o", d], template_file=t, export=["export", "-c", t],
                 binary=None, latest_only=True)
    return s
