"""C13 — OTFAD / IEE / BEE: the hardware decrypts what SPSDK encrypts (engine E1: full product of
the small geometric dimensions, every case executed on the real /repo code).

Oracle = the per-16-byte-block hardware models in vf/ref/{otfad,iee,bee}_hw.py (written from the
structure comments / standards, no spsdk import), calibrated by `calibrate()` on every run on the
repository's golden images, key-blob tables and BEE headers (and on RFC 3394 / IEEE 1619 / CRC check
vectors) before anything is trusted; a calibration failure is a harness error (exit 2).

Case families (each case is a small dict = the replay file):
  otfad-img      Otfad.encrypt_image + encrypt_key_blobs + get_key_blobs on explicit / self-chosen key blobs
  otfad-kb       Otfad.encrypt_key_blobs over KEK x scramble(mask, align) x reversed x byte-swap count
  otfad-blobapi  KeyBlob.encrypt_image(base_address, data, byte_swap) as the SB2.1 `encrypt` command calls it
  iee-blobapi    IeeKeyBlob.encrypt_image(base_address, data) on data spanning several 4 KiB units
  iee-img        Iee.encrypt_image + get_key_blobs + encrypt_key_blobs, all modes
  iee-kb         IEE key-blob export over KEK x key-blob address x lock x modes
  bee-img        BeeNxp.export_image + export_headers, FAC ranges assigned to engine 0/1
  *-nxp          check_config + OtfadNxp/IeeNxp/BeeNxp.load_from_config + binary_image()/export_image()/
                 export_headers() (= what `nxpimage otfad|iee|bee export` runs), every supported family
  calls          call-order histories on ONE API object (BeeRegionHeader in BeeNxp, Otfad, Iee): every sequence over
                 {add region, export header/table, encrypt image} up to length 5 (6 thorough) in which regions are added
                 AFTER a first export; every result must equal that of a fresh object holding the same regions
  seg            data blobs with 2-3 disjoint segments: S19 / HEX files through IeeNxp.load_from_config, nested
                 BinaryImage trees through the IeeNxp / OtfadNxp constructors; each segment is read back at its own
                 address and must equal encrypting the piece alone at its address

Clauses (evaluated independently on every case):
  C13.<eng>-read        hw_read(exported, addr) == plaintext on every byte of the image: deciphered inside the
                        configured ranges, passed through (so exported == plaintext) outside
  C13.<eng>-length      length preserved; growth only as padding to 16 after the last input byte
  C13.<eng>-locality    encrypting the whole image == concatenation of encrypting its pieces at their addresses
  C13.<eng>-keyblob     exported key blobs / region headers unwrap to the configured fields, CRC valid
  C13.<eng>-crash       an exception that is not SPSDKError out of the builder for a legal input
  C13.iee-bypass        bypass mode leaves the data as they are
  C13.otfad-blob-encrypt  KeyBlob.encrypt_image result is what the engine deciphers at base_address
  C13.<eng>-history     on ONE object a later encrypt_image / export_image / binary_image / export_headers / key-blob
                        export equals the first one, export_image agrees with binary_image, and the stored input
                        (BinaryImage tree, input_image, key blobs) is unchanged afterwards
  C13.<eng>-order       a configuration refused (SPSDKError) in one listing order of its non-overlapping regions is
                        refused in the other order too
Every listing order of the configured regions is enumerated (all permutations up to 3 regions, reversed + one
rotation for 4; case key "perm"; for BEE the orders that change the add_fac sequence of an engine); the hardware
oracle is the same for every order, so a result that depends on the order fails the read/keyblob clauses.
  C13.<eng>-terminates  watchdog
A builder SPSDKError is a rejection (counted per message), never a violation.

Discriminators name the defect, not the input: kind of the first wrong block (inside:left-plain /
inside:garbled / outside:modified) + whether the unit-sized chunk *counted from the image base* that holds
it lies across a range edge + whether the base is unit aligned; the exclusive-end off-by-one of OTFAD has
its own discriminator; crashes carry exception type @ innermost spsdk frame.
"""
from __future__ import annotations

import dataclasses
import itertools
import os
import traceback
from typing import Any, Optional

from vf import core

LEVEL = "exploration"

U_OTFAD = 0x400
U_IEE = 0x1000
U_BEE = 0x400

LENGTHS = [0, 1, 15, 16, 17, 1023, 1024, 1025, 2048, 4096, 4097]
QUICK_LENGTHS = [x for x in LENGTHS if x != 4096]  # quick tier: 4096 (same unit count class as 4097 at offsets > 0) is left to thorough


# ---------------------------------------------------------------------------------------------
# geometry: region layouts on a grid of unit multiples


def n_units(off: int, length: int, unit: int) -> int:
    return max(1, -(-(off + length) // unit))


def grid_layouts(lo: int, hi: int, pairs: bool = True, chains: tuple = (3, 4), chain_lo: Optional[int] = None,
                 chain_hi: Optional[int] = None, pair_lo: Optional[int] = None, pair_hi: Optional[int] = None) -> list[tuple]:
    """All placements of pairwise disjoint ranges [i, j) with cut points on lo..hi:
    every single range, every disjoint ordered pair, and for k in `chains` every chain of k adjacent
    ranges (cut points p0 < p1 < .. < pk) with cut points on chain_lo..chain_hi."""
    pts = list(range(lo, hi + 1))
    out: list[tuple] = [((i, j),) for i, j in itertools.combinations(pts, 2)]
    if pairs:
        ppts = [p for p in pts if (pair_lo is None or p >= pair_lo) and (pair_hi is None or p <= pair_hi)]
        for i1, j1 in itertools.combinations(ppts, 2):
            for i2, j2 in itertools.combinations([p for p in ppts if p >= j1], 2):
                out.append(((i1, j1), (i2, j2)))
    cpts = list(range(lo if chain_lo is None else chain_lo, (hi if chain_hi is None else chain_hi) + 1))
    for k in chains:
        for cut in itertools.combinations(cpts, k + 1):
            out.append(tuple((cut[i], cut[i + 1]) for i in range(k)))
    return out


def first_diff_block(a: bytes, b: bytes, n: int) -> Optional[int]:
    """Offset (multiple of 16) of the first 16-byte block in which a[:n] and b[:n] differ."""
    if a[:n] == b[:n] and len(a) >= n and len(b) >= n:
        return None
    for o in range(0, n, 16):
        m = min(16, n - o)
        if a[o:o + m] != b[o:o + m]:
            return o
    return None


def chunk_ctx(off_in_img: int, base: int, length: int, unit: int, region_of) -> str:
    """Discriminator context of a failing block: does the 'unit sized chunk counted from the image
    base' that contains it lie across a region edge, and is the base unit aligned."""
    ci = off_in_img // unit
    c0 = base + ci * unit
    c1 = min(c0 + unit, base + max(length, 1))
    ids = {region_of(a) for a in range(c0 & ~15, c1, 16)}
    return f"chunk-from-base-crosses-region-edge={'yes' if len(ids) > 1 else 'no'},base-unit-aligned={'yes' if base % unit == 0 else 'no'}"


def exc_site(e: BaseException) -> str:
    tb = traceback.extract_tb(e.__traceback__)
    for fr in reversed(tb):
        if "/spsdk/" in fr.filename:
            return f"{type(e).__name__}@{os.path.basename(fr.filename)}:{fr.name}"
    return f"{type(e).__name__}@?"


_QUIET = False


def _quiet() -> None:
    global _QUIET
    if not _QUIET:
        import logging

        logging.disable(logging.CRITICAL)
        _QUIET = True


class _Rng:
    """Deterministic stand-in for spsdk.crypto.rng.random_bytes (owned nondeterminism, DESIGN 1.2)."""

    def __init__(self) -> None:
        self.i = 0
        self.seed = 0

    def reset(self, seed: int) -> None:
        self.i = 0
        self.seed = seed

    def __call__(self, n: int) -> bytes:
        self.i += 1
        return core.seeded_bytes(self.seed, f"rng{self.i}", n)


_RNG = _Rng()
_RNG_BOUND = False


def own_rng(seed: int) -> _Rng:
    """Route every random_bytes name the three modules use to the deterministic generator."""
    global _RNG_BOUND
    if not _RNG_BOUND:
        import spsdk.crypto.rng as rng
        import spsdk.image.bee as bee
        import spsdk.utils.crypto.iee as iee
        import spsdk.utils.crypto.otfad as otfad
        import spsdk.utils.misc as misc

        for m in (rng, bee, iee, otfad, misc):
            if hasattr(m, "random_bytes"):
                setattr(m, "random_bytes", _RNG)
        _RNG_BOUND = True
    _RNG.reset(seed)
    return _RNG


def pat(seed: int, tag: str, n: int, kind: str = "seed") -> bytes:
    if kind == "seed":
        return core.seeded_bytes(seed, tag, n)
    if kind == "ones":
        return b"\xff" * n
    if kind == "zero":
        return bytes(n)
    if kind == "inc":
        return bytes(range(n))
    if kind == "hi-ones":  # high half all ones, low half seeded
        return b"\xff" * (n // 2) + core.seeded_bytes(seed, tag, n - n // 2)
    raise core.HarnessError(f"unknown pattern {kind}")


# ---------------------------------------------------------------------------------------------
# calibration of the hardware models on the repository's golden files (run in the parent, cheap)


def calibrate() -> dict:
    import yaml

    from vf.ref import bee_hw, iee_hw, otfad_hw

    repo = core.REPO
    done = {"otfad": 0, "iee": 0, "bee": 0}

    def need(cond: bool, what: str) -> None:
        if not cond:
            raise core.HarnessError(f"hardware model calibration failed on golden data: {what}")

    def rd(p: str) -> bytes:
        with open(os.path.join(repo, p), "rb") as f:
            return f.read()

    def val(x: Any) -> int:
        return int(x, 0) if isinstance(x, str) else int(x)

    # RFC 3394 vector 4.1 and CRC check value, XTS vector (IEEE 1619 vector 1: zero keys, zero data)
    need(otfad_hw.rfc3394_unwrap(bytes(range(16)), bytes.fromhex("1FA68B0A8112B447AEF34BD8FB5A7B829D3E862371D2CFE5"))
         == bytes.fromhex("00112233445566778899AABBCCDDEEFF"), "RFC 3394 4.1")
    need(otfad_hw.crc32_mpeg2(b"123456789") == 0x0376E6E7 == iee_hw.crc32_mpeg2(b"123456789"), "CRC-32/MPEG-2 check value")
    need(iee_hw.Xts(bytes(16), bytes(16)).enc_block(0, 0, bytes(16)) + iee_hw.Xts(bytes(16), bytes(16)).enc_block(0, 1, bytes(16))
         == bytes.fromhex("917cf69ebd68b2ec9b9fe9a3eadda692cd43d2f59598ed858c02c2652fbf922e"), "IEEE 1619 vector 1")

    # OTFAD unit-test golden: key blob + byte-swapped image
    d = "tests/utils/crypto/data/"
    kek = bytes.fromhex("50F66BB4F23B855DCD8FEFC0DA59E963")
    ctx = otfad_hw.unwrap_table(rd(d + "otfad_keyblob.bin"), kek, count=1)
    need(ctx[0] is not None and ctx[0].key == bytes.fromhex("B1A0C56AF31E98CD6936A79D9E6F829D")
         and ctx[0].ctr == bytes.fromhex("5689fab8b4bfb264") and ctx[0].first == 0x08001000 and ctx[0].last == 0x0800F3FF
         and ctx[0].flags == 3, "otfad_keyblob.bin")
    plain = rd(d + "boot_image.bin")
    plain += bytes(-len(plain) % 512)
    need(otfad_hw.OtfadHw(ctx, byte_swap=True).read(rd(d + "otfad_image.bin"), 0x08001000) == plain, "otfad_image.bin")
    done["otfad"] += 2
    # OTFAD nxpimage goldens (table + image in one file); database facts per family stated here
    n = "tests/nxpimage/data/otfad/"
    fam = {"rt116x": (0, False), "rt117x": (0, False), "mimxrt1189": (8, True), "rt1010": (0, False)}
    for cfgn, outn in [("otfad_rt1160.yaml", "otfad_rt1160_out.bin"), ("otfad_rt1170.yaml", "otfad_rt1170_out.bin"),
                       ("otfad_rt1180.yaml", "otfad_rt1180_out.bin"),
                       ("otfad_rt1180_no_encryption.yaml", "otfad_rt1180_no_encryption_out.bin"),
                       ("otfad_rt1180_scramble.yaml", "otfad_rt1180_scramble_out.bin"),
                       ("otfad_rt1170_scramble.yaml", "otfad_rt1170_scramble_out.bin"),
                       ("otfad_rt1010_scramble.yaml", "otfad_rt1010_scramble_out.bin")]:
        cfg = yaml.safe_load(rd(n + cfgn))
        out = rd(n + outn)
        swap_cnt, rev = fam[cfg["family"]]
        kp = os.path.join(repo, n, str(cfg["kek"]))
        if os.path.exists(kp):
            kek = rd(n + cfg["kek"])
            if kp.endswith(".txt"):
                kek = bytes.fromhex(kek.decode().strip())
        else:
            kek = bytes.fromhex(str(cfg["kek"]).replace("0x", ""))
        sm = sa = None
        if "key_scramble" in cfg:
            sm, sa = val(cfg["key_scramble"]["key_scramble_mask"]), val(cfg["key_scramble"]["key_scramble_align"])
        ta = val(cfg["otfad_table_address"])
        ctx = otfad_hw.unwrap_table(out[:256], kek, 4, swap_cnt, sm, sa, rev)
        need(all(c is not None and c.crc_ok for c in ctx), f"{outn}: key blob table")
        for c, k in zip(ctx, cfg["key_blobs"]):
            need(c.key == val(k["aes_key"]).to_bytes(16, "big") and c.ctr == val(k["aes_ctr"]).to_bytes(8, "big")
                 and c.first == val(k["start_address"]) and c.last == (val(k["end_address"]) - 1) | 0x3FF, f"{outn}: fields")
        got = otfad_hw.OtfadHw(ctx).read(out, ta)
        for db in cfg.get("data_blobs", []):
            p, a = rd(n + db["data"]), val(db["address"])
            need(got[a - ta: a - ta + len(p)] == p, f"{outn}: data blob")
        done["otfad"] += 1

    # IEE
    k1 = bytes(range(32))
    k2 = bytes(range(32, 64))
    tab = iee_hw.decrypt_table(rd(d + "iee_keyblobs.bin"), k1, k2, 0x30000000)
    need(tab == rd(d + "iee_keyblobs_plain.bin"), "iee_keyblobs.bin")
    ictx = iee_hw.parse_plain_table(tab)
    need(ictx[0].tagged and ictx[0].crc_ok and (ictx[0].start, ictx[0].end) == (0x30001000, 0x30008000), "iee key blob fields")
    p, e = rd(d + "iee_plain_image.bin"), rd(d + "iee_encrypted_image.bin")
    r, amb = iee_hw.IeeHw(ictx).read(e, 0x30001000)
    need(r[:len(p)] == p and not amb, "iee_encrypted_image.bin")
    done["iee"] += 2
    n = "tests/nxpimage/data/iee/"
    p = rd(n + "evkmimxrt1170_iled_blinky_cm7_QSPI_FLASH_bootable_nopadding.bin")
    for case in ("aes_xts512", "aes_xts256", "aes_ctr256", "aes_ctr128"):
        cfg = yaml.safe_load(rd(n + case + "/iee_config.yaml"))
        tab = iee_hw.decrypt_table(rd(n + case + "/iee_keyblobs.bin"), bytes.fromhex(cfg["ibkek1"][2:]),
                                   bytes.fromhex(cfg["ibkek2"][2:]), val(cfg["keyblob_address"]))
        ictx = iee_hw.parse_plain_table(tab)
        kb = cfg["key_blobs"][0]
        c = ictx[0]
        need(c.tagged and c.crc_ok and c.key1[:c.k1_len].hex() == kb["key1"][2:].lower()
             and c.key2[:c.k2_len].hex() == kb["key2"][2:].lower(), f"iee {case}: key blob")
        r, amb = iee_hw.IeeHw(ictx).read(rd(n + case + "/evkmimxrt1170_iled_blinky_cm7_QSPI_FLASH_nopadding.bin"), 0x30001000)
        need(r[:len(p)] == p and not amb, f"iee {case}: image")
        done["iee"] += 1
    case = "aes_xts512_multiple"
    cfg = yaml.safe_load(rd(n + case + "/iee_config.yaml"))
    tab = iee_hw.decrypt_table(rd(n + case + "/iee_keyblob.bin"), bytes.fromhex(cfg["ibkek1"][2:]),
                               bytes.fromhex(cfg["ibkek2"][2:]), val(cfg["keyblob_address"]))
    ictx = iee_hw.parse_plain_table(tab)
    r, amb = iee_hw.IeeHw(ictx).read(rd(n + case + "/encrypted_blobs.bin"), 0x30000400)
    for db in cfg["data_blobs"]:
        if "address" in db:
            q, a = rd(n + case + "/" + db["data"]), val(db["address"])
            need(r[a - 0x30000400: a - 0x30000400 + len(q)] == q, f"iee {case}: blob {a:#x}")
    done["iee"] += 1

    # BEE: headers + image produced by NXP's image_enc tool
    n = "tests/nxpimage/data/bee/"
    key = bytes.fromhex("0123456789abcdeffedcba9876543210")
    engs = [bee_hw.load_header(i, rd(n + f"both_engines_ctr/bee_ehdr{i}.bin"), key) for i in (0, 1)]
    need(all(e is not None and e.tag_ok and e.version == bee_hw.VERSION and e.mode == 1 for e in engs), "bee_ehdr*.bin")
    need([(f.start, f.end) for e in engs for f in e.facs] == [(0x60001000, 0x60002000), (0x60002000, 0x60003000)], "bee FACs")
    p = rd(n + "evkbimxrt1050_iled_blinky_ext_FLASH_unencrypted_nopadding.bin")
    e = rd(n + "both_engines_ctr/evkbimxrt1050_iled_blinky_ext_FLASH_bootable_nopadding.bin")
    r, uns = bee_hw.BeeHw(engs).read(e, 0x60001000)
    need(r == p and not uns and e[:0x2000] != p[:0x2000] and e[0x2000:] == p[0x2000:], "bee golden image")
    done["bee"] += 2
    return done


# ---------------------------------------------------------------------------------------------
# generic judging of an exported image against a hardware model


def judge_blocks(rd: bytes, img: bytes, L: int, classify, skip: Any = ()) -> list:
    """One record per distinct (clause, disc) over all 16-byte blocks where the engine's read differs
    from the plaintext; `classify(offset) -> (clause, disc, detail)`."""
    if len(rd) >= L and rd[:L] == img:
        return []
    skipset = set(skip)
    seen: dict = {}
    for o in range(0, L, 16):
        if o in skipset:
            continue
        m = min(16, L - o)
        if rd[o:o + m] != img[o:o + m]:
            clause, disc, detail = classify(o)
            if (clause, disc) not in seen:
                seen[(clause, disc)] = (clause, disc, detail)
                if len(seen) >= 8:
                    break
    return list(seen.values())


def cut_pieces(base: int, L: int, piece: int) -> list[tuple[int, int]]:
    """[pos, nxt) slices of the image cut at absolute multiples of `piece`."""
    out = []
    pos = 0
    while pos < L:
        nxt = min(L, ((base + pos) // piece + 1) * piece - base)
        out.append((pos, nxt))
        pos = nxt
    return out


def perms_of(k: int) -> list[list[int]]:
    """The non-identity orders in which k configured regions are listed: every permutation for k <= 3,
    reversed + one rotation for k = 4.  perm[i] = canonical (ascending) index of the i-th listed region."""
    if k <= 1:
        return []
    if k <= 3:
        return [list(p) for p in itertools.permutations(range(k))][1:]
    return [list(range(k))[::-1], list(range(1, k)) + [0]]


def other_order(case: dict, key: str = "regs") -> Optional[dict]:
    """The same configuration listed in another order (ascending if this one is permuted, reversed
    otherwise); None for a single region.  Used when a case is refused: a refusal must not depend on
    the order in which non-overlapping regions are listed."""
    k = len(case[key])
    if k < 2:
        return None
    alt = {a: b for a, b in case.items() if a != "perm"}
    if not case.get("perm"):
        alt["perm"] = list(range(k))[::-1]
    return alt


D_ORDER = "refused-only-in-this-order-of-the-regions"


def reorder(items: Any, perm: Any) -> list:
    return [items[p] for p in perm] if perm else list(items)


def judge_history(eng: str, what: str, first: bytes, later: bytes, L: Optional[int] = None) -> list:
    """A later export on the same object must equal the first one (on the first L bytes when random
    trailing padding is allowed)."""
    a, b = (first, later) if L is None else (first[:L], later[:L])
    if a == b and len(first) == len(later):
        return []
    o = next((i for i in range(min(len(a), len(b))) if a[i] != b[i]), min(len(a), len(b)))
    return [(f"C13.{eng}-history", f"{what}:later-call-differs-from-first",
             f"{what}: second result differs from the first at offset {o:#x}; lengths {len(first)} vs {len(later)}")]


# ---------------------------------------------------------------------------------------------
# OTFAD

OTFAD_WIN = {"mid": 0x08001000, "low": 0, "top": None}
KEK_PATTERNS = ("seed", "inc", "ones", "zero")
D_ENDPLUS1 = "end_addr-itself-counted-inside-the-blob(exclusive-end-convention)"


def otfad_geom(case: dict) -> tuple[int, int]:
    """(A0, base) of a case."""
    n = n_units(case["off"], case["L"], U_OTFAD)
    a0 = OTFAD_WIN[case["win"]]
    if a0 is None:
        a0 = (1 << 32) - (n + 2) * U_OTFAD
    return a0, a0 + case["off"]


def otfad_cfg(hwm: Any, case: dict, a0: int) -> list:
    seed = case["seed"]
    cfg = []
    for idx, (gi, gj, fl) in enumerate(case["regs"]):
        s, e = a0 + gi * U_OTFAD, a0 + gj * U_OTFAD - 1
        cfg.append(hwm.Context(idx, pat(seed, f"key{idx}", 16, case.get("key", "seed")),
                               pat(seed, f"ctr{idx}", 8, case.get("ctr", "seed")), s, (e & ~7) | fl, bytes(4), 0, True))
    if case.get("perm"):  # listed in another order: same key per region, table index = position in the list
        cfg = [dataclasses.replace(cfg[p], index=i) for i, p in enumerate(case["perm"])]
    return cfg


def otfad_judge_image(hwm: Any, cfg: list, swap: bool, endc: int, img: bytes, base: int, enc: bytes, encrypt, pieces: Any,
                      cnt: dict, walk_len: Optional[int] = None) -> list:
    """Clauses read / length / locality for one plaintext located at `base`.
    `encrypt(data, addr)` runs the real code for the locality pieces.  `walk_len` = length of the data
    as the unit walk sees it (the config level pads to 16 first); only used for the discriminator."""
    from spsdk.exceptions import SPSDKError

    L = len(img)
    WL = L if walk_len is None else walk_len
    viol: list = []
    hw = hwm.OtfadHw(cfg, byte_swap=swap)

    def region_of(a: int) -> int:
        c = hw.lookup(a)
        return -1 if c is None else c.index if c.decrypts else -2 - c.index

    def endplus1(o: int) -> bool:
        """The chunk (1 KiB counted from the base) holding offset o starts or ends exactly on the
        `end_addr` value handed to KeyBlob in the exclusive convention (= last address + 1)."""
        if not endc:
            return False
        c0 = base + (o // U_OTFAD) * U_OTFAD
        c1 = min(c0 + U_OTFAD, base + WL) - 1
        blk = (base + o) & ~15  # the defect only ever touches the 16-byte block that starts at end_addr
        return any(c.last + 1 == blk and blk in (c0, c1) for c in cfg if c.decrypts)

    def ctx_of(o: int) -> str:
        return D_ENDPLUS1 if endplus1(o) else chunk_ctx(o, base, WL, U_OTFAD, region_of)

    if not (L <= len(enc) <= -(-L // 16) * 16):
        viol.append(("C13.otfad-length", ("grown," if len(enc) > L else "shrunk,") + ctx_of(max(L - 1, 0)), f"in {L} out {len(enc)}"))
    rd = hw.read(enc, base)

    def classify(o: int) -> tuple:
        m = min(16, L - o)
        if endplus1(o):
            disc = D_ENDPLUS1
        else:
            inside = hw.decrypts_at(base + o)
            kind = ("inside:left-plain" if enc[o:o + m] == img[o:o + m] else "inside:garbled") if inside else "outside:modified"
            disc = f"{kind},{chunk_ctx(o, base, WL, U_OTFAD, region_of)}"
        return ("C13.otfad-read", disc,
                f"first wrong block at image offset {o:#x} (address {base + o:#x}); blobs "
                f"{[(hex(c.first), hex(c.last + endc), c.flags) for c in cfg]} base {base:#x} len {L} swap {swap}")

    viol += judge_blocks(rd, img, L, classify)
    for piece in pieces:
        try:
            cat = bytearray()
            for pos, nxt in cut_pieces(base, L, piece):
                cat += encrypt(img[pos:nxt], base + pos)
        except SPSDKError:
            cnt["otfad_piece_rejected"] = cnt.get("otfad_piece_rejected", 0) + 1
            continue
        except Exception as e:  # noqa
            viol.append(("C13.otfad-crash", exc_site(e) + ",piece", f"{type(e).__name__}: {e}"))
            continue
        o = first_diff_block(bytes(cat), enc, L)
        if o is not None or len(cat) != len(enc):
            oo = o if o is not None else max(L - 1, 0)
            viol.append(("C13.otfad-locality", ctx_of(oo),
                         f"whole != concatenation of {piece}-byte pieces at image offset {o}; lengths {len(enc)} vs {len(cat)}; "
                         f"base {base:#x} len {L} blobs {[(hex(c.first), hex(c.last + endc), c.flags) for c in cfg]}"))
    return viol


def otfad_table_judge(hwm: Any, table: bytes, cfg: list, kek: bytes, swap_cnt: int, mask: Optional[int],
                      align: Optional[int], rev: bool, records: Optional[int] = None, zero_fill: Optional[bytes] = bytes(4)) -> list:
    """Clause keyblob: the exported table unwraps (own un-swap, own un-scramble, own RFC 3394) to the
    configured fields.  `records` = number of 64-byte records the table must hold (default len(cfg));
    records beyond the configured ones must unwrap to an invalid (VLD=0) context."""
    viol = []
    records = len(cfg) if records is None else records
    if len(table) % 256 or len(table) < 64 * records:
        viol.append(("C13.otfad-keyblob", "table-size", f"{len(table)} bytes for {records} records"))
        return viol
    got = hwm.unwrap_table(table, kek, records, swap_cnt, mask, align, rev)
    for c, g in zip(cfg, got):
        rec = table[64 * c.index: 64 * c.index + 64]
        if g is None:
            viol.append(("C13.otfad-keyblob", "unwrap-integrity", f"blob {c.index}: RFC 3394 integrity value wrong"))
            continue
        bad = [nm for nm, a, b in (("key", g.key, c.key), ("ctr", g.ctr, c.ctr), ("start", g.first, c.first),
                                   ("end", g.last, c.last), ("flags", g.flags, c.flags),
                                   ("srtaddr-low-bits", g.srtaddr & 0x3FF, 0), ("endaddr-bits9..3", g.endaddr & 0x3F8, 0x3F8),
                                   ("crc", g.crc_ok, True), ("filler", rec[48:], bytes(16)),
                                   ("zero_fill", g.zero if zero_fill is not None else None, zero_fill)) if a != b]
        if bad:
            viol.append(("C13.otfad-keyblob", "field:" + "+".join(bad),
                         f"blob {c.index}: unwrapped start {g.srtaddr:#x} end {g.endaddr:#x} crc_ok {g.crc_ok}; configured "
                         f"{c.first:#x}..{c.last:#x} flags {c.flags}"))
    for g in got[len(cfg):]:
        if g is None:
            viol.append(("C13.otfad-keyblob", "unwrap-integrity,filler-record", "unused record does not unwrap"))
        elif g.valid or not g.crc_ok:
            viol.append(("C13.otfad-keyblob", "filler-record-valid-or-bad-crc", f"unused record: endaddr {g.endaddr:#x} crc_ok {g.crc_ok}"))
    if table[64 * records:] != bytes(len(table) - 64 * records):
        viol.append(("C13.otfad-keyblob", "table-padding", "non-zero bytes after the last record"))
    return viol


def otfad_plain_table_judge(hwm: Any, plain: bytes, cfg: list, zero_fill: Optional[bytes] = bytes(4)) -> list:
    """get_key_blobs(): the un-wrapped table (64-byte records, 40 meaningful bytes) holds the configured fields."""
    viol = []
    if len(plain) % 256 or len(plain) < 64 * len(cfg):
        return [("C13.otfad-keyblob", "plain-table-size", f"{len(plain)} bytes for {len(cfg)} records")]
    for c in cfg:
        rec = plain[64 * c.index: 64 * c.index + 64]
        g = hwm.parse_plain_record(c.index, rec[:40])
        bad = [nm for nm, a, b in (("key", g.key, c.key), ("ctr", g.ctr, c.ctr), ("start", g.first, c.first), ("end", g.last, c.last),
                                   ("flags", g.flags, c.flags), ("crc", g.crc_ok, True), ("filler", rec[40:], bytes(24)),
                                   ("zero_fill", g.zero if zero_fill is not None else None, zero_fill)) if a != b]
        if bad:
            viol.append(("C13.otfad-keyblob", "plain:field:" + "+".join(bad), f"blob {c.index}: {rec[:40].hex()}"))
    return viol


def w_otfad_img(case: dict) -> dict:
    """Otfad.encrypt_image / encrypt_key_blobs on explicit key blobs."""
    _quiet()
    from spsdk.exceptions import SPSDKError
    from spsdk.utils.crypto.otfad import KeyBlob, Otfad

    from vf.ref import otfad_hw as hwm

    seed, L, swap, endc = case["seed"], case["L"], bool(case["swap"]), case["endc"]
    a0, base = otfad_geom(case)
    img = core.seeded_bytes(seed, f"img{L}", L)
    kek = pat(seed, "kek", 16)
    cnt: dict = {}
    cfg = otfad_cfg(hwm, case, a0)
    self_chosen = bool(case.get("self", 0))
    own_rng(seed)

    def build(cf: list) -> Any:
        o = Otfad()
        for c in cf:
            if self_chosen:  # key, counter and zero_fill drawn by the library (owned generator)
                o.add_key_blob(KeyBlob(c.first, c.last + endc, key_flags=c.flags))
            else:
                o.add_key_blob(KeyBlob(c.first, c.last + endc, key=c.key, counter_iv=c.ctr, key_flags=c.flags,
                                       zero_fill=bytes(4)))
        return o

    pre: list = []
    try:
        otfad = build(cfg)
        enc = otfad.encrypt_image(img, base, swap)
        table = otfad.encrypt_key_blobs(kek)
        plain_before = None if (self_chosen or L > 16) else otfad.get_key_blobs()
    except SPSDKError as e:
        alt = other_order(case)
        if alt is not None and not self_chosen:
            try:
                ao = build(otfad_cfg(hwm, alt, a0))
                ao.encrypt_image(img, base, swap)
                ao.encrypt_key_blobs(kek)
                pre.append(("C13.otfad-order", D_ORDER, f"perm {case.get('perm')}: {e}; accepted with perm {alt.get('perm')}"))
            except Exception:  # noqa
                pass
        return {"viol": pre, "count": {"otfad_img_rejected": 1, f"rejected:otfad:{str(e)[:40]}": 1}}
    except Exception as e:  # noqa
        return {"viol": [("C13.otfad-crash", exc_site(e), f"{type(e).__name__}: {e}")], "count": {"otfad_img": 1}}
    # history on one object: a second call gives the same image and table, key blobs unchanged
    # (second image on the option diagonal swap = end convention = 0 and wherever 16-byte pieces are asked, to bound the cost)
    try:
        if case.get("pieces") or not (swap or endc or case.get("perm") or case.get("ctr", "seed") != "seed"):
            pre += judge_history("otfad", "Otfad.encrypt_image", enc, otfad.encrypt_image(img, base, swap))
        if not self_chosen and L <= 16:  # the tables do not depend on the image: re-exported for the shortest images only
            pre += judge_history("otfad", "Otfad.encrypt_key_blobs", table, otfad.encrypt_key_blobs(kek))
            pre += judge_history("otfad", "Otfad.get_key_blobs", plain_before, otfad.get_key_blobs())
    except SPSDKError as e:
        pre.append(("C13.otfad-history", "second-call-rejected", str(e)))
    except Exception as e:  # noqa
        pre.append(("C13.otfad-crash", exc_site(e) + ",second-call", f"{type(e).__name__}: {e}"))
    if self_chosen:
        # the engine holds what it unwraps from the exported table: take key/counter from there,
        # keep the configured geometry and flags (they are compared by the key-blob clause below)
        got = hwm.unwrap_table(table, kek, len(cfg))
        if any(g is None for g in got):
            return {"viol": [("C13.otfad-keyblob", "unwrap-integrity", "self-chosen keys: table does not unwrap")],
                    "count": {"otfad_img": 1}}
        cfg = [hwm.Context(c.index, g.key, g.ctr, c.srtaddr, c.endaddr, g.zero, 0, True) for c, g in zip(cfg, got)]
        if len({g.key for g in got}) != len(got) or len({g.ctr for g in got}) != len(got):
            return {"viol": [("C13.otfad-keyblob", "self-chosen-keys-repeat", "two blobs drew the same key/counter")],
                    "count": {"otfad_img": 1}}
    viol = pre + otfad_judge_image(hwm, cfg, swap, endc, img, base, enc, lambda d, a: otfad.encrypt_image(d, a, swap),
                                   case.get("pieces", (U_OTFAD,)), cnt)
    # key blobs of this configuration (default transport options; the option product is in w_otfad_kb)
    viol += otfad_table_judge(hwm, table, cfg, kek, 0, None, None, False, zero_fill=None if self_chosen else bytes(4))
    try:
        viol += otfad_plain_table_judge(hwm, otfad.get_key_blobs(), cfg, zero_fill=None if self_chosen else bytes(4))
    except SPSDKError:
        cnt["rejected:otfad:get_key_blobs"] = 1
    except Exception as e:  # noqa
        viol.append(("C13.otfad-crash", exc_site(e) + ",get_key_blobs", f"{type(e).__name__}: {e}"))
    cnt["otfad_img"] = 1
    if L > 0 and any(c.valid and c.first < base + L and c.last >= base for c in cfg):
        cnt["nontrivial"] = 1
    return {"viol": core.dedupe(viol), "count": cnt}


def w_otfad_kb(case: dict) -> dict:
    """Otfad.encrypt_key_blobs over the transport options: KEK x scramble x reversed x byte-swap count."""
    _quiet()
    from spsdk.exceptions import SPSDKError
    from spsdk.utils.crypto.otfad import KeyBlob, Otfad

    from vf.ref import otfad_hw as hwm

    kek = pat(case["seed"], "kek", 16, case["kek"])
    mask, align = case["scr"] if case["scr"] else (None, None)
    cfg = otfad_cfg(hwm, case, case["a0"])
    try:
        o = Otfad(reversed_scramble_key=bool(case["rev"]))
        for c in cfg:
            o.add_key_blob(KeyBlob(c.first, c.last + case["endc"], key=c.key, counter_iv=c.ctr, key_flags=c.flags,
                                   zero_fill=bytes(4)))
        table = o.encrypt_key_blobs(kek, mask, align, case["swapcnt"])
    except SPSDKError as e:
        return {"viol": [], "count": {"otfad_kb_rejected": 1, f"rejected:otfad-kb:{str(e)[:40]}": 1}}
    except Exception as e:  # noqa
        return {"viol": [("C13.otfad-crash", exc_site(e), f"{type(e).__name__}: {e}")], "count": {"otfad_kb": 1}}
    viol = otfad_table_judge(hwm, table, cfg, kek, case["swapcnt"], mask, align, bool(case["rev"]))
    try:  # history on one object: the second export gives the same table (one byte-swap count is enough)
        if case["swapcnt"] == 0:
            viol += judge_history("otfad", "Otfad.encrypt_key_blobs", table, o.encrypt_key_blobs(kek, mask, align, 0))
    except Exception as e:  # noqa
        viol.append(("C13.otfad-history", "second-call-raised", f"{type(e).__name__}: {e}"))
    return {"viol": core.dedupe(viol), "count": {"otfad_kb": 1, "nontrivial": 1}}


def w_otfad_blobapi(case: dict) -> dict:
    """KeyBlob.encrypt_image(base_address, data, byte_swap) called the way the SB2.1 `encrypt` command
    calls it (no counter_value): the result must be what the engine deciphers at base_address."""
    _quiet()
    from spsdk.exceptions import SPSDKError
    from spsdk.utils.crypto.otfad import KeyBlob

    from vf.ref import otfad_hw as hwm

    seed, L, swap, endc = case["seed"], case["L"], bool(case["swap"]), case["endc"]
    a0 = OTFAD_WIN[case["win"]] or 0xFFFFE000
    base = a0 + case["off"]
    img = core.seeded_bytes(seed, f"img{L}", L)
    cfg = otfad_cfg(hwm, case, a0)
    c = cfg[0]
    try:
        kb = KeyBlob(c.first, c.last + endc, key=c.key, counter_iv=c.ctr, key_flags=c.flags, zero_fill=bytes(4))
        enc = kb.encrypt_image(base, img, swap)
    except SPSDKError as e:
        return {"viol": [], "count": {"otfad_blobapi_rejected": 1, f"rejected:otfad-blobapi:{str(e)[:40]}": 1}}
    except Exception as e:  # noqa
        return {"viol": [("C13.otfad-crash", exc_site(e) + ",KeyBlob.encrypt_image", f"{type(e).__name__}: {e}")], "count": {}}
    viol = []
    try:  # history on one object: the second call gives the same bytes
        viol += judge_history("otfad", "KeyBlob.encrypt_image", enc, kb.encrypt_image(base, img, swap))
    except Exception as e:  # noqa
        viol.append(("C13.otfad-history", "second-call-raised", f"{type(e).__name__}: {e}"))
    if not (L <= len(enc) <= -(-L // 16) * 16):
        viol.append(("C13.otfad-blob-encrypt", "length", f"in {L} out {len(enc)}"))
    rd = hwm.OtfadHw(cfg, byte_swap=swap).read(enc, base)
    o = first_diff_block(rd, img, L)
    if o is not None:
        as_if_at_start = hwm.OtfadHw(cfg, byte_swap=swap).read(enc, c.first)[:L] == img
        viol.append(("C13.otfad-blob-encrypt",
                     "counter-taken-from-blob-start-instead-of-base_address" if as_if_at_start else "wrong-bytes",
                     f"KeyBlob({c.first:#x}..{c.last + endc:#x}).encrypt_image({base:#x}, {L} bytes, swap={swap}): first wrong block "
                     f"at offset {o:#x}; deciphers correctly only if placed at the blob start: {as_if_at_start}"))
    return {"viol": viol, "count": {"otfad_blobapi": 1, "nontrivial": 1 if L else 0}}


def otfad_blobapi_cases(ctx: core.Ctx) -> list[dict]:
    cases = []
    for win in ("mid", "low", "top"):
        for L in LENGTHS:
            for uo in (0, 1, 3):  # unit in which the data start, inside a blob of 8 units
                for off in (0, 16, U_OTFAD - 16):
                    for swap in (0, 1):
                        for endc in (0, 1):
                            cases.append({"e": "otfad-blobapi", "seed": ctx.seed, "L": L, "off": uo * U_OTFAD + off, "win": win,
                                          "regs": [[0, 8, 3]], "swap": swap, "endc": endc})
    return cases


def otfad_img_cases(ctx: core.Ctx) -> list[dict]:
    thorough = ctx.tier == "thorough"
    cases = []
    d7 = (0, 1, 2, 4, 5, 6, 7)
    for L in (LENGTHS + [3072, 8192]) if thorough else QUICK_LENGTHS:
        for off in (0, 16, U_OTFAD - 16):
            n = n_units(off, L, U_OTFAD)
            full_chains = thorough and L in LENGTHS
            heavy = (not thorough) and L >= 2048  # quick: the most expensive lengths get the inner grid for pairs too
            lays = grid_layouts(-2, n + 2, pairs=True, chains=(3, 4), chain_lo=None if full_chains else -1,
                                chain_hi=None if full_chains else n + 1, pair_lo=-1 if heavy else None,
                                pair_hi=n + 1 if heavy else None)
            for lay in lays:
                k = len(lay)
                # (flags, swap, endc, ctr, order) combinations
                combos = []
                if k == 1:
                    if thorough:
                        combos = [((f,), sw, ec, ct, 0) for f in range(8) for sw in (0, 1) for ec in (0, 1) for ct in ("seed", "ones")]
                    else:  # quick: full option product on the default flags, the diagonal on the other flag values
                        combos = [((3,), sw, ec, ct, 0) for sw in (0, 1) for ec in (0, 1) for ct in ("seed", "ones")
                                  if not heavy or ct == "seed" or sw == ec]
                        combos += [((f,), sw, sw, "seed", 0) for f in (0, 1, 2, 4, 5, 6, 7) for sw in ((0,) if heavy else (0, 1))]
                    combos += [((3,), sw, 0, "self", 0) for sw in (0, 1)]
                elif k == 2:
                    combos = [((3, 3), sw, ec, "seed", 0) for sw in (0, 1) for ec in (0, 1) if thorough or sw == ec or L <= 2048]
                    if thorough and L not in LENGTHS:
                        pass  # extra lengths: geometry x swap x end convention only
                    elif thorough:
                        combos += [((3, 3), sw, ec, "seed", 1) for sw in (0, 1) for ec in (0, 1)]
                        combos += [(fs, sw, ec, "seed", 0) for fs in [(f, 3) for f in d7] + [(3, f) for f in d7]
                                   for sw in (0, 1) for ec in (0, 1)]
                        combos += [((3, 3), 0, ec, "ones", 0) for ec in (0, 1)]
                    else:
                        if L not in (0, 15):  # quick: the flag departures on pairs are skipped for two of the five sub-block lengths
                            combos += [(fs, 0, 0, "seed", 0) for fs in ((1, 3), (3, 2))]
                        combos += [((3, 3), 0, 0, "seed", 1)]  # the other order of the two blobs
                else:
                    alt = tuple([3, 1] * 2)[:k]
                    combos = [(tuple([3] * k), sw, ec, "seed", 0) for sw in (0, 1) for ec in (0, 1) if not heavy or sw == ec]
                    combos += [(alt, 0, 0, "seed", 0)]
                    # every other order of the chain (all permutations of 3, reversed + rotated for 4)
                    if not heavy or off == 16:
                        combos += [(tuple([3] * k), 0, ec, "seed", pi + 1) for pi in range(len(perms_of(k)))
                                   for ec in ((0, 1) if thorough else (0,))]
                for fs, sw, ec, ct, order in combos:
                    regs = [[i, j, f] for (i, j), f in zip(lay, fs)]
                    c = {"e": "otfad-img", "seed": ctx.seed, "L": L, "off": off, "win": "mid", "regs": regs,
                         "swap": sw, "endc": ec, "ctr": ct}
                    if order:
                        c["perm"] = perms_of(k)[order - 1]
                    if heavy and (sw or ec):
                        c["pieces"] = []  # quick, longest image: locality only on the option diagonal swap = end convention = 0
                    if ct == "self":
                        c.update(ctr="seed", self=1)
                    if thorough and L <= 2048 and k <= 2 and fs == tuple([3] * k) and ct == "seed" and not order:
                        c["pieces"] = (U_OTFAD, 16)
                    cases.append(c)
    # address windows at both ends of the 32-bit space (address word carry, clipping)
    for win in ("low", "top"):
        for L in (LENGTHS if thorough else (1, 17, 1025, 4097)):
            for off in (0, 16, U_OTFAD - 16):
                n = n_units(off, L, U_OTFAD)
                lo = 0 if win == "low" else -2
                for lay in grid_layouts(lo, n + 2, pairs=thorough, chains=()):
                    for swap in (0, 1):
                        for endc in (0, 1):
                            for ctr in (("seed", "ones") if (thorough or L < 4096) else ("seed",)):
                                cases.append({"e": "otfad-img", "seed": ctx.seed, "L": L, "off": off, "win": win,
                                              "regs": [[i, j, 3] for i, j in lay], "swap": swap, "endc": endc, "ctr": ctr})
    return cases


SCRAMBLES = [None, (0x12345678, 0x00), (0x12345678, 0x72), (0x80000001, 0xE4), (0xFFFFFFFF, 0x1B), (0x00000000, 0xFF),
             (0xA5A5F00F, 0x39)]


def otfad_kb_cases(ctx: core.Ctx) -> list[dict]:
    thorough = ctx.tier == "thorough"
    cases = []
    lays = grid_layouts(0, 3, pairs=True, chains=(3,)) + [((0, 1), (2, 3), (4, 6), (7, 8)), ((0, 1), (1, 2), (2, 3), (3, 4))]
    for a0 in (0x08001000, 0, 0xFFFFE000):
        for lay in lays:
            flagsets = [(f,) for f in range(8)] if len(lay) == 1 else [tuple([3] * len(lay)),
                                                                       tuple((i * 3 + 1) & 7 for i in range(len(lay)))]
            for fs in flagsets:
                regs = [[i, j, f] for (i, j), f in zip(lay, fs)]
                for kek in KEK_PATTERNS if thorough else KEK_PATTERNS[:2] if a0 == 0x08001000 else KEK_PATTERNS[:1]:
                    for scr in (SCRAMBLES if thorough else SCRAMBLES[:4]):
                        for rev in ((0, 1) if scr else (0,)):
                            for swapcnt in (0, 2, 4, 8, 16):
                                for endc in ((0, 1) if (thorough or scr is None or swapcnt == 0) else (swapcnt // 2 % 2,)):
                                    for keyp in (("seed", "ones", "zero") if thorough and len(lay) == 1 else ("seed",)):
                                        cases.append({"e": "otfad-kb", "seed": ctx.seed, "a0": a0, "regs": regs, "kek": kek,
                                                      "scr": scr, "rev": rev, "swapcnt": swapcnt, "endc": endc, "key": keyp,
                                                      "ctr": keyp})
                # every other order of the blobs in the table (the scramble word selector goes by table position)
                for perm in perms_of(len(lay)):
                    for scr in (None, (0x12345678, 0x72), (0x80000001, 0xE4)):
                        for rev in ((0, 1) if scr else (0,)):
                            for swapcnt in (0, 8):
                                cases.append({"e": "otfad-kb", "seed": ctx.seed, "a0": a0, "regs": regs, "perm": perm, "kek": "seed",
                                              "scr": scr, "rev": rev, "swapcnt": swapcnt, "endc": 0, "key": "seed", "ctr": "seed"})
    return cases


# ---------------------------------------------------------------------------------------------
# IEE

IEE_LENGTHS = LENGTHS + [8193]
IEE_LENGTHS_THOROUGH = LENGTHS + [8192, 8193, 12288, 12289, 16385]
IEE_WIN = {"mid": 0x30002000, "low": 0, "high": 0xFFFF0000}
# label -> (aesMode tag, claimed by the property?)
IEE_MODES = {"XTS": 0xA6, "CTRA": 0x66, "BYP": 0x6A, "CTRN": 0xAA, "KSTR": 0x19}
IEE_MODE_LABEL = {"XTS": "AesXTS", "CTRA": "AesCTRWAddress", "BYP": "Bypass", "CTRN": "AesCTRWOAddress", "KSTR": "AesCTRkeystream"}
IEE_KS = {128: (0x5A, "CTR128XTS256"), 256: (0xA5, "CTR256XTS512")}
IEE_CLAIMED = [("XTS", 128), ("XTS", 256), ("CTRA", 128), ("CTRA", 256), ("BYP", 128), ("BYP", 256)]
IEE_CRASH_ONLY = [("CTRN", 128), ("CTRN", 256), ("KSTR", 128), ("KSTR", 256)]


def iee_key_lengths(mode: str, ks: int) -> tuple[int, int]:
    k1 = 16 if ks == 128 else 32
    k2 = 16 if mode in ("CTRA", "CTRN", "KSTR") else k1
    return k1, k2


def iee_cfg(hwm: Any, case: dict, a0: int) -> list:
    seed = case["seed"]
    cfg = []
    for idx, (gi, gj, mode, ks) in enumerate(case["regs"]):
        k1n, k2n = iee_key_lengths(mode, ks)
        key1 = pat(seed, f"ikey1-{idx}", k1n)
        k2p = case.get("k2", "low0")
        if mode in ("CTRA", "CTRN", "KSTR"):
            # key2 = initial counter, stored as four little-endian words; low counter word = last stored word
            key2 = {"low0": pat(seed, f"ictr-{idx}", 12) + bytes(4), "seed": pat(seed, f"ictr-{idx}", 16),
                    "ones": b"\xff" * 16, "lowmax": pat(seed, f"ictr-{idx}", 12) + b"\xff" * 4,
                    # the low counter word passes 2^32 in the MIDDLE of the region's first 4 KiB unit (2 KiB after its start)
                    "lowwrap": pat(seed, f"ictr-{idx}", 12) + ((-((a0 + gi * U_IEE) >> 4) - 128) & 0xFFFFFFFF).to_bytes(4, "little")}[k2p]
        else:
            key2 = pat(seed, f"ikey2-{idx}", k2n)
        lock = hwm.LOCK if case.get("lock", 0) else hwm.UNLOCK
        cfg.append(hwm.Context(idx, hwm.HEADER_TAG, hwm.VERSION, lock, IEE_KS[ks][0], IEE_MODES[mode], 0,
                               case.get("po", 0), key1 + bytes(32 - k1n), key2 + bytes(32 - k2n),
                               a0 + gi * U_IEE, a0 + gj * U_IEE, 0, 0, True))
    if case.get("perm"):  # listed in another order: same keys per region, record index = position in the list
        cfg = [dataclasses.replace(cfg[p], index=i) for i, p in enumerate(case["perm"])]
    return cfg


def iee_modes(case: dict) -> list:
    return reorder([(m, ks) for _, _, m, ks in case["regs"]], case.get("perm"))


def iee_build(cfg: list, modes: list, self_chosen: bool = False) -> Any:
    from spsdk.utils.crypto.iee import (
        Iee,
        IeeKeyBlob,
        IeeKeyBlobAttribute,
        IeeKeyBlobKeyAttributes,
        IeeKeyBlobLockAttributes,
        IeeKeyBlobModeAttributes,
    )

    iee = Iee()
    for c, (mode, ks) in zip(cfg, modes):
        k1n, k2n = iee_key_lengths(mode, ks)
        attr = IeeKeyBlobAttribute(IeeKeyBlobLockAttributes.from_tag(c.lock), IeeKeyBlobKeyAttributes.from_label(IEE_KS[ks][1]),
                                   IeeKeyBlobModeAttributes.from_label(IEE_MODE_LABEL[mode]))
        if self_chosen:
            iee.add_key_blob(IeeKeyBlob(attr, c.start, c.end, page_offset=c.page_offset))
        else:
            iee.add_key_blob(IeeKeyBlob(attr, c.start, c.end, key1=c.key1[:k1n], key2=c.key2[:k2n], page_offset=c.page_offset))
    return iee


def iee_judge_image(hwm: Any, cfg: list, modes: list, img: bytes, base: int, enc: bytes, encrypt, pieces: Any, cnt: dict) -> list:
    from spsdk.exceptions import SPSDKError

    L = len(img)
    viol: list = []
    hw = hwm.IeeHw(cfg)
    label = {c.index: f"{m}{ks}" for c, (m, ks) in zip(cfg, modes)}
    if not (L <= len(enc) <= -(-L // 16) * 16):
        viol.append(("C13.iee-length", "grown" if len(enc) > L else "shrunk", f"in {L} out {len(enc)}"))
    rd, amb = hw.read(enc, base)
    if amb:
        cnt["iee_blocks_without_claim_or_carry"] = len(amb)

    def classify(o: int) -> tuple:
        m = min(16, L - o)
        c = hw.lookup(base + o)
        det = (f"first wrong block at image offset {o:#x} (address {base + o:#x}); blobs "
               f"{[(hex(x.start), hex(x.end), label[x.index]) for x in cfg]} base {base:#x} len {L}")
        if c is None:
            return ("C13.iee-read", "outside:modified", det)
        if c.aes_mode == hwm.MODE_BYPASS:
            return ("C13.iee-bypass", "bypass-region-data-modified", det)
        kind = "left-plain" if enc[o:o + m] == img[o:o + m] else "garbled"
        tail = ",last-unit-partial" if (base + L) - ((base + o) & ~(U_IEE - 1)) < U_IEE else ""
        return ("C13.iee-read", f"inside:{kind},{label[c.index][:-3]}{tail}", det)

    viol += judge_blocks(rd, img, L, classify, skip=amb)
    for piece in pieces:
        try:
            cat = bytearray()
            for pos, nxt in cut_pieces(base, L, piece):
                cat += encrypt(img[pos:nxt], base + pos)
        except SPSDKError:
            cnt["iee_piece_rejected"] = cnt.get("iee_piece_rejected", 0) + 1
            continue
        except Exception as e:  # noqa
            viol.append(("C13.iee-crash", exc_site(e) + ",piece", f"{type(e).__name__}: {e}"))
            continue
        o = first_diff_block(bytes(cat), enc, L)
        if o is not None or len(cat) != len(enc):
            c = hw.lookup(base + (o or 0))
            viol.append(("C13.iee-locality", f"piece={piece},{label[c.index][:-3] if c else 'outside'}",
                         f"whole != concatenation of pieces at image offset {o}; lengths {len(enc)} vs {len(cat)}"))
    return viol


def iee_table_judge(hwm: Any, plain: Optional[bytes], enc: Optional[bytes], cfg: list, k1: bytes, k2: bytes, addr: int) -> list:
    viol = []
    tables = []
    if enc is not None:
        if len(enc) != hwm.TABLE:
            return [("C13.iee-keyblob", "table-size", f"encrypted table {len(enc)} bytes")]
        tables.append(("encrypted", hwm.decrypt_table(enc, k1, k2, addr)))
    if plain is not None:
        if len(plain) != hwm.TABLE:
            return [("C13.iee-keyblob", "table-size", f"plain table {len(plain)} bytes")]
        tables.append(("plain", plain))
    for nm, tab in tables:
        got = hwm.parse_plain_table(tab)
        for c, g in zip(cfg, got):
            bad = [f for f, a, b in (("header", g.header, c.header), ("version", g.version, c.version), ("lock", g.lock, c.lock),
                                     ("keySize", g.key_size, c.key_size), ("aesMode", g.aes_mode, c.aes_mode),
                                     ("attr-reserved", g.attr_reserved, 0), ("pageOffset", g.page_offset, c.page_offset),
                                     ("key1", g.key1, c.key1), ("key2", g.key2, c.key2), ("start", g.start, c.start),
                                     ("end", g.end, c.end), ("reserved", g.reserved, 0), ("crc", g.crc_ok, True)) if a != b]
            if bad:
                viol.append(("C13.iee-keyblob", f"{nm}:field:" + "+".join(bad),
                             f"blob {c.index}: got start {g.start:#x} end {g.end:#x} mode {g.aes_mode:#x} crc_ok {g.crc_ok}"))
        rest = tab[hwm.RECORD * len(cfg):]
        if rest != bytes(len(rest)):
            viol.append(("C13.iee-keyblob", f"{nm}:unused-records-not-zero", ""))
    return viol


def w_iee_img(case: dict) -> dict:
    """Iee.encrypt_image / get_key_blobs / encrypt_key_blobs on explicit key blobs."""
    _quiet()
    from spsdk.exceptions import SPSDKError

    from vf.ref import iee_hw as hwm

    seed, L = case["seed"], case["L"]
    a0 = IEE_WIN[case["win"]]
    base = a0
    img = core.seeded_bytes(seed, f"img{L}", L)
    modes = iee_modes(case)
    cfg = iee_cfg(hwm, case, a0)
    k1, k2 = pat(seed, "ibkek1", 32), pat(seed, "ibkek2", 32)
    kaddr = case.get("kaddr", 0x30000000)
    cnt: dict = {"iee_img": 1}
    viol: list = []
    self_chosen = bool(case.get("self", 0))
    own_rng(seed)

    def refused(e: Exception) -> list:
        alt = other_order(case)
        if alt is None or self_chosen:
            return []
        try:
            iee_build(iee_cfg(hwm, alt, a0), iee_modes(alt)).encrypt_image(img, base)
        except Exception:  # noqa
            return []
        return [("C13.iee-order", D_ORDER, f"perm {case.get('perm')}: {e}; accepted with perm {alt.get('perm')}")]

    try:
        iee = iee_build(cfg, modes, self_chosen)
    except SPSDKError as e:
        return {"viol": refused(e), "count": {"iee_img_rejected": 1, f"rejected:iee:{str(e)[:40]}": 1}}
    except Exception as e:  # noqa
        return {"viol": [("C13.iee-crash", exc_site(e) + ",ctor", f"{type(e).__name__}: {e}")], "count": cnt}
    # key blobs (independent of the image clause)
    plain_tab = enc_tab = None
    try:
        plain_tab, enc_tab = iee.get_key_blobs(), iee.encrypt_key_blobs(k1, k2, kaddr)
        if self_chosen:
            # the engine holds what the ROM loads from the exported table: keys from there, configured geometry/modes
            got = hwm.parse_plain_table(hwm.decrypt_table(enc_tab, k1, k2, kaddr)) if len(enc_tab) == hwm.TABLE else []
            if len(got) < len(cfg):
                return {"viol": [("C13.iee-keyblob", "table-size", f"{len(enc_tab)}")], "count": cnt}
            for c, g, (m, ks) in zip(cfg, got, modes):
                k1n, k2n = iee_key_lengths(m, ks)
                if g.key1[k1n:] != bytes(32 - k1n) or g.key2[k2n:] != bytes(32 - k2n) or g.key1[:k1n] == bytes(k1n):
                    viol.append(("C13.iee-keyblob", "self-chosen-key-length", f"blob {c.index}: key1 {g.key1.hex()} key2 {g.key2.hex()}"))
                c.key1, c.key2 = g.key1, g.key2
        viol += iee_table_judge(hwm, plain_tab, enc_tab, cfg, k1, k2, kaddr)
    except SPSDKError as e:
        cnt[f"rejected:iee-kb:{str(e)[:40]}"] = 1
    except Exception as e:  # noqa
        viol.append(("C13.iee-crash", exc_site(e) + ",keyblobs", f"{type(e).__name__}: {e}"))
    try:
        enc = iee.encrypt_image(img, base)
    except SPSDKError as e:
        cnt["iee_img_rejected"] = 1
        cnt[f"rejected:iee:{str(e)[:40]}"] = 1
        return {"viol": core.dedupe(viol + refused(e)), "count": cnt}
    except Exception as e:  # noqa
        hit = [f"{m}{ks}" for c, (m, ks) in zip(cfg, modes) if c.start < base + max(L, 1) and c.end > base]
        carry = any(m in ("CTRA", "CTRN", "KSTR") and
                    int.from_bytes(hwm.words_be(c.key2[:16])[12:], "big") + ((min(c.end, base + L) - 1) >> 4) >= 1 << 32
                    for c, (m, ks) in zip(cfg, modes) if c.start < base + max(L, 1) and c.end > base)
        viol.append(("C13.iee-crash", exc_site(e) + (",counter-low-word-carry" if carry else ""),
                     f"{type(e).__name__}: {e}; blobs hit {hit}; base {base:#x} len {L}"))
        return {"viol": core.dedupe(viol), "count": cnt}
    # history on one object: a second call gives the same image and tables
    try:
        viol += judge_history("iee", "Iee.encrypt_image", enc, iee.encrypt_image(img, base))
        if not self_chosen and plain_tab is not None and L <= 16:
            viol += judge_history("iee", "Iee.get_key_blobs", plain_tab, iee.get_key_blobs())
            viol += judge_history("iee", "Iee.encrypt_key_blobs", enc_tab, iee.encrypt_key_blobs(k1, k2, kaddr))
    except SPSDKError as e:
        viol.append(("C13.iee-history", "second-call-rejected", str(e)))
    except Exception as e:  # noqa
        viol.append(("C13.iee-crash", exc_site(e) + ",second-call", f"{type(e).__name__}: {e}"))
    viol += iee_judge_image(hwm, cfg, modes, img, base, enc, lambda d, a: iee.encrypt_image(d, a),
                            case.get("pieces", (U_IEE,)), cnt)
    if L > 0 and any(c.start < base + L and c.end > base for c in cfg):
        cnt["nontrivial"] = 1
    return {"viol": core.dedupe(viol), "count": cnt}


def w_iee_kb(case: dict) -> dict:
    """Key-blob export over KEK patterns x key-blob address x lock x page offset x modes."""
    _quiet()
    from spsdk.exceptions import SPSDKError

    from vf.ref import iee_hw as hwm

    seed = case["seed"]
    modes = iee_modes(case)
    cfg = iee_cfg(hwm, case, case["a0"])
    k1, k2 = pat(seed, "ibkek1", 32, case["kek"]), pat(seed, "ibkek2", 32, "seed" if case["kek"] != "seed" else "inc")
    try:
        iee = iee_build(cfg, modes)
        plain, enc = iee.get_key_blobs(), iee.encrypt_key_blobs(k1, k2, case["kaddr"])
    except SPSDKError as e:
        return {"viol": [], "count": {"iee_kb_rejected": 1, f"rejected:iee-kb:{str(e)[:40]}": 1}}
    except Exception as e:  # noqa
        return {"viol": [("C13.iee-crash", exc_site(e) + ",keyblobs", f"{type(e).__name__}: {e}")], "count": {"iee_kb": 1}}
    viol = iee_table_judge(hwm, plain, enc, cfg, k1, k2, case["kaddr"])
    try:  # history on one object: the second export gives the same tables (one key-blob address is enough)
        if case["kaddr"] == 0x30000000:
            viol += judge_history("iee", "Iee.get_key_blobs", plain, iee.get_key_blobs())
            viol += judge_history("iee", "Iee.encrypt_key_blobs", enc, iee.encrypt_key_blobs(k1, k2, case["kaddr"]))
    except Exception as e:  # noqa
        viol.append(("C13.iee-history", "second-call-raised", f"{type(e).__name__}: {e}"))
    return {"viol": core.dedupe(viol), "count": {"iee_kb": 1, "nontrivial": 1}}


def w_iee_blobapi(case: dict) -> dict:
    """IeeKeyBlob.encrypt_image(base_address, data) on data spanning several 4 KiB units (the per-blob API the
    unit tests use): the result must be what the engine deciphers at base_address."""
    _quiet()
    from spsdk.exceptions import SPSDKError

    from vf.ref import iee_hw as hwm

    seed, L = case["seed"], case["L"]
    a0 = IEE_WIN[case["win"]]
    base = a0 + case["uoff"] * U_IEE
    img = core.seeded_bytes(seed, f"img{L}", L)
    modes = iee_modes(case)
    cfg = iee_cfg(hwm, case, a0)
    cnt: dict = {"iee_blobapi": 1}
    try:
        kb = iee_build(cfg, modes)[0]
        enc = kb.encrypt_image(base, img)
    except SPSDKError as e:
        return {"viol": [], "count": {"iee_blobapi_rejected": 1, f"rejected:iee-blobapi:{str(e)[:40]}": 1}}
    except Exception as e:  # noqa
        c = cfg[0]
        carry = modes[0][0] in ("CTRA", "CTRN", "KSTR") and \
            int.from_bytes(hwm.words_be(c.key2[:16])[12:], "big") + ((base + max(L, 1) - 1) >> 4) >= 1 << 32
        return {"viol": [("C13.iee-crash", exc_site(e) + (",counter-low-word-carry" if carry else ""),
                          f"{type(e).__name__}: {e}; IeeKeyBlob.encrypt_image({base:#x}, {L} bytes) mode {modes[0]}")], "count": cnt}
    viol = iee_judge_image(hwm, cfg, modes, img, base, enc, None, (), cnt)
    try:  # history on one object: the second call gives the same bytes
        viol += judge_history("iee", "IeeKeyBlob.encrypt_image", enc, kb.encrypt_image(base, img))
    except Exception as e:  # noqa
        viol.append(("C13.iee-history", "second-call-raised", f"{type(e).__name__}: {e}"))
    if L:
        cnt["nontrivial"] = 1
    return {"viol": core.dedupe(viol), "count": cnt}


def iee_blobapi_cases(ctx: core.Ctx) -> list[dict]:
    cases = []
    for win in ("mid", "low", "high"):
        for L in IEE_LENGTHS_THOROUGH:
            for uoff in (0, 1, 3):
                for mk in IEE_CLAIMED + IEE_CRASH_ONLY:
                    for k2 in (("low0", "lowmax", "lowwrap") if mk[0] == "CTRA" else ("low0",)):
                        cases.append({"e": "iee-blobapi", "seed": ctx.seed, "L": L, "win": win, "uoff": uoff, "k2": k2,
                                      "regs": [[0, 9, mk[0], mk[1]]]})
    return cases


def iee_img_cases(ctx: core.Ctx) -> list[dict]:
    thorough = ctx.tier == "thorough"
    cases = []
    second = IEE_CLAIMED + [("CTRN", 128), ("KSTR", 256)] if thorough else [("XTS", 256), ("CTRA", 128)]
    for win in ("mid", "low", "high"):
        for L in (IEE_LENGTHS_THOROUGH if thorough else IEE_LENGTHS if win == "mid" else (1, 4097, 8193)):
            n = n_units(0, L, U_IEE)
            lo = 0 if win == "low" else -2
            full = win == "mid" or thorough
            lays = grid_layouts(lo, n + 2, pairs=full, chains=(3, 4) if full else (), chain_lo=None if thorough else max(lo, -1),
                                chain_hi=None if thorough else n + 1, pair_lo=None if thorough else max(lo, -1),
                                pair_hi=None if thorough else n + 1)
            for lay in lays:
                k = len(lay)
                if k == 1:
                    combos = [([mk], k2) for mk in IEE_CLAIMED for k2 in (("low0", "seed", "lowmax", "ones", "lowwrap") if mk[0] == "CTRA" else ("low0",))]
                    combos += [([mk], k2) for mk in IEE_CRASH_ONLY for k2 in (("low0", "ones") if thorough or L < 8192 else ("low0",))]
                    combos += [([mk], "self") for mk in IEE_CLAIMED]
                elif k == 2:
                    combos = [([m1, m2], "low0") for mi, m1 in enumerate(IEE_CLAIMED) for si, m2 in enumerate(second)
                              if thorough or mi < 2 or (mi + si) % 2 == 0]
                    if thorough:
                        combos += [([m2, m1], "low0") for m1 in IEE_CRASH_ONLY for m2 in IEE_CLAIMED[:4]]
                else:
                    rot = IEE_CLAIMED[:4] + [("BYP", 256)]
                    combos = [([rot[(i + s) % len(rot)] for i in range(k)], "low0") for s in range(len(rot))]
                # every other order of the listed blobs (all permutations up to 3, reversed + rotated for 4)
                ordered = []
                if k == 2:
                    ordered = [(ms, k2, [1, 0]) for ci, (ms, k2) in enumerate(combos) if ci % (2 if thorough else 4) == 0]
                elif k >= 3:
                    ordered = [(ms, k2, perm) for perm in perms_of(k) for ms, k2 in combos[:2 if thorough else 1]]
                for ms, k2, perm in [(ms, k2, None) for ms, k2 in combos] + ordered:
                    regs = [[i, j, m, ks] for (i, j), (m, ks) in zip(lay, ms)]
                    c = {"e": "iee-img", "seed": ctx.seed, "L": L, "win": win, "regs": regs, "k2": k2}
                    if perm:
                        c["perm"] = perm
                    if k2 == "self":
                        c.update(k2="low0", self=1)
                    if thorough and L >= 8192:
                        c["pieces"] = (U_IEE, 2 * U_IEE)
                    if k2 == "lowwrap":
                        # the 32-bit carry is not modelled by the reader, but the result must not depend on where the
                        # caller cuts the image: pieces smaller than the builder's own 4 KiB chunk
                        c["pieces"] = (U_IEE, 1024, 16) if L <= 8193 else (U_IEE, 1024)
                    cases.append(c)
    return cases


def iee_kb_cases(ctx: core.Ctx) -> list[dict]:
    thorough = ctx.tier == "thorough"
    cases = []
    allm = IEE_CLAIMED + IEE_CRASH_ONLY
    lays = [((0, 1),), ((0, 3),), ((0, 1), (1, 2)), ((0, 2), (3, 4), (4, 7)), ((0, 1), (1, 2), (2, 3), (3, 4))]
    for a0 in (0x30001000, 0, 0xFFFF0000):
        for lay in lays:
            k = len(lay)
            for s in range(len(allm)):
                ms = [allm[(s + 3 * i) % len(allm)] for i in range(k)]
                for lock in (0, 1):
                    for po in (0, 0x1000) if thorough else (0,):
                        for kek in ("seed", "inc", "ones") if thorough else ("seed", "inc"):
                            for kaddr in ((0x30000000, 0x30000400, 0x04000000, 0, 0xFFFFFC00) if thorough else (0x30000000, 0x30000400, 0xFFFFFC00)):
                                for k2 in ("low0", "ones"):
                                    cases.append({"e": "iee-kb", "seed": ctx.seed, "a0": a0, "kaddr": kaddr, "kek": kek, "lock": lock,
                                                  "po": po, "k2": k2,
                                                  "regs": [[i, j, m, ks] for (i, j), (m, ks) in zip(lay, ms)]})
                for perm in perms_of(k):  # every other order of the blobs in the table
                    cases.append({"e": "iee-kb", "seed": ctx.seed, "a0": a0, "kaddr": 0x30000000, "kek": "seed", "lock": 0, "po": 0,
                                  "k2": "low0", "perm": perm, "regs": [[i, j, m, ks] for (i, j), (m, ks) in zip(lay, ms)]})
    return cases


# ---------------------------------------------------------------------------------------------
# BEE

BEE_WIN = {"mid": 0x60001000, "low": 0, "top": None}


def bee_geom(case: dict) -> tuple[int, int]:
    n = n_units(case["off"], case["L"], U_BEE)
    a0 = BEE_WIN[case["win"]]
    if a0 is None:
        a0 = (1 << 32) - (n + 3) * U_BEE  # keeps every FAC end (exclusive) below 2^32
    return a0, a0 + case["off"]


def bee_cfg(hwm: Any, case: dict, a0: int) -> list:
    """Configured engines (None for an unused slot).  facs: [gi, gj, engine, level]."""
    seed = case["seed"]
    engines: list = [None, None]
    for gi, gj, eng, level in reorder(case["facs"], case.get("perm")):  # FACs are added in the listed order
        if engines[eng] is None:
            nonce = pat(seed, f"nonce{eng}", 12, case.get("nonce", "seed")) + bytes(4)
            engines[eng] = hwm.Engine(eng, pat(seed, f"ukey{eng}", 16, case.get("ukey", "seed")), pat(seed, f"kibk{eng}", 16),
                                      pat(seed, f"kibiv{eng}", 16), True, hwm.VERSION, 0, 0xFFFFFFFF, 0,
                                      hwm.MODE_CTR if case.get("mode", "CTR") == "CTR" else hwm.MODE_ECB,
                                      case.get("lockopt", 0), nonce, True)
        e = engines[eng]
        e.facs.append(hwm.Fac(a0 + gi * U_BEE, a0 + gj * U_BEE, level, True))
        e.fac_count = len(e.facs)
        e.start = min(f.start for f in e.facs)
        e.end = max(f.end for f in e.facs)
    return engines


def bee_build(cfg: list, img: bytes, base: int, self_chosen: bool) -> Any:
    from spsdk.image.bee import (
        BeeFacRegion,
        BeeKIB,
        BeeNxp,
        BeeProtectRegionBlock,
        BeeProtectRegionBlockAesMode,
        BeeRegionHeader,
    )

    headers: list = [None, None]
    for e in cfg:
        if e is None:
            continue
        mode = BeeProtectRegionBlockAesMode.from_tag(e.mode)
        if self_chosen:
            prdb = BeeProtectRegionBlock(encr_mode=mode, lock_options=e.lock_options)
            kib = BeeKIB()
        else:
            prdb = BeeProtectRegionBlock(encr_mode=mode, lock_options=e.lock_options, counter=e.nonce)
            kib = BeeKIB(e.kib_key, e.kib_iv)
        hdr = BeeRegionHeader(prdb, e.user_key, kib)
        for f in e.facs:
            hdr.add_fac(BeeFacRegion(f.start, f.end - f.start, f.level))
        headers[e.index] = hdr
    return BeeNxp(headers, img, base)


def bee_header_judge(hwm: Any, cfg: list, hdrs: list, self_chosen: bool) -> tuple[list, list]:
    """Clause keyblob for BEE: EKIB/EPRDB decrypt (own ECB/CBC) to the configured PRDB.  Returns
    (violations, engines as loaded from the exported headers)."""
    viol = []
    loaded: list = [None, None]
    for i, e in enumerate(cfg):
        h = hdrs[i] if i < len(hdrs) else None
        if e is None:
            if h is not None:
                viol.append(("C13.bee-keyblob", "header-for-unused-engine", f"engine {i}"))
            continue
        if h is None or len(h) != hwm.HDR_SIZE:
            viol.append(("C13.bee-keyblob", "header-size", f"engine {i}: {None if h is None else len(h)}"))
            continue
        g = hwm.load_header(i, h, e.user_key)
        loaded[i] = g
        checks = [("tag", g.tag_ok, True), ("version", g.version, hwm.VERSION), ("fac_count", g.fac_count, e.fac_count),
                  ("start", g.start, e.start), ("end", g.end, e.end), ("mode", g.mode, e.mode), ("lock", g.lock_options, e.lock_options),
                  ("nonce-low-word", g.nonce[12:], bytes(4)), ("reserved", g.reserved_zero, True), ("tail", g.tail_zero, True),
                  ("facs", [(f.start, f.end, f.level, f.reserved_zero) for f in g.facs],
                   [(f.start, f.end, f.level, True) for f in e.facs]),
                  ("padding", h[32:hwm.PRDB_OFFSET] + h[hwm.PRDB_OFFSET + hwm.PRDB_SIZE:], bytes(hwm.HDR_SIZE - 32 - hwm.PRDB_SIZE))]
        if not self_chosen:
            checks += [("nonce", g.nonce, e.nonce), ("kib_key", g.kib_key, e.kib_key), ("kib_iv", g.kib_iv, e.kib_iv)]
        bad = [nm for nm, a, b in checks if a != b]
        if bad:
            viol.append(("C13.bee-keyblob", "field:" + "+".join(bad), f"engine {i}: loaded {g}"))
    return viol, loaded


def bee_judge_image(hwm: Any, engines: list, img: bytes, base: int, enc: bytes, encrypt, pieces: Any, cnt: dict) -> list:
    """Clauses read / length / locality for BEE (the walk sees the raw length at every level)."""
    from spsdk.exceptions import SPSDKError

    L = len(img)
    viol: list = []
    hw = hwm.BeeHw(engines)

    def region_of(a: int) -> Any:
        e = hw.lookup(a)
        if e is None:
            return -1
        return (e.index, next(i for i, f in enumerate(e.facs) if f.start <= a < f.end))

    desc = [(e.index, [(hex(f.start), hex(f.end)) for f in e.facs]) for e in engines if e is not None]
    if not (L <= len(enc) <= -(-L // 16) * 16):
        viol.append(("C13.bee-length", "grown" if len(enc) > L else "shrunk", f"in {L} out {len(enc)}"))
    rd, uns = hw.read(enc, base)

    def classify(o: int) -> tuple:
        m = min(16, L - o)
        inside = hw.lookup(base + o) is not None
        kind = ("inside:left-plain" if enc[o:o + m] == img[o:o + m] else "inside:garbled") if inside else "outside:modified"
        return ("C13.bee-read", f"{kind},{chunk_ctx(o, base, L, U_BEE, region_of)}",
                f"first wrong block at image offset {o:#x} (address {base + o:#x}); FACs {desc} base {base:#x} len {L}")

    viol += judge_blocks(rd, img, L, classify, skip=uns)
    for piece in pieces:
        try:
            cat = bytearray()
            for pos, nxt in cut_pieces(base, L, piece):
                cat += encrypt(img[pos:nxt], base + pos)
        except SPSDKError:
            cnt["bee_piece_rejected"] = cnt.get("bee_piece_rejected", 0) + 1
            continue
        except Exception as e:  # noqa
            viol.append(("C13.bee-crash", exc_site(e) + ",piece", f"{type(e).__name__}: {e}"))
            continue
        o = first_diff_block(bytes(cat), enc, L)
        if o is not None or len(cat) != len(enc):
            oo = o if o is not None else max(L - 1, 0)
            viol.append(("C13.bee-locality", chunk_ctx(oo, base, L, U_BEE, region_of),
                         f"whole != concatenation of {piece}-byte pieces at image offset {o}; lengths {len(enc)} vs {len(cat)}; FACs {desc} "
                         f"base {base:#x} len {L}"))
    return viol


def w_bee_img(case: dict) -> dict:
    """BeeNxp.export_image / export_headers on explicit region headers."""
    _quiet()
    from spsdk.exceptions import SPSDKError
    from spsdk.image.bee import BeeNxp

    from vf.ref import bee_hw as hwm

    seed, L = case["seed"], case["L"]
    own_rng(seed)
    a0, base = bee_geom(case)
    img = core.seeded_bytes(seed, f"img{L}", L)
    self_chosen = bool(case.get("self", 0))
    cfg = bee_cfg(hwm, case, a0)
    cnt: dict = {"bee_img": 1}
    viol: list = []

    def order_verdict(e: Exception) -> list:
        alt = other_order(case, "facs")
        if alt is None or self_chosen:
            return []
        try:
            ab = bee_build(bee_cfg(hwm, alt, a0), img, base, False)
            ab.export_headers()
            ab.export_image()
        except Exception:  # noqa
            return []
        return [("C13.bee-order", D_ORDER, f"perm {case.get('perm')}: {e}; accepted with perm {alt.get('perm')}")]

    try:
        bee = bee_build(cfg, img, base, self_chosen)
        hdrs = bee.export_headers()
    except SPSDKError as e:
        return {"viol": order_verdict(e), "count": {"bee_img_rejected": 1, f"rejected:bee:{str(e)[:40]}": 1}}
    except Exception as e:  # noqa
        return {"viol": [("C13.bee-crash", exc_site(e) + ",headers", f"{type(e).__name__}: {e}")], "count": cnt}
    hv, loaded = bee_header_judge(hwm, cfg, hdrs, self_chosen)
    viol += hv
    # the engines hold what the ROM loads from the exported headers when keys are self-chosen,
    # the configured values otherwise (so that the header clause and the read clause stay independent)
    engines = loaded if self_chosen else cfg
    if self_chosen and any((c is None) != (g is None) for c, g in zip(cfg, loaded)):
        return {"viol": core.dedupe(viol), "count": cnt}
    try:
        enc = bee.export_image()
    except SPSDKError as e:
        cnt["bee_img_rejected"] = 1
        cnt[f"rejected:bee:{str(e)[:40]}"] = 1
        return {"viol": core.dedupe(viol + order_verdict(e)), "count": cnt}
    except Exception as e:  # noqa
        viol.append(("C13.bee-crash", exc_site(e), f"{type(e).__name__}: {e}"))
        return {"viol": core.dedupe(viol), "count": cnt}
    # history on one object: a second export gives the same image and headers, the input image is untouched
    try:
        viol += judge_history("bee", "BeeNxp.export_image", enc, bee.export_image(), L)
        if not self_chosen and L <= 16:  # the headers do not depend on the image: re-exported for the shortest images only
            for h1, h2 in zip(hdrs, bee.export_headers()):
                viol += judge_history("bee", "BeeNxp.export_headers", h1 or b"", h2 or b"")
        if bytes(bee.input_image) != img:
            viol.append(("C13.bee-history", "input-image-modified", "BeeNxp.input_image changed by export_image"))
    except SPSDKError as e:
        viol.append(("C13.bee-history", "second-call-rejected", str(e)))
    except Exception as e:  # noqa
        viol.append(("C13.bee-crash", exc_site(e) + ",second-call", f"{type(e).__name__}: {e}"))
    viol += bee_judge_image(hwm, engines, img, base, enc, lambda d, a: BeeNxp(bee.headers, d, a).export_image(),
                            case.get("pieces", (U_BEE,)), cnt)
    if L > 0 and any(f.start < base + L and f.end > base for e in cfg if e for f in e.facs):
        cnt["nontrivial"] = 1
    return {"viol": core.dedupe(viol), "count": cnt}


def bee_orders(asg: tuple) -> list[list[int]]:
    """The listing orders of the FAC regions that give another order of add_fac calls on some engine
    (orders that only interleave the two engines differently build the very same objects)."""
    def key(perm: Any) -> tuple:
        return tuple(tuple(p for p in perm if asg[p] == e) for e in (0, 1))

    ident = key(range(len(asg)))
    seen = {ident}
    out = []
    for perm in perms_of(len(asg)):
        if key(perm) not in seen:
            seen.add(key(perm))
            out.append(perm)
    return out


def engine_assignments(k: int) -> list[tuple]:
    return [a for a in itertools.product((0, 1), repeat=k) if a.count(0) <= 3 and a.count(1) <= 3]


def bee_img_cases(ctx: core.Ctx) -> list[dict]:
    thorough = ctx.tier == "thorough"
    cases = []
    for L in (LENGTHS + [3072, 8192]) if thorough else QUICK_LENGTHS:
        for off in (0, 16, U_BEE - 16):
            n = n_units(off, L, U_BEE)
            big = L not in LENGTHS
            lays = grid_layouts(-2, n + 2, pairs=True, chains=(3,) if (big or not thorough) else (3, 4),
                                chain_lo=None if (thorough and not big) else -1, chain_hi=None if (thorough and not big) else n + 1)
            for lay in lays:
                k = len(lay)
                for asg in engine_assignments(k):
                    base_case = {"e": "bee-img", "seed": ctx.seed, "L": L, "off": off, "win": "mid",
                                 "facs": [[i, j, eng, (idx + eng) % 4] for idx, ((i, j), eng) in enumerate(zip(lay, asg))]}
                    variants = [{}]
                    if k == 1:
                        variants += [{"self": 1}, {"nonce": "ones"}, {"nonce": "zero", "lockopt": 0xFFFFFFFF}, {"mode": "ECB"},
                                     {"ukey": "ones"}]
                    elif k == 2 and thorough:
                        variants += [{"self": 1}, {"nonce": "ones"}]
                    if thorough or k == 2 or L < 1023 or off == 16:  # quick: chain orders on one base offset for the longer images
                        variants += [{"perm": perm} for perm in bee_orders(asg)]  # every other order of add_fac per engine
                    for v in variants:
                        c = dict(base_case, **v)
                        if thorough and L <= 2048 and k <= 2 and not v:
                            c["pieces"] = (U_BEE, 16)
                        cases.append(c)
    for win in ("low", "top"):
        for L in (LENGTHS if thorough else (1, 17, 1025, 4097)):
            for off in (0, 16, U_BEE - 16):
                n = n_units(off, L, U_BEE)
                lo = 0 if win == "low" else -2
                for lay in grid_layouts(lo, n + 2, pairs=thorough, chains=()):
                    for asg in engine_assignments(len(lay)):
                        for nonce in ("seed", "ones"):
                            cases.append({"e": "bee-img", "seed": ctx.seed, "L": L, "off": off, "win": win, "nonce": nonce,
                                          "facs": [[i, j, eng, 0] for (i, j), eng in zip(lay, asg)]})
    return cases


# ---------------------------------------------------------------------------------------------
# configuration-file level: OtfadNxp / IeeNxp / BeeNxp .load_from_config -> binary_image / export_image
# (what `nxpimage otfad|iee|bee export` runs after check_config)

# database facts the oracle relies on, per family (read from the device data at design time; the first
# four OTFAD classes are confirmed by the golden tables in calibrate()):
#   OTFAD: (wrapped-blob byte swap count, scramble value bit-reversed, key scrambling supported)
OTFAD_FAM = {
    "mimx9352": (8, False, True), "mimxrt1010": (0, False, True),
    "mimxrt1165": (0, False, True), "mimxrt1166": (0, False, True), "mimxrt1171": (0, False, True),
    "mimxrt1172": (0, False, True), "mimxrt1173": (0, False, True), "mimxrt1175": (0, False, True),
    "mimxrt1176": (0, False, True), "mimxrt1181": (8, True, True), "mimxrt1182": (8, True, True),
    "mimxrt1187": (8, True, True), "mimxrt1189": (8, True, True), "mimxrt533s": (0, False, False),
    "mimxrt555s": (0, False, False), "mimxrt595s": (0, False, False), "mimxrt685s": (0, False, False),
}
OTFAD_REPS = ("mimxrt1176", "mimx9352", "mimxrt1010", "mimxrt1189", "mimxrt595s", "mimxrt685s")
#   IEE: key-blob table generated?
IEE_FAM = {"mimxrt1165": True, "mimxrt1166": True, "mimxrt1171": True, "mimxrt1172": True, "mimxrt1173": True,
           "mimxrt1175": True, "mimxrt1176": True, "mimxrt1181": False, "mimxrt1182": False, "mimxrt1187": False,
           "mimxrt1189": False}
BEE_FAMS = ("mimxrt1015", "mimxrt1020", "mimxrt1024", "mimxrt1040", "mimxrt1043", "mimxrt1046", "mimxrt1050", "mimxrt1060",
            "mimxrt1064")

_TD: Optional[str] = None


def workdir() -> str:
    global _TD
    if _TD is None or not os.path.isdir(_TD):
        import tempfile

        root = os.environ.get("VERIF_WORKDIR") or tempfile.gettempdir()
        os.makedirs(root, exist_ok=True)
        _TD = tempfile.mkdtemp(prefix=f"c13-{os.getpid()}-", dir=root)
    return _TD


def hx(b: bytes) -> str:
    return "0x" + b.hex()


def snapshot(img: Any) -> list:
    """Content of a BinaryImage tree (the stored input of an *Nxp object)."""
    if img is None:
        return []
    out = [(img.name, img.offset, bytes(img.binary) if img.binary is not None else None)]
    for sub in img.sub_images:
        out += snapshot(sub)
    return out


def w_otfad_nxp(case: dict) -> dict:
    _quiet()
    from spsdk.exceptions import SPSDKError
    from spsdk.utils.crypto.otfad import OtfadNxp
    from spsdk.utils.schema_validator import check_config

    from vf.ref import otfad_hw as hwm

    seed, fam, endc = case["seed"], case["fam"], case["endc"]
    own_rng(seed)
    swap_cnt, rev, scr_ok = OTFAD_FAM[fam]
    ta, a0 = 0x08000000, 0x08001000
    td = workdir()
    kek = pat(seed, "kek", 16)
    cfg = otfad_cfg(hwm, case, a0)
    blobs = []
    for i, (off, L) in enumerate(case["blobs"]):
        img = core.seeded_bytes(seed, f"img{L}-{i}", L)
        with open(os.path.join(td, f"d{i}.bin"), "wb") as f:
            f.write(img)
        blobs.append((a0 + off, img))
    conf: dict = {"family": fam, "output_folder": os.path.join(td, "out"), "kek": hx(kek), "otfad_table_address": ta,
                  "data_blobs": [{"data": os.path.join(td, f"d{i}.bin"), "address": hex(a)} for i, (a, _) in enumerate(blobs)],
                  "key_blobs": [{"aes_key": hx(c.key), "aes_ctr": hx(c.ctr), "start_address": hex(c.first),
                                 "end_address": hex(c.last + endc), "aes_decryption_enable": bool(c.flags & 2),
                                 "valid": bool(c.flags & 1), "read_only": bool(c.flags & 4)} for c in cfg]}
    mask = align = None
    if case.get("scr"):
        conf["key_scramble"] = {"key_scramble_mask": hex(case["scr"][0]), "key_scramble_align": hex(case["scr"][1])}
        if scr_ok:
            mask, align = case["scr"]
    cnt: dict = {"otfad_nxp": 1}
    viol: list = []
    swap = bool(case.get("swap"))
    try:
        check_config(conf, OtfadNxp.get_validation_schemas(fam), search_paths=[td])
        o = OtfadNxp.load_from_config(conf, td, [td])
        before = snapshot(o.binaries)
        # history on ONE object: binary_image, export_image, binary_image (binary_image itself calls export_image)
        data = o.binary_image().export()
        part = o.export_image(swap_bytes=swap, table_address=ta)
        part_bytes, part_base = part.export(), ta + part.offset
        data3 = o.binary_image().export()
        after = snapshot(o.binaries)
    except SPSDKError as e:
        alt = other_order(case)
        if alt is not None and not case.get("in_alt"):
            r = w_otfad_nxp(dict(alt, in_alt=1))
            if r["count"].get("otfad_nxp") and not r["count"].get("otfad_nxp_rejected"):
                viol.append(("C13.otfad-order", D_ORDER, f"perm {case.get('perm')}: {e}; accepted with perm {alt.get('perm')}"))
        return {"viol": viol, "count": {"otfad_nxp_rejected": 1, f"rejected:otfad-nxp:{str(e)[:40]}": 1}}
    except Exception as e:  # noqa
        return {"viol": [("C13.otfad-crash", exc_site(e), f"{type(e).__name__}: {e}")], "count": cnt}
    viol += judge_history("otfad", "OtfadNxp.binary_image", data, data3)
    if before != after:
        viol.append(("C13.otfad-history", "stored-input-modified", "OtfadNxp.binaries changed by export_image/binary_image"))
    if not swap and data[part_base - ta: part_base - ta + len(part_bytes)] != part_bytes:
        viol.append(("C13.otfad-history", "export_image-differs-from-binary_image", "same object, same options"))
    mem, mem_base = (part_bytes, part_base) if swap else (data, ta)
    viol += otfad_table_judge(hwm, data[:256], cfg, kek, swap_cnt, mask, align, rev, records=4)
    for addr, img in blobs:
        lo = addr - mem_base
        enc = mem[lo: lo + -(-len(img) // 16) * 16] if 0 <= lo else b""
        viol += otfad_judge_image(hwm, cfg, swap, endc, img, addr, enc, None, (), cnt, walk_len=-(-len(img) // 16) * 16)
    if any(len(img) and any(c.valid and c.first < a + len(img) and c.last >= a for c in cfg) for a, img in blobs):
        cnt["nontrivial"] = 1
    return {"viol": core.dedupe(viol), "count": cnt}


def w_iee_nxp(case: dict) -> dict:
    _quiet()
    from spsdk.exceptions import SPSDKError
    from spsdk.utils.crypto.iee import IeeNxp
    from spsdk.utils.schema_validator import check_config

    from vf.ref import iee_hw as hwm

    seed, fam = case["seed"], case["fam"]
    own_rng(seed)
    ka, a0 = 0x30000000, 0x30002000
    td = workdir()
    modes = iee_modes(case)
    cfg = iee_cfg(hwm, case, a0)
    k1, k2 = pat(seed, "ibkek1", 32), pat(seed, "ibkek2", 32)
    blobs = []
    for i, (uoff, L) in enumerate(case["blobs"]):
        img = core.seeded_bytes(seed, f"img{L}-{i}", L)
        with open(os.path.join(td, f"i{i}.bin"), "wb") as f:
            f.write(img)
        blobs.append((a0 + uoff * U_IEE, img))
    kbs = []
    for c, (m, ks) in zip(cfg, modes):
        k1n, k2n = iee_key_lengths(m, ks)
        kbs.append({"region_lock": c.lock == hwm.LOCK, "aes_mode": IEE_MODE_LABEL[m], "key_size": IEE_KS[ks][1], "page_offset": 0,
                    "key1": hx(c.key1[:k1n]), "key2": hx(c.key2[:k2n]), "start_address": hex(c.start), "end_address": hex(c.end)})
    conf: dict = {"family": fam, "output_folder": os.path.join(td, "out"), "keyblob_address": hex(ka),
                  "data_blobs": [{"data": os.path.join(td, f"i{i}.bin"), "address": hex(a)} for i, (a, _) in enumerate(blobs)]}
    if IEE_FAM[fam]:
        conf.update({"ibkek1": hx(k1), "ibkek2": hx(k2), "key_blobs": kbs})
    else:
        conf["key_blob"] = kbs[0]
    cnt: dict = {"iee_nxp": 1}
    viol: list = []
    try:
        check_config(conf, IeeNxp.get_validation_schemas(fam), search_paths=[td])
        o = IeeNxp.load_from_config(conf, td, [td])
        before = snapshot(o.binaries)
        # history on ONE object: binary_image, export_image, binary_image (binary_image itself calls export_image)
        data = o.binary_image().export()
        part = o.export_image()
        part_bytes, part_base = (part.export(), ka + part.offset) if part is not None else (b"", ka)
        data3 = o.binary_image().export()
        after = snapshot(o.binaries)
    except SPSDKError as e:
        alt = other_order(case)
        if alt is not None and not case.get("in_alt"):
            r = w_iee_nxp(dict(alt, in_alt=1))
            if r["count"].get("iee_nxp") and not r["count"].get("iee_nxp_rejected"):
                viol.append(("C13.iee-order", D_ORDER, f"perm {case.get('perm')}: {e}; accepted with perm {alt.get('perm')}"))
        return {"viol": viol, "count": {"iee_nxp_rejected": 1, f"rejected:iee-nxp:{str(e)[:40]}": 1}}
    except Exception as e:  # noqa
        carry = any(m in ("CTRA", "CTRN", "KSTR") and int.from_bytes(hwm.words_be(c.key2[:16])[12:], "big") + (c.end >> 4) >= 1 << 32
                    for c, (m, ks) in zip(cfg, modes))
        return {"viol": [("C13.iee-crash", exc_site(e) + (",counter-low-word-carry" if carry else ""),
                          f"{type(e).__name__}: {e}")], "count": cnt}
    viol += judge_history("iee", "IeeNxp.binary_image", data, data3)
    if before != after:
        viol.append(("C13.iee-history", "stored-input-modified", "IeeNxp.binaries changed by export_image/binary_image"))
    if data[part_base - ka: part_base - ka + len(part_bytes)] != part_bytes:
        viol.append(("C13.iee-history", "export_image-differs-from-binary_image", "same object"))
    if IEE_FAM[fam]:
        viol += iee_table_judge(hwm, None, data[:hwm.TABLE], cfg, k1, k2, ka)
    for addr, img in blobs:
        lo = addr - ka
        enc = data[lo: lo + -(-len(img) // 16) * 16]
        viol += iee_judge_image(hwm, cfg, modes, img, addr, enc, None, (), cnt)
        if data3 != data:  # a later export that differs is judged on its own as well
            viol += [(c, d + ",second-binary_image", t) for c, d, t in
                     iee_judge_image(hwm, cfg, modes, img, addr, data3[lo: lo + -(-len(img) // 16) * 16], None, (), cnt)]
    if any(len(img) and any(c.start < a + len(img) and c.end > a for c in cfg) for a, img in blobs):
        cnt["nontrivial"] = 1
    return {"viol": core.dedupe(viol), "count": cnt}


def bee_nxp_refused(case: dict, e: Exception) -> list:
    alt = other_order(case, "facs")
    if alt is None or case.get("in_alt"):
        return []
    r = w_bee_nxp(dict(alt, in_alt=1, bin=0))
    if r["count"].get("bee_nxp") and not r["count"].get("bee_nxp_rejected"):
        return [("C13.bee-order", D_ORDER, f"perm {case.get('perm')}: {e}; accepted with perm {alt.get('perm')}")]
    return []


def w_bee_nxp(case: dict) -> dict:
    _quiet()
    from spsdk.exceptions import SPSDKError
    from spsdk.image.bee import BeeNxp
    from spsdk.utils.schema_validator import check_config

    from vf.ref import bee_hw as hwm

    seed, L = case["seed"], case["L"]
    own_rng(seed)
    a0, base = bee_geom(case)
    td = workdir()
    img = core.seeded_bytes(seed, f"img{L}", L)
    with open(os.path.join(td, "b.bin"), "wb") as f:
        f.write(img)
    cfg = bee_cfg(hwm, case, a0)
    sel = {(True, False): "engine0", (False, True): "engine1", (True, True): "both"}[(cfg[0] is not None, cfg[1] is not None)]
    engines_conf = []
    for e in cfg:
        if e is None:
            continue
        engines_conf.append({"bee_cfg": {"user_key": hx(e.user_key), "protected_region": [
            {"start_address": hex(f.start), "length": hex(f.end - f.start), "protected_level": f.level} for f in e.facs]}})
    conf: dict = {"output_folder": os.path.join(td, "out"), "input_binary": os.path.join(td, "b.bin"), "engine_selection": sel,
                  "engine_key_selection": "random", "base_address": hex(base), "bee_engine": engines_conf}
    cnt: dict = {"bee_nxp": 1}
    viol: list = []
    try:
        check_config(conf, BeeNxp.get_validation_schemas(), search_paths=[td])
        bee = BeeNxp.load_from_config(conf, [td])
        hdrs = bee.export_headers()
    except SPSDKError as e:
        return {"viol": bee_nxp_refused(case, e), "count": {"bee_nxp_rejected": 1, f"rejected:bee-nxp:{str(e)[:40]}": 1}}
    except Exception as e:  # noqa
        return {"viol": [("C13.bee-crash", exc_site(e), f"{type(e).__name__}: {e}")], "count": cnt}
    hv, loaded = bee_header_judge(hwm, cfg, hdrs, True)
    viol += hv
    if any((c is None) != (g is None) for c, g in zip(cfg, loaded)):
        return {"viol": core.dedupe(viol), "count": cnt}
    try:
        enc = bee.export_image()
    except SPSDKError as e:
        cnt["bee_nxp_rejected"] = 1
        cnt[f"rejected:bee-nxp:{str(e)[:40]}"] = 1
        return {"viol": core.dedupe(viol + bee_nxp_refused(case, e)), "count": cnt}
    except Exception as e:  # noqa
        viol.append(("C13.bee-crash", exc_site(e), f"{type(e).__name__}: {e}"))
        return {"viol": core.dedupe(viol), "count": cnt}
    viol += bee_judge_image(hwm, loaded, img, base, enc, None, (), cnt)
    # history on ONE object: export_headers, export_image, export_image, export_headers
    try:
        viol += judge_history("bee", "BeeNxp.export_image", enc, bee.export_image(), L)
        for h1, h2 in zip(hdrs, bee.export_headers()):
            viol += judge_history("bee", "BeeNxp.export_headers", h1 or b"", h2 or b"")
        if bytes(bee.input_image) != img:
            viol.append(("C13.bee-history", "stored-input-modified", "BeeNxp.input_image changed by export_image"))
    except SPSDKError as e:
        viol.append(("C13.bee-history", "second-call-rejected", str(e)))
    except Exception as e:  # noqa
        viol.append(("C13.bee-crash", exc_site(e) + ",second-call", f"{type(e).__name__}: {e}"))
    if case.get("bin"):
        # second pass: the exported headers fed back as existing binary headers must give the same engines
        try:
            bconf = dict(conf)
            bconf["bee_engine"] = []
            for e in cfg:
                if e is None:
                    continue
                p = os.path.join(td, f"ehdr{e.index}.bin")
                with open(p, "wb") as f:
                    f.write(hdrs[e.index])
                bconf["bee_engine"].append({"bee_binary_cfg": {"header_path": p, "user_key": hx(e.user_key)}})
            check_config(bconf, BeeNxp.get_validation_schemas(), search_paths=[td])
            bee2 = BeeNxp.load_from_config(bconf, [td])
            enc2 = bee2.export_image()
            hv2, loaded2 = bee_header_judge(hwm, cfg, bee2.export_headers(), True)
            viol += [(c, d + ",re-read-binary-header", t) for c, d, t in hv2]
            viol += bee_judge_image(hwm, loaded2, img, base, enc2, None, (), cnt)
        except SPSDKError as e:
            cnt[f"rejected:bee-nxp-bin:{str(e)[:40]}"] = 1
        except Exception as e:  # noqa
            viol.append(("C13.bee-crash", exc_site(e) + ",binary-header-config", f"{type(e).__name__}: {e}"))
    if L > 0 and any(f.start < base + L and f.end > base for e in cfg if e for f in e.facs):
        cnt["nontrivial"] = 1
    return {"viol": core.dedupe(viol), "count": cnt}


def small_layouts(n: int, lo: int = -1) -> list[tuple]:
    """Single ranges on lo..n+1 plus adjacent pairs."""
    return grid_layouts(lo, n + 1, pairs=False, chains=(2,))


def order_layouts(n: int) -> list[tuple]:
    """Layouts with >= 2 ranges on -1..n+1 (every disjoint pair, every 3- and 4-chain): listed in every order."""
    return [lay for lay in grid_layouts(-1, n + 1, pairs=True, chains=(3, 4)) if len(lay) > 1]


def otfad_nxp_cases(ctx: core.Ctx) -> list[dict]:
    thorough = ctx.tier == "thorough"
    cases = []
    b = {"e": "otfad-nxp", "seed": ctx.seed}
    for fam in (OTFAD_REPS if thorough else OTFAD_REPS[:1]):
        for L in ((1, 17, 1025, 2048) if thorough else (1, 17, 1025)):
            for off in (0, 16, U_OTFAD - 16):
                n = n_units(off, L, U_OTFAD)
                for lay in small_layouts(n):
                    for fs in ([7] * len(lay), [5] + [3] * (len(lay) - 1)):
                        for endc, swap in (((0, 0), (0, 1), (1, 0), (1, 1)) if thorough else ((0, 0), (1, 1), (1, 0))):
                            cases.append(dict(b, fam=fam, blobs=[[off, L]], regs=[[i, j, f] for (i, j), f in zip(lay, fs)],
                                              endc=endc, swap=swap, scr=None))
    for fam in sorted(OTFAD_FAM):
        for off in (0, 16):
            for lay in (((0, 2),), ((0, 1),), ((0, 1), (1, 2)), ((0, 1), (1, 2), (2, 3), (3, 4))):
                for si, scr in enumerate((None, (0x12345678, 0x72), (0x80000001, 0x1B))):
                    for endc in ((0, 1) if (thorough or scr is None) else (si % 2,)):
                        cases.append(dict(b, fam=fam, blobs=[[off, 1025]], regs=[[i, j, 7] for i, j in lay], endc=endc, swap=0, scr=scr))
    for lay in small_layouts(4):
        for off2 in (0x800, 0x810, 0xBF0):
            cases.append(dict(b, fam="mimxrt1176", blobs=[[0, 1024], [off2, 1025]], regs=[[i, j, 7] for i, j in lay], endc=1, swap=0, scr=None))
    # every other order of the key_blobs list
    for off in (0, 16):
        for lay in order_layouts(n_units(off, 1025, U_OTFAD)):
            for perm in perms_of(len(lay)):
                for scr in ((None, (0x12345678, 0x72)) if len(lay) == 4 or thorough else (None,)):
                    cases.append(dict(b, fam="mimxrt1176", blobs=[[off, 1025]], regs=[[i, j, 7] for i, j in lay], perm=perm, endc=0,
                                      swap=0, scr=scr))
    return cases


def iee_nxp_cases(ctx: core.Ctx) -> list[dict]:
    thorough = ctx.tier == "thorough"
    cases = []
    b = {"e": "iee-nxp", "seed": ctx.seed}
    for fam in ("mimxrt1176", "mimxrt1189"):
        for L in ((1, 16, 17, 4096, 4097, 8193) if thorough else (1, 17, 4097, 8193)):
            n = n_units(0, L, U_IEE)
            for lay in small_layouts(n):
                if not IEE_FAM[fam] and len(lay) > 1:
                    continue
                sets = [[mk] + [("XTS", 256)] * (len(lay) - 1) for mk in IEE_CLAIMED + IEE_CRASH_ONLY[:2]]
                if len(lay) > 1 and thorough:
                    sets += [[("XTS", 128), mk] for mk in IEE_CLAIMED]
                for ms in sets:
                    for k2 in (("low0", "lowmax") if ms[0][0] == "CTRA" else ("low0",)):
                        cases.append(dict(b, fam=fam, blobs=[[0, L]], regs=[[i, j, m, ks] for (i, j), (m, ks) in zip(lay, ms)], k2=k2))
    for fam in sorted(IEE_FAM):
        for mk in (("XTS", 256), ("CTRA", 128)):
            for lock in (0, 1):
                cases.append(dict(b, fam=fam, blobs=[[0, 4097]], regs=[[0, 1, mk[0], mk[1]]], k2="low0", lock=lock))
    for lay in small_layouts(4):
        cases.append(dict(b, fam="mimxrt1176", blobs=[[0, 4096], [2, 4097]], regs=[[i, j, "XTS", 256] for i, j in lay], k2="low0"))
    # every other order of the key_blobs list
    rot = [("XTS", 256), ("CTRA", 128), ("XTS", 128), ("CTRA", 256)]
    for lay in order_layouts(n_units(0, 4097, U_IEE)):
        for perm in perms_of(len(lay)):
            for s0 in ((0, 1) if thorough else (0,)):
                cases.append(dict(b, fam="mimxrt1176", blobs=[[0, 4097]], perm=perm, k2="low0",
                                  regs=[[i, j, *rot[(idx + s0) % 4]] for idx, (i, j) in enumerate(lay)]))
    return cases


def bee_nxp_cases(ctx: core.Ctx) -> list[dict]:
    thorough = ctx.tier == "thorough"
    cases = []
    b = {"e": "bee-nxp", "seed": ctx.seed, "win": "mid"}
    for L in ((1, 17, 1025, 2048, 4097) if thorough else (17, 1025, 2048)):
        for off in (0, 16, U_BEE - 16):
            n = n_units(off, L, U_BEE)
            for lay in small_layouts(n):
                for asg in engine_assignments(len(lay)):
                    for binh in (0, 1):
                        cases.append(dict(b, L=L, off=off, facs=[[i, j, eng, idx % 4] for idx, ((i, j), eng) in enumerate(zip(lay, asg))],
                                          bin=binh))
    # every other order of the protected_region list of an engine
    for off in (0, 16):
        for lay in order_layouts(n_units(off, 1025, U_BEE)):
            for asg in engine_assignments(len(lay)):
                for perm in bee_orders(asg):
                    cases.append(dict(b, L=1025, off=off, perm=perm, bin=0,
                                      facs=[[i, j, eng, idx % 4] for idx, ((i, j), eng) in enumerate(zip(lay, asg))]))
    return cases


# ---------------------------------------------------------------------------------------------
# call-order histories on the API objects: regions / key blobs added AFTER a first export.
# Alphabet: A = add the next region (FAC / key blob), H = export header / key-blob table, I = encrypt / export image.
# Oracle: every H and I result equals that of a FRESH object that received the same regions first (same listing
# order) and then did only this one call; the last image after all regions are in also passes the hardware read clause.

D_CALLS_IMG = "image-differs-from-a-fresh-object-holding-the-same-regions"
D_CALLS_HDR = "header-or-table-differs-from-a-fresh-object-holding-the-same-regions"
D_CALLS_REF = "call-refused-or-accepted-unlike-a-fresh-object-holding-the-same-regions"


def call_sequences(n_regions: int = 2, max_len: int = 5) -> list[str]:
    """Every sequence over {A, H, I} up to max_len with exactly n_regions A's, at least one export (H or I)
    before the last A and at least one export after it."""
    out = []
    for n in range(n_regions + 2, max_len + 1):
        for t in itertools.product("AHI", repeat=n):
            q = "".join(t)
            if q.count("A") != n_regions or q[-1] == "A":
                continue
            last = q.rindex("A")
            if not any(ch in "HI" for ch in q[:last]):
                continue
            out.append(q)
    return out


def run_calls(eng: str, seq: str, make: Any, n_regions: int, L: int) -> tuple[list, Any, dict]:
    """make(k) -> (add(i), hdr(), img()) closures on a new object that already holds the first k regions.
    Returns (violations, last image produced after all regions were added or None, counters)."""
    from spsdk.exceptions import SPSDKError

    def attempt(fn: Any) -> tuple:
        try:
            return ("ok", fn())
        except SPSDKError as e:
            return ("rej", str(e)[:60])

    viol: list = []
    cnt: dict = {}
    add, hdr, img = make(0)
    added = 0
    final_img = None
    for pos, op in enumerate(seq):
        if op == "A":
            st = attempt(lambda: add(added))
            if st[0] == "rej":
                cnt[f"rejected:{eng}-calls:add:{st[1][:30]}"] = 1
                return viol, None, cnt
            added += 1
            continue
        _, fh, fi = make(added)
        got, exp = attempt(hdr if op == "H" else img), attempt(fh if op == "H" else fi)
        where = f"step {pos} ({op}) of {seq!r} with {added} region(s)"
        if got[0] != exp[0]:
            viol.append((f"C13.{eng}-history", D_CALLS_REF, f"{where}: {got[0]} {got[1] if got[0] == 'rej' else ''} / fresh object: {exp[0]}"))
            continue
        if got[0] == "rej":
            cnt[f"{eng}_calls_step_refused_like_fresh"] = cnt.get(f"{eng}_calls_step_refused_like_fresh", 0) + 1
            continue
        if op == "H":
            if got[1] != exp[1]:
                viol.append((f"C13.{eng}-history", D_CALLS_HDR, where))
        else:
            a, b = got[1], exp[1]
            if a[:L] != b[:L] or len(a) != len(b):
                viol.append((f"C13.{eng}-history", D_CALLS_IMG, f"{where}: first difference at offset {first_diff_block(a, b, L)}"))
            if added == n_regions:
                final_img = a
    return viol, final_img, cnt


def w_bee_calls(case: dict) -> dict:
    """One BeeRegionHeader inside one BeeNxp: add_fac / export_headers / export_image in every order."""
    _quiet()
    from spsdk.image.bee import BeeFacRegion, BeeKIB, BeeNxp, BeeProtectRegionBlock, BeeRegionHeader

    from vf.ref import bee_hw as hwm

    seed, L = case["seed"], case["L"]
    own_rng(seed)
    a0, base = bee_geom(case)
    img = core.seeded_bytes(seed, f"img{L}", L)
    cfg = bee_cfg(hwm, case, a0)
    e = next(x for x in cfg if x is not None)  # all FACs of a case sit on one engine

    def make(k: int) -> tuple:
        hdr = BeeRegionHeader(BeeProtectRegionBlock(counter=e.nonce, lock_options=e.lock_options), e.user_key, BeeKIB(e.kib_key, e.kib_iv))
        for f in e.facs[:k]:
            hdr.add_fac(BeeFacRegion(f.start, f.end - f.start, f.level))
        slots: list = [None, None]
        slots[e.index] = hdr
        bee = BeeNxp(slots, img, base)
        return (lambda i: hdr.add_fac(BeeFacRegion(e.facs[i].start, e.facs[i].end - e.facs[i].start, e.facs[i].level)),
                lambda: bee.export_headers()[e.index], bee.export_image)

    cnt: dict = {"bee_calls": 1, "nontrivial": 1}
    try:
        viol, final_img, c2 = run_calls("bee", case["seq"], make, len(e.facs), L)
    except Exception as ex:  # noqa
        return {"viol": [("C13.bee-crash", exc_site(ex) + ",call-order", f"{type(ex).__name__}: {ex}; seq {case['seq']}")], "count": cnt}
    cnt.update(c2)
    if final_img is not None:
        viol += bee_judge_image(hwm, cfg, img, base, final_img, None, (), cnt)
    return {"viol": core.dedupe(viol), "count": cnt}


def w_otfad_calls(case: dict) -> dict:
    """One Otfad object: add_key_blob / encrypt_key_blobs + get_key_blobs / encrypt_image in every order."""
    _quiet()
    from spsdk.utils.crypto.otfad import KeyBlob, Otfad

    from vf.ref import otfad_hw as hwm

    seed, L, endc = case["seed"], case["L"], case["endc"]
    a0, base = otfad_geom(case)
    img = core.seeded_bytes(seed, f"img{L}", L)
    kek = pat(seed, "kek", 16)
    cfg = otfad_cfg(hwm, case, a0)

    def blob(c: Any) -> Any:
        return KeyBlob(c.first, c.last + endc, key=c.key, counter_iv=c.ctr, key_flags=c.flags, zero_fill=bytes(4))

    def make(k: int) -> tuple:
        o = Otfad()
        for c in cfg[:k]:
            o.add_key_blob(blob(c))
        return (lambda i: o.add_key_blob(blob(cfg[i])), lambda: o.encrypt_key_blobs(kek) + o.get_key_blobs(),
                lambda: o.encrypt_image(img, base, False))

    cnt: dict = {"otfad_calls": 1, "nontrivial": 1}
    try:
        viol, final_img, c2 = run_calls("otfad", case["seq"], make, len(cfg), L)
    except Exception as ex:  # noqa
        return {"viol": [("C13.otfad-crash", exc_site(ex) + ",call-order", f"{type(ex).__name__}: {ex}; seq {case['seq']}")], "count": cnt}
    cnt.update(c2)
    if final_img is not None:
        viol += otfad_judge_image(hwm, cfg, False, endc, img, base, final_img, None, (), cnt)
    return {"viol": core.dedupe(viol), "count": cnt}


def w_iee_calls(case: dict) -> dict:
    """One Iee object: add_key_blob / get_key_blobs + encrypt_key_blobs / encrypt_image in every order."""
    _quiet()
    from vf.ref import iee_hw as hwm

    seed, L = case["seed"], case["L"]
    a0 = IEE_WIN[case["win"]]
    img = core.seeded_bytes(seed, f"img{L}", L)
    modes = iee_modes(case)
    cfg = iee_cfg(hwm, case, a0)
    k1, k2 = pat(seed, "ibkek1", 32), pat(seed, "ibkek2", 32)

    def make(k: int) -> tuple:
        o = iee_build(cfg[:k], modes[:k])
        return (lambda i: o.add_key_blob(iee_build([cfg[i]], [modes[i]])[0]),
                lambda: o.get_key_blobs() + o.encrypt_key_blobs(k1, k2, 0x30000000), lambda: o.encrypt_image(img, a0))

    cnt: dict = {"iee_calls": 1, "nontrivial": 1}
    try:
        viol, final_img, c2 = run_calls("iee", case["seq"], make, len(cfg), L)
    except Exception as ex:  # noqa
        return {"viol": [("C13.iee-crash", exc_site(ex) + ",call-order", f"{type(ex).__name__}: {ex}; seq {case['seq']}")], "count": cnt}
    cnt.update(c2)
    if final_img is not None:
        viol += iee_judge_image(hwm, cfg, modes, img, a0, final_img, None, (), cnt)
    return {"viol": core.dedupe(viol), "count": cnt}


def calls_cases(ctx: core.Ctx) -> list[dict]:
    """Representatives, not products: two region layouts (adjacent, gapped) x both listing orders x every call sequence."""
    thorough = ctx.tier == "thorough"
    seqs = call_sequences(2, 5) + (call_sequences(3, 6) if thorough else [q for q in call_sequences(3, 5)])
    cases = []
    for q in seqs:
        k = q.count("A")
        lays = [[(0, 1), (1, 2)], [(0, 1), (2, 4)]] if k == 2 else [[(0, 1), (1, 2), (3, 4)]]
        for lay in lays:
            for perm in [None] + (perms_of(k) if (thorough or k == 2) else perms_of(k)[:2]):
                extra = {"perm": perm} if perm else {}
                for eng in ((0, 1) if thorough else (0,)):
                    cases.append(dict({"e": "bee-calls", "seed": ctx.seed, "seq": q, "L": 4097, "off": 16, "win": "mid",
                                       "facs": [[i, j, eng, idx % 4] for idx, (i, j) in enumerate(lay)]}, **extra))
                cases.append(dict({"e": "otfad-calls", "seed": ctx.seed, "seq": q, "L": 4097, "off": 16, "win": "mid", "endc": 0,
                                   "regs": [[i, j, 3] for i, j in lay]}, **extra))
                ms = [("XTS", 256), ("CTRA", 128), ("XTS", 128)]
                cases.append(dict({"e": "iee-calls", "seed": ctx.seed, "seq": q, "L": 4 * U_IEE + 1, "win": "mid", "k2": "low0",
                                   "regs": [[i, j, *ms[idx]] for idx, (i, j) in enumerate(lay)]}, **extra))
    return cases


def w_calls(case: dict) -> dict:
    return {"bee-calls": w_bee_calls, "otfad-calls": w_otfad_calls, "iee-calls": w_iee_calls}[case["e"]](case)


# ---------------------------------------------------------------------------------------------
# multi-segment data inputs: a data blob given as S19 / HEX file with 2-3 disjoint segments (IeeNxp.load_from_config,
# address omitted: the file carries the addresses) and nested BinaryImage trees handed to IeeNxp / OtfadNxp through
# the API (blob -> segments).  Oracle as usual: the hardware model reads every segment back at its own address, and the
# export of a segment equals encrypting that piece alone at its address.  (BEE has no segment notion: BeeNxp takes
# one flat input image; OtfadNxp.load_from_config reads a data blob as raw bytes, so OTFAD segments exist at API level only.)


def seg_file(path: str, fmt: str, segs: list) -> None:
    """Write the input file (bincopy is used to *write* the test input only)."""
    import bincopy

    bf = bincopy.BinFile()
    for addr, data in segs:
        bf.add_binary(data, address=addr)
    with open(path, "w", encoding="ascii") as f:
        f.write(bf.as_srec(address_length_bits=32) if fmt == "s19" else bf.as_ihex())


def seg_tree(name: str, segs: list, rel_base: int) -> Any:
    """blob image (offset = first segment - rel_base) holding one sub-image per segment, like a loaded file."""
    from spsdk.utils.images import BinaryImage

    first = min(a for a, _ in segs)
    blob = BinaryImage(name, offset=first - rel_base)
    for i, (a, d) in enumerate(segs):
        blob.add_image(BinaryImage(f"Segment {i}", offset=a - first, binary=d, parent=blob))
    return blob


def w_iee_seg(case: dict) -> dict:
    _quiet()
    from spsdk.exceptions import SPSDKError
    from spsdk.utils.crypto.iee import IeeNxp
    from spsdk.utils.images import BinaryImage
    from spsdk.utils.schema_validator import check_config

    from vf.ref import iee_hw as hwm

    seed, fam, fmt = case["seed"], case["fam"], case["fmt"]
    own_rng(seed)
    ka, a0 = 0x30000000, 0x30002000
    td = workdir()
    modes = iee_modes(case)
    cfg = iee_cfg(hwm, case, a0)
    k1, k2 = pat(seed, "ibkek1", 32), pat(seed, "ibkek2", 32)
    segs = [(a0 + uoff * U_IEE, core.seeded_bytes(seed, f"seg{i}-{L}", L)) for i, (uoff, L) in enumerate(case["segs"])]
    cnt: dict = {"iee_seg": 1}
    viol: list = []
    try:
        if fmt == "api":
            start = min([c.start for c in cfg] + [a for a, _ in segs])
            binaries = BinaryImage("encrypted_blobs", offset=start - ka, alignment=16)
            binaries.add_image(seg_tree("blob0", segs, ka + binaries.offset))
            o = IeeNxp(fam, ka, k1, k2, key_blobs=list(iee_build(cfg, modes)._key_blobs), binaries=binaries)
        else:
            path = os.path.join(td, f"segs.{fmt}")
            seg_file(path, fmt, segs)
            kbs = []
            for c, (m, ks) in zip(cfg, modes):
                k1n, k2n = iee_key_lengths(m, ks)
                kbs.append({"region_lock": False, "aes_mode": IEE_MODE_LABEL[m], "key_size": IEE_KS[ks][1], "page_offset": 0,
                            "key1": hx(c.key1[:k1n]), "key2": hx(c.key2[:k2n]), "start_address": hex(c.start), "end_address": hex(c.end)})
            conf: dict = {"family": fam, "output_folder": os.path.join(td, "out"), "keyblob_address": hex(ka),
                          "data_blobs": [{"data": path}]}
            if IEE_FAM[fam]:
                conf.update({"ibkek1": hx(k1), "ibkek2": hx(k2), "key_blobs": kbs})
            else:
                conf["key_blob"] = kbs[0]
            check_config(conf, IeeNxp.get_validation_schemas(fam), search_paths=[td])
            o = IeeNxp.load_from_config(conf, td, [td])
        data = o.binary_image().export()
    except SPSDKError as e:
        return {"viol": [], "count": {"iee_seg_rejected": 1, f"rejected:iee-seg:{str(e)[:40]}": 1}}
    except Exception as e:  # noqa
        return {"viol": [("C13.iee-crash", exc_site(e) + ",multi-segment-input", f"{type(e).__name__}: {e}")], "count": cnt}
    for i, (addr, img) in enumerate(segs):
        lo = addr - ka
        enc = data[lo: lo + -(-len(img) // 16) * 16]
        viol += [(c, d + ",segment-of-a-multi-segment-blob" if i else d, t + f" [segment {i} of {fmt} input]")
                 for c, d, t in iee_judge_image(hwm, cfg, modes, img, addr, enc, None, (), cnt)]
        try:  # the export of the segment equals encrypting this piece alone at its address
            alone = o.encrypt_image(img, addr)
            if alone[:len(img)] != enc[:len(img)]:
                viol.append(("C13.iee-locality", "segment-export-differs-from-encrypting-the-piece-alone-at-its-address",
                             f"segment {i} at {addr:#x} ({len(img)} bytes) of a {fmt} input with {len(segs)} segments"))
        except SPSDKError:
            cnt["iee_piece_rejected"] = 1
        except Exception as e:  # noqa
            viol.append(("C13.iee-crash", exc_site(e) + ",piece", f"{type(e).__name__}: {e}"))
    if any(c.start < a + len(d) and c.end > a for c in cfg for a, d in segs):
        cnt["nontrivial"] = 1
    return {"viol": core.dedupe(viol), "count": cnt}


def w_otfad_seg(case: dict) -> dict:
    _quiet()
    from spsdk.exceptions import SPSDKError
    from spsdk.utils.crypto.otfad import KeyBlob, OtfadNxp
    from spsdk.utils.images import BinaryImage

    from vf.ref import otfad_hw as hwm

    seed, fam, endc = case["seed"], case["fam"], case["endc"]
    own_rng(seed)
    swap_cnt, rev, _ = OTFAD_FAM[fam]
    ta, a0 = 0x08000000, 0x08001000
    kek = pat(seed, "kek", 16)
    cfg = otfad_cfg(hwm, case, a0)
    segs = [(a0 + off, core.seeded_bytes(seed, f"seg{i}-{L}", L)) for i, (off, L) in enumerate(case["segs"])]
    cnt: dict = {"otfad_seg": 1}
    viol: list = []
    try:
        start = min([c.first for c in cfg] + [a for a, _ in segs])
        binaries = BinaryImage("encrypted_blobs", offset=start - ta)
        binaries.add_image(seg_tree("blob0", segs, ta + binaries.offset))
        o = OtfadNxp(fam, kek, table_address=ta, binaries=binaries,
                     key_blobs=[KeyBlob(c.first, c.last + endc, key=c.key, counter_iv=c.ctr, key_flags=c.flags, zero_fill=bytes(4))
                                for c in cfg])
        data = o.binary_image().export()
    except SPSDKError as e:
        return {"viol": [], "count": {"otfad_seg_rejected": 1, f"rejected:otfad-seg:{str(e)[:40]}": 1}}
    except Exception as e:  # noqa
        return {"viol": [("C13.otfad-crash", exc_site(e) + ",multi-segment-input", f"{type(e).__name__}: {e}")], "count": cnt}
    viol += otfad_table_judge(hwm, data[:256], cfg, kek, swap_cnt, None, None, rev, records=max(4, len(cfg)))
    for i, (addr, img) in enumerate(segs):
        lo = addr - ta
        enc = data[lo: lo + -(-len(img) // 16) * 16]
        viol += [(c, d + ",segment-of-a-multi-segment-blob" if i else d, t + f" [segment {i}]")
                 for c, d, t in otfad_judge_image(hwm, cfg, False, endc, img, addr, enc, None, (), cnt, walk_len=-(-len(img) // 16) * 16)]
        try:
            alone = o.encrypt_image(img + bytes(-len(img) % 16), addr, False)
            if alone[:len(img)] != enc[:len(img)]:
                viol.append(("C13.otfad-locality", "segment-export-differs-from-encrypting-the-piece-alone-at-its-address",
                             f"segment {i} at {addr:#x} ({len(img)} bytes) of {len(segs)} segments"))
        except SPSDKError:
            cnt["otfad_piece_rejected"] = 1
        except Exception as e:  # noqa
            viol.append(("C13.otfad-crash", exc_site(e) + ",piece", f"{type(e).__name__}: {e}"))
    if any(c.valid and c.first < a + len(d) and c.last >= a for c in cfg for a, d in segs):
        cnt["nontrivial"] = 1
    return {"viol": core.dedupe(viol), "count": cnt}


def seg_cases(ctx: core.Ctx) -> list[dict]:
    """Representatives: 2 and 3 disjoint segments (gaps of whole units) x input form x a few region layouts x modes."""
    thorough = ctx.tier == "thorough"
    cases = []
    # IEE: segments in 4 KiB units relative to the first one
    iee_segsets = [[[0, 4096], [2, 2048]], [[0, 17], [1, 4097], [4, 1024]], [[0, 8192], [3, 16]]]
    iee_lays = [((0, 6),), ((0, 2), (2, 6)), ((0, 1), (3, 6)), ((-1, 3),)]
    for fmt in ("s19", "hex", "api"):
        for segs in iee_segsets:
            for lay in iee_lays:
                for mk in (IEE_CLAIMED if thorough else [("XTS", 256), ("CTRA", 128), ("XTS", 128), ("BYP", 128)]):
                    ms = [mk, ("XTS", 256), ("CTRA", 256)]
                    cases.append({"e": "iee-seg", "seed": ctx.seed, "fam": "mimxrt1176", "fmt": fmt, "segs": segs, "k2": "low0",
                                  "regs": [[i, j, *ms[idx]] for idx, (i, j) in enumerate(lay)]})
        cases.append({"e": "iee-seg", "seed": ctx.seed, "fam": "mimxrt1189", "fmt": fmt, "segs": iee_segsets[0], "k2": "low0",
                      "regs": [[0, 6, "XTS", 256]]})
    # OTFAD (API level): segment offsets in bytes from the first one, 16-byte aligned
    otfad_segsets = [[[0, 1024], [0x800, 1025]], [[16, 17], [0x410, 2048], [0x1400, 1024]], [[0x3F0, 2048], [0x1000, 16]]]
    otfad_lays = [((0, 8),), ((0, 2), (2, 8)), ((0, 1), (3, 8)), ((-1, 3),)]
    for segs in otfad_segsets:
        for lay in otfad_lays:
            for fam in (OTFAD_REPS if thorough else OTFAD_REPS[:2]):
                for endc in (0, 1):
                    cases.append({"e": "otfad-seg", "seed": ctx.seed, "fam": fam, "segs": segs, "endc": endc,
                                  "regs": [[i, j, 7] for i, j in lay]})
    return cases


def w_seg(case: dict) -> dict:
    return {"iee-seg": w_iee_seg, "otfad-seg": w_otfad_seg}[case["e"]](case)


# ---------------------------------------------------------------------------------------------

WORKERS = {"otfad-img": w_otfad_img, "otfad-kb": w_otfad_kb, "otfad-blobapi": w_otfad_blobapi, "iee-blobapi": w_iee_blobapi, "iee-img": w_iee_img, "iee-kb": w_iee_kb, "bee-img": w_bee_img,
           "otfad-nxp": w_otfad_nxp, "iee-nxp": w_iee_nxp, "bee-nxp": w_bee_nxp,
           "calls": w_calls, "bee-calls": w_bee_calls, "otfad-calls": w_otfad_calls, "iee-calls": w_iee_calls,
           "seg": w_seg, "iee-seg": w_iee_seg, "otfad-seg": w_otfad_seg}
# cheap families first, so that a run cut by its budget loses only the tail of the large-image cases
PLAN = [("calls", calls_cases), ("seg", seg_cases), ("otfad-blobapi", otfad_blobapi_cases), ("iee-blobapi", iee_blobapi_cases), ("iee-kb", iee_kb_cases), ("otfad-nxp", otfad_nxp_cases),
        ("iee-nxp", iee_nxp_cases), ("bee-nxp", bee_nxp_cases), ("otfad-kb", otfad_kb_cases), ("bee-img", bee_img_cases),
        ("iee-img", iee_img_cases), ("otfad-img", otfad_img_cases)]


def run_family(ctx: core.Ctx, name: str, cases: list[dict], timeout: int = 30, chunksize: int = 32) -> None:
    if not cases:
        return
    fn = WORKERS[name]
    done = 0
    ctx.sample(cases[len(cases) // 2], limit=12)
    slice_n = 20000  # budget check between slices so that a capped run reports what it completed
    for s in range(0, len(cases), slice_n):
        if ctx.out_of_budget():
            ctx.cov.setdefault("cut_by_budget", {})[name] = {"completed": done, "of": len(cases)}
            return
        part = cases[s:s + slice_n]
        for case, res in ctx.pool_map(fn, part, timeout=timeout, chunksize=chunksize, check_det=3 if s == 0 else 0):
            ctx.absorb(case, res, watchdog_clause=f"C13.{name.split('-')[0]}-terminates")
            done += 1
    ctx.cov.setdefault("cases_per_family", {})[name] = len(cases)


def run(ctx: core.Ctx) -> None:
    ctx.cov["calibration_golden_files"] = calibrate()
    only = [x for x in os.environ.get("C13_ONLY", "").split(",") if x]
    for name, gen in PLAN:
        if only and name not in only:
            continue
        run_family(ctx, name, gen(ctx))
    c = ctx.counters
    if not only:
        # base cases must be accepted: a family in which nothing was executed to the end is a harness error
        for key in ("otfad_img", "otfad_kb", "otfad_blobapi", "iee_blobapi", "iee_img", "iee_kb", "bee_img", "otfad_nxp", "iee_nxp", "bee_nxp",
                    "bee_calls", "otfad_calls", "iee_calls", "iee_seg", "otfad_seg"):
            if c.get(key, 0) == 0 and ctx.exhaustive:
                raise core.HarnessError(f"no accepted case in family {key}")
    ctx.cov["distinct_nontrivial"] = c.get("nontrivial", 0)
    ctx.cov["rejected_by_builder"] = {k: v for k, v in sorted(c.items()) if k.startswith("rejected:")}
    ctx.cov["dimensions"] = {
        "image_length": (LENGTHS + [3072, 8192]) if ctx.tier == "thorough" else QUICK_LENGTHS,
        "iee_image_length": IEE_LENGTHS_THOROUGH if ctx.tier == "thorough" else IEE_LENGTHS,
        "base_offset_in_unit": {"otfad/bee": [0, 16, U_OTFAD - 16], "iee": [0]},
        "address_windows": {"otfad": ["0x08001000", "0x0", "top of 32 bit"], "iee": [hex(v) for v in IEE_WIN.values()],
                            "bee": ["0x60001000", "0x0", "top of 32 bit"]},
        "region_layouts": "every single range, every disjoint ordered pair, every chain of 3-4 adjacent ranges with cut points on "
                          "the unit grid [-2, n+2] around the image (n = units touched); quick: chains (and IEE pairs) on [-1, n+1]",
        "otfad_flags": "all 8 RO/ADE/VLD values on single blobs; one-departure flag variants on pairs",
        "otfad_options": {"byte_swap": [0, 1], "end_addr convention": ["last address", "last address + 1"],
                          "counter": ["seeded", "all ones"], "kek": list(KEK_PATTERNS), "scramble(mask,align)": SCRAMBLES,
                          "reversed": [0, 1], "keyblob_byte_swap_cnt": [0, 2, 4, 8, 16]},
        "iee_modes_claimed": [f"{m}{k}" for m, k in IEE_CLAIMED], "iee_modes_crash_freedom_only": [f"{m}{k}" for m, k in IEE_CRASH_ONLY],
        "iee_initial_counter": ["low word 0", "seeded", "low word 0xFFFFFFFF", "all ones"],
        "bee": {"engines": "every assignment of the ranges to engine 0/1 (<=3 FAC each)", "mode": ["CTR", "ECB (must be refused)"],
                "keys": ["explicit KIB/nonce", "self-chosen (owned rng)"]},
        "config_level_families": {"otfad": sorted(OTFAD_FAM), "iee": sorted(IEE_FAM), "bee": "family independent"},
        "listing_order_of_regions": "all permutations for <= 3 regions, reversed + one rotation for 4 (OTFAD/IEE key blobs, BEE FACs per "
                                    "engine), API level and config level",
        "histories_on_one_object": {"api": "[encrypt_image|export_image, key-blob/header export] x 2 (+ the locality pieces after it)",
                                    "config": "[binary_image, export_image, binary_image]; BEE: [export_headers, "
                                              "export_image, export_image, export_headers]"},
    }
    ctx.rule = ("E1 full product: image length x base offset inside the unit (OTFAD/BEE 1 KiB: 0,16,unit-16; IEE 4 KiB: 0) x address "
                "window x every placement of 1-2 disjoint ranges and every 3-4 chain of adjacent ranges on the unit grid around the "
                "image x flags/modes x byte-swap x end-address convention x counter pattern, executed through Otfad/Iee/BeeNxp "
                "encrypt_image/export_image/encrypt_key_blobs/export_headers and, on a reduced geometry, through "
                "check_config + *Nxp.load_from_config + binary_image()/export_image() for every supported family; each exported "
                "image is read back through the per-16-byte-block hardware model, each key blob / region header is unwrapped by "
                "the model; multi-region configurations are also listed in every other order (permutations) and every object is "
                "exported at least twice (history), the later results compared with the first and the stored input with its "
                "snapshot. A case is non-trivial when a valid range intersects a non-empty image (key-blob cases: always); all "
                "cases are pairwise different parameter tuples, the count is measured by the workers")
    ctx.assumptions += [
        "OTFAD context region = [SRTADDR & ~0x3FF, ENDADDR | 0x3FF]; first matching valid context wins (contexts are disjoint here)",
        "OTFAD byte swap = each 64-bit half of a 16-byte line byte-reversed on the way in and out (calibrated on otfad_image.bin)",
        "IEE region = [startAddr, endAddr) with page offset 0; AES keys = stored words byte-reversed; XTS data unit 4 KiB numbered "
        "address >> 12; CTR counter = initial counter + (address >> 4) in the low 32 bits; a carry out of these 32 bits is not "
        "modelled (such blocks are skipped, only crash-freedom is demanded)",
        "IEE modes AesCTRWOAddress / AesCTRkeystream: only absence of a crash (as the property says)",
        "BEE decrypts a line iff it lies in a FAC region of an engine (and in the PRDB start..end hull); key = user key; "
        "counter = nonce + (address >> 4)",
        "a builder SPSDKError is a rejection: BEE refuses a 1 KiB chunk (counted from the image base) that starts inside a FAC "
        "region and ends outside of it; OTFAD refuses end_addr = 2^32",
        "trailing padding of the output up to the next multiple of 16 is accepted; anything longer or shorter is a violation",
        "database facts per family (key-blob byte swap count, reversed scramble value, scrambling support, IEE key-blob "
        "generation) are stated in the check (OTFAD_FAM / IEE_FAM), not read through spsdk",
    ]


def replay(ctx: core.Ctx, rec: dict) -> bool:
    case = rec["case"]
    fn = WORKERS[case["e"]]
    res = core.run_with_watchdog(fn, case, 120)
    if res.get("__watchdog__"):
        print("watchdog: does not terminate")
        return rec["clause"].endswith("-terminates")
    hits = [v for v in res["viol"] if v[0] == rec["clause"] and v[1] == rec["disc"]]
    for h in res["viol"][:8]:
        print(h)
    return bool(hits)
