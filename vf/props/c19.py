"""C19 — BD command files mean what they say (engine E5: grammar-derivation enumeration).

Every case is one BD program text (plus the `extern` list).  The real code
(`BDParser().parse(text, extern)`, then `SB21Helper` / `BootImageV21.load_from_config` on the
parsed dictionary) is executed on it and compared with the independent semantics
`vf/ref/bd_sem.py`.  One function, `check_case`, evaluates *all* clauses on a program; the
families below only differ in how the program texts are enumerated (vf/engine/grammar.py).

Clauses
  C19.expr-value           an integer constant expression has the wrong value
  C19.bool-value           a comparison / logical expression / defined() has the wrong value
  C19.parse-dict           the parser dictionary differs although every expression is right
  C19.error-type           an exception that is not SPSDKError leaves the parser
  C19.unsupported-accepted a construct documented as unsupported is not refused
  C19.source-resolve       extern(i) with i outside 0..n-1 resolves to some file
  C19.command              the command object built from a (SPSDK-parsed) statement dictionary has
                           the wrong header field / payload, or a supported statement has no command;
                           encrypt / keywrap use the key blob with the stated NUMBER (unwrap / read-back
                           through vf/ref/otfad_hw.py), a statement naming an undeclared key blob is
                           refused, encrypt with ADE or VLD cleared is a plain load of exactly the operand,
                           with both set the ciphertext of the operand padded to 512 bytes
  C19.keyblob-option       a documented keyblob option has no effect
  C19.sections             load_from_config: number of sections / commands per section
  C19.parser-reuse         a parser object that already parsed other programs answers differently
  C19.terminates           watchdog

Discriminators name the defect: the set of operators of the *smallest* failing sub-expression
(every sub-tree is re-evaluated on its own), the layout feature that makes a failure disappear
when every definition is put on its own line, the statement kind + header field.
"""
from __future__ import annotations

import copy
import itertools
import os
import signal
from typing import Any, Optional

from vf import core
from vf.engine.grammar import NT, Grammar
from vf.ref import bd_sem as sem

LEVEL = "exploration"

CASE_TIMEOUT = 5
OPS = ["+", "-", "*", "/", "%", "<<", ">>", "&", "|", "^"]
BOPS = ["<", "<=", ">", ">=", "==", "!=", "&&", "||"]

_W: dict = {}  # per-process state (shared parser, caches, grammars)


# ---------------------------------------------------------------------------------------------
# running the code under check


def _spsdk():
    m = _W.get("mods")
    if m is None:
        from spsdk.exceptions import SPSDKError
        from spsdk.sbfile.sb2.sly_bd_parser import BDParser

        m = _W["mods"] = (BDParser, SPSDKError)
    return m


def run_bd(text: str, extern: Optional[list], shared: bool = False) -> tuple:
    """('ok', dict) | ('spsdk', msg) | ('exc', type, msg) | ('none',) | ('watchdog',)"""
    BDParser, SPSDKError = _spsdk()
    if shared:
        p = _W.get("shared")
        if p is None:
            p = _W["shared"] = BDParser()
    else:
        p = BDParser()
    signal.alarm(CASE_TIMEOUT)
    try:
        d = p.parse(text, list(extern) if extern else None)
    except SPSDKError as e:
        return ("spsdk", str(e).split("\n")[0][:120])
    except core.Watchdog:
        if shared:
            _W.pop("shared", None)
        return ("watchdog",)
    except Exception as e:  # noqa
        return ("exc", type(e).__name__, _short(str(e)))
    finally:
        signal.alarm(0)
    if d is None:
        return ("none",)
    return ("ok", d)


def _short(s: str, n: int = 160) -> str:
    return s if len(s) <= n else s[:n] + "..."


def fmt(v: Any) -> str:
    if isinstance(v, bool):
        return repr(v)
    if isinstance(v, int):
        if v.bit_length() > 256:
            return f"<int of {v.bit_length()} bits>"
        return hex(v) if abs(v) > 9 else str(v)
    return _short(repr(v), 120)


def norm(v: Any) -> Any:
    """bool -> int (True == 1 is how a BD truth value is stored), recursively."""
    if isinstance(v, bool):
        return int(v)
    if isinstance(v, dict):
        return {k: norm(x) for k, x in v.items()}
    if isinstance(v, (list, tuple)):
        return [norm(x) for x in v]
    return v


# ---------------------------------------------------------------------------------------------
# comparison of the parser dictionary with the expected one


def _norm_cmd(c: Any) -> Any:
    c = norm(c)
    if isinstance(c, dict):
        for body in c.values():
            if isinstance(body, dict) and isinstance(body.get("values"), str):
                body["values"] = body["values"].lower()
    return c


def diff_dict(got: dict, pr: sem.Program) -> Optional[tuple]:
    """None when equal, else (path-class, detail)."""
    if not isinstance(got, dict):
        return ("result", f"not a dict: {fmt(got)}")
    g = norm(got.get("options", {}))
    e = norm(pr.options)
    if g != e:
        for k in sorted(set(g) | set(e)):
            if g.get(k, "<absent>") != e.get(k, "<absent>"):
                return ("options", f"option {k}: got {fmt(g.get(k, '<absent>'))}, expected {fmt(e.get(k, '<absent>'))}")
    g = got.get("sources", {})
    if g != pr.sources:
        return ("sources", f"got {fmt(g)}, expected {fmt(pr.sources)}")
    g = norm(got.get("keyblobs", []))
    e = norm(pr.keyblobs)
    if g != e:
        return ("keyblobs", f"got {fmt(g)}, expected {fmt(e)}")
    gs = got.get("sections")
    if not isinstance(gs, list) or len(gs) != len(pr.sections):
        return ("sections.count", f"got {fmt(gs)}, expected {len(pr.sections)} sections")
    for i, (a, b) in enumerate(zip(gs, pr.sections)):
        if norm(a.get("section_id")) != b["section_id"]:
            return ("sections.section_id", f"section #{i}: id {fmt(a.get('section_id'))}, expected {fmt(b['section_id'])}")
        ga = a.get("commands")
        if not isinstance(ga, list) or len(ga) != len(b["commands"]):
            return ("sections.commands.count", f"section #{i}: got {fmt(ga)}, expected {len(b['commands'])} commands")
        for j, (x, y) in enumerate(zip(ga, b["commands"])):
            x, y = _norm_cmd(copy.deepcopy(x)), _norm_cmd(copy.deepcopy(y))
            if x != y:
                kind = list(y.keys())[0]
                gk = list(x.keys())[0] if isinstance(x, dict) and x else "?"
                field = "kind"
                if gk == kind and isinstance(x[kind], dict):
                    for f in sorted(set(x[kind]) | set(y[kind])):
                        if x[kind].get(f, "<absent>") != y[kind].get(f, "<absent>"):
                            field = f
                            break
                return (f"sections.commands.{kind}.{field}",
                        f"section #{i} statement #{j}: got {fmt(x)}, expected {fmt(y)}")
    return None


# ---------------------------------------------------------------------------------------------
# locating the smallest failing sub-expression


def _lit(v: int) -> str:
    return str(v) if v >= 0 else f"0 - {-v}"


def probe(sub: str, env: dict) -> tuple:
    """(expected, got) of one expression text evaluated on its own as an option value.
    expected: ('v', value) | ('x', reason) | ('o',);  got: run_bd outcome reduced to the value."""
    key = (sub, tuple(sorted(env.items())))
    cache = _W.setdefault("probe", {})
    r = cache.get(key)
    if r is not None:
        return r
    try:
        tree = sem.expr_tree(sub)
        if sem.has_shift_risk(tree, env):
            exp: tuple = ("x", "shift-guard")
        else:
            exp = ("v", sem.eval_node(tree, env)[0])
    except sem.Excluded as e:
        exp = ("x", str(e))
    except (sem.Outside, sem.Unsupported, sem.BDSyntax):
        exp = ("o",)
    if exp == ("x", "shift-guard"):
        got: tuple = ("skipped",)
    else:
        pre = ""
        if env:
            pre = "constants {\n" + "".join(f"    {k} = {_lit(v)};\n" for k, v in sorted(env.items())) + "}\n"
        out = run_bd(pre + "options {\n    o = " + sub + ";\n}\n", None)
        if out[0] == "ok":
            try:
                got = ("v", norm(out[1]["options"]["o"]))
            except Exception:  # noqa
                got = ("bad", fmt(out[1]))
        else:
            got = out
    if len(cache) > 200000:
        cache.clear()
    cache[key] = (exp, got)
    return exp, got


def _fails(exp: tuple, got: tuple) -> Optional[str]:
    """'value' | 'exc' | None for one probed sub-expression."""
    if got[0] in ("exc", "watchdog", "bad"):
        if exp[0] == "v" or (exp[0] == "x" and exp[1] == "leading-zero-literal"):
            return "exc"
        return None
    if exp[0] == "v" and got[0] == "v" and got[1] != exp[1]:
        return "value"
    return None


def ops_label(n: sem.Node) -> str:
    s = set()
    for x in n.walk():
        if x.kind == "bin":
            s.add(x.op)
        elif x.kind == "un":
            s.add("unary" + x.op)
        elif x.kind == "suf":
            s.add("." + x.op)
        elif x.kind == "defined":
            s.add("defined")
    if not s:
        for x in n.walk():
            if x.kind == "int":
                s.add("literal-" + str(x.flag))
            elif x.kind == "id":
                s.add("identifier")
    return "ops:" + ",".join(sorted(s))


def _is_boolnode(n: sem.Node) -> bool:
    while n.kind == "paren":
        n = n.kids[0]
    return (n.kind == "bin" and n.op in sem.BOOLOPS) or (n.kind == "un" and n.op == "!") or n.kind == "defined"


PREC_CLASS = {"||": "logical-or", "&&": "logical-and", "|": "bit-or", "^": "bit-xor", "&": "bit-and",
              "==": "equality", "!=": "equality", "<": "relational", "<=": "relational", ">": "relational",
              ">=": "relational", "<<": "shift", ">>": "shift", "+": "additive", "-": "additive",
              "*": "multiplicative", "/": "multiplicative", "%": "multiplicative"}


def _node_class(n: sem.Node) -> str:
    if n.kind == "bin":
        return PREC_CLASS[n.op]
    if n.kind == "un":
        return "logical-not" if n.op == "!" else "unary-sign"
    if n.kind == "suf":
        return "size-suffix"
    return n.kind


def _walk_outside_parens(n: sem.Node):
    """Parenthesised groups are atoms for precedence: do not look inside them."""
    yield n
    if n.kind != "paren":
        for k in n.kids:
            yield from _walk_outside_parens(k)


def _value_text(n: sem.Node, env: dict) -> Optional[str]:
    try:
        v, _t = sem.eval_node(n, env)
    except (sem.Excluded, sem.Outside):
        return None
    return str(v) if v >= 0 else f"(0 - {-v})"


def diagnose_expr(node: sem.Node, src: str, env: dict) -> Optional[tuple]:
    """Smallest sub-tree X of `node` that fails when evaluated on its own, reduced further:
    * X with its operands replaced by the literal values they stand for still fails
        -> the root operator / suffix / literal itself is mis-evaluated: disc `ops:<root>`
    * otherwise the operands are combined in the wrong order: the smallest sub-tree Y of X whose
      explicit parenthesisation repairs X names the binding that is wrong:
        disc `precedence:<class of Y> binds looser than <class of the operator above it>`
    -> (clause, disc, detail) or None when every sub-tree (including the whole) is right."""
    subs = sorted(node.walk(), key=lambda x: (x.b - x.a, x.a))
    seen = set()
    for x in subs:
        if x.kind == "paren":
            continue
        sub = src[x.a:x.b]
        if sub in seen:
            continue
        seen.add(sub)
        exp, got = probe(sub, env)
        how = _fails(exp, got)
        if how is None:
            continue
        want = fmt(exp[1]) if exp[0] == "v" else f"undefined ({exp[1]})"
        clause = "C19.bool-value" if _is_boolnode(x) else "C19.expr-value"
        detail = f"`{sub}` -> {got[1:] if got[0] == 'exc' else fmt(got[1]) if got[0] == 'v' else got}; semantics: {want}"

        def result(label: str, cause: Optional[str] = None, g: Optional[tuple] = None, cl: Optional[str] = None) -> tuple:
            # the clause follows the *cause* that was isolated, not the way the whole expression failed
            g = g or got
            if (cause or how) == "exc":
                return ("C19.error-type", f"{label}:{g[1] if g[0] == 'exc' else g[0]}", detail)
            return (cl or clause, label, detail)

        chars = [y for y in x.walk() if y.kind == "int" and y.flag == "char"]
        if len(chars) >= 2:
            # do two character literals on one line explain it?  replace them by equal numbers
            alt = sub
            for y in sorted(chars, key=lambda y: -y.a):
                alt = alt[:y.a - x.a] + str(y.val) + alt[y.b - x.a:]
            e2, g2 = probe(alt, env)
            if _fails(e2, g2) is None:
                return result("two-char-literals-on-one-line", "value", cl="C19.parse-dict")
        if not x.kids:
            return result(ops_label(x))
        # (1) operands replaced by their values
        red = sub
        okred = True
        for k in sorted(x.kids, key=lambda k: -k.a):
            vt = _value_text(k, env)
            if vt is None:
                okred = False
                break
            red = red[:k.a - x.a] + vt + red[k.b - x.a:]
        if okred and x.kind != "suf":
            e2, g2 = probe(red, env)
            f2 = _fails(e2, g2)
            if f2 is not None:
                return result("ops:" + (x.op if x.kind == "bin" else "unary" + x.op if x.kind == "un" else x.kind), f2, g2)
        elif x.kind == "suf" and x.kids[0].kind in ("int", "id"):
            return result("ops:." + x.op)
        # (2) the operands are combined in the wrong order: shrink X to a minimal failing core by
        # replacing sub-trees with the literal values they stand for while the failure persists
        core_text = sub
        for _round in range(8):
            try:
                tree = sem.expr_tree(core_text)
            except sem.BDSyntax:
                break
            changed = False
            for z in sorted(tree.walk(), key=lambda z: -(z.b - z.a)):
                if z is tree or not z.kids or z.kind == "paren" or (z.kind == "suf" and z.kids[0].kind == "int"):
                    continue
                try:
                    v, _t = sem.eval_node(z, env)
                except (sem.Excluded, sem.Outside):
                    continue
                if v < 0:
                    continue
                alt = core_text[:z.a] + str(v) + core_text[z.b:]
                e2, g2 = probe(alt, env)
                if _fails(e2, g2) is not None:
                    core_text = alt
                    changed = True
                    break
            if not changed:
                break
        try:
            tree = sem.expr_tree(core_text)
            classes = sorted({_node_class(z) for z in _walk_outside_parens(tree) if z.kind in ("bin", "un", "suf")})
        except sem.BDSyntax:
            classes = []
        detail += f"; minimal failing form `{core_text}`"
        if "size-suffix" in classes:
            return result("precedence:size-suffix binds looser than the operator before its operand", "value")
        if classes:
            return result("precedence:" + " / ".join(classes), "value")
        return result("structure:" + ops_label(x)[4:])
    return None


# ---------------------------------------------------------------------------------------------
# layout diagnosis: does the failure disappear when every definition stands on its own line?


def relayout(text: str) -> Optional[str]:
    try:
        toks = sem.lex(text)
    except sem.BDSyntax:
        return None
    out = []
    for t in toks:
        out.append(text[t.a:t.b])
        if t.kind == "op" and t.val in (";", "{", "}", ","):
            out.append("\n")
        elif t.kind != "suffix":
            out.append(" ")
    # a suffix must stay glued to its operand
    s = ""
    for piece in out:
        if piece.startswith(".") and len(piece) == 2 and piece[1] in "whb" and s.endswith(" "):
            s = s[:-1]
        s += piece
    return s


def layout_feature(text: str) -> str:
    """Which lexical coincidence on one line the original text has."""
    feats = []
    try:
        toks = sem.lex(text)
    except sem.BDSyntax:
        return "unlexable"
    lines = text.split("\n")
    per: dict = {}
    for t in toks:
        k = "char" if (t.kind == "int" and t.flag == "char") else t.kind
        per.setdefault(t.line, []).append(k)
    for ln, kinds in per.items():
        raw = lines[ln - 1] if ln - 1 < len(lines) else ""
        if kinds.count("str") >= 2:
            feats.append("two-string-literals-on-one-line")
        if kinds.count("char") >= 2:
            feats.append("two-char-literals-on-one-line")
        if "str" in kinds and raw.count('"') > 2 * kinds.count("str"):
            feats.append("string-literal-and-quote-in-comment-on-one-line")
        if "char" in kinds and raw.count("'") > 2 * kinds.count("char"):
            feats.append("char-literal-and-apostrophe-in-comment-on-one-line")
    return sorted(set(feats))[0] if feats else "none"


# ---------------------------------------------------------------------------------------------
# the check of one program


def _count(cnt: dict, key: str, n: int = 1) -> None:
    cnt[key] = cnt.get(key, 0) + n


def check_case(case: dict, cnt: dict, deep: bool = True) -> list:
    """All clauses on one program.  -> [(clause, disc, detail)]"""
    text = case["bd"]
    extern = case.get("extern") or []
    viol: list = []
    _count(cnt, "programs")
    unsupported = None
    pr = None
    try:
        pr = sem.evaluate_program(text, extern)
    except sem.Unsupported as e:
        unsupported = str(e)
    except sem.Outside:
        _count(cnt, "outside_subset")
        return viol
    except sem.BDSyntax as e:
        raise core.HarnessError(f"generator produced a text outside the documented grammar: {e}: {text!r}")
    if pr is not None:
        for (_w, node, _v) in pr.exprs:
            if sem.has_shift_risk(node, pr.constants):
                _count(cnt, "skipped_shift_guard")
                return viol
    got = run_bd(text, extern)
    _count(cnt, "executions")
    # the same program on a parser object that already parsed many others (in the two bulk
    # families on every 4th program; everywhere else on every program)
    got2 = got
    if not case.get("noreuse"):
        got2 = run_bd(text, extern, shared=True)
        _count(cnt, "executions")
    if got2 != got:
        viol.append(("C19.parser-reuse", f"{got[0]}-vs-{got2[0]}",
                     f"fresh parser: {fmt(got[1:])}; reused parser: {fmt(got2[1:])}"))
    if got[0] == "watchdog":
        viol.append(("C19.terminates", "watchdog", "parse did not terminate"))
        return viol

    if unsupported is not None:
        _count(cnt, "unsupported_constructs")
        if got[0] == "spsdk":
            _count(cnt, "unsupported_refused")
        elif unsupported.startswith("extern()"):
            viol.append(("C19.source-resolve", unsupported, f"not refused with SPSDKError; outcome {fmt(got)}"))
        elif got[0] == "exc":
            viol.append(("C19.error-type", f"{unsupported}:{got[1]}", f"{got[1]}: {got[2]}"))
        else:
            viol.append(("C19.unsupported-accepted", unsupported, f"not refused; result {fmt(got[1:])}"))
        return viol

    assert pr is not None
    if pr.blocked is not None:
        reason = str(pr.blocked)
        if isinstance(pr.blocked, sem.Excluded):
            _count(cnt, "excluded:" + reason)
            _count(cnt, f"excluded_outcome:{got[0]}" + (":" + got[1] if got[0] == "exc" else ""))
            if reason == "leading-zero-literal" and got[0] == "exc":
                d = _diag_exprs(pr, text, only_exc=True)
                viol.extend(d or [("C19.error-type", f"ops:literal-leading-zero:{got[1]}", f"{got[1]}: {got[2]}")])
        else:
            _count(cnt, "outside_subset")
        return viol

    if got[0] in ("spsdk", "none"):
        _count(cnt, "rejected_by_spsdk")
        if case.get("must_accept"):
            raise core.HarnessError(f"base case rejected: {text!r}: {got}")
        return viol
    if got[0] == "exc":
        d = _diag_exprs(pr, text)
        viol.extend(d or [("C19.error-type", f"parse:{got[1]}:{layout_or_path(text, pr, extern)}", f"{got[1]}: {got[2]}")])
        return viol
    d = diff_dict(got[1], pr)
    if d is None:
        _count(cnt, "compared_equal")
    else:
        dd = _diag_exprs(pr, text)
        if dd:
            viol.extend(dd)
        else:
            viol.append(("C19.parse-dict", layout_or_path(text, pr, extern, d[0]), d[1]))
    if deep and case.get("cmds"):
        viol.extend(check_commands(got[1], case, cnt))
    return viol


def _diag_exprs(pr: sem.Program, text: str, only_exc: bool = False) -> list:
    out = []
    seen = set()
    for (_where, node, _val) in pr.exprs:
        r = diagnose_expr(node, text, pr.constants)
        if r and (not only_exc or r[0] == "C19.error-type") and (r[0], r[1]) not in seen:
            seen.add((r[0], r[1]))
            out.append(r)
    return out


def layout_or_path(text: str, pr: sem.Program, extern: list, path: str = "") -> str:
    """Discriminator of a failure that no expression explains."""
    feat = layout_feature(text)
    if feat != "none":
        alt = relayout(text)
        if alt is not None and alt != text:
            try:
                pr2 = sem.evaluate_program(alt, extern)
                g2 = run_bd(alt, extern)
                if pr2.blocked is None and g2[0] == "ok" and diff_dict(g2[1], pr2) is None:
                    return feat
            except (sem.Unsupported, sem.Outside, sem.BDSyntax):
                pass
    return path or "unexplained"


# ---------------------------------------------------------------------------------------------
# statement dictionaries -> command objects (layer 3)


def _files(case: dict) -> dict:
    return {k: bytes(v) if isinstance(v, (bytes, bytearray)) else bytes.fromhex(v)
            for k, v in (case.get("files") or {}).items()}


def _filedir(case: dict) -> str:
    """Materialise the case's data files (relative names) in a private directory."""
    files = _files(case)
    key = core.short_hash(sorted((k, v.hex()) for k, v in files.items()))
    cache = _W.setdefault("filedirs", {})
    d = cache.get(key)
    if d is None:
        import tempfile

        base = os.environ.get("VERIF_WORKDIR") or os.path.join(tempfile.gettempdir(), "vf-c19-files")
        d = os.path.join(base, f"c19-files-{os.getpid()}-{key}")
        os.makedirs(d, exist_ok=True)
        for name, data in files.items():
            with open(os.path.join(d, name), "wb") as f:
                f.write(data)
        cache[key] = d
    return d


def _stmt_class(kind: str, args: dict) -> str:
    if kind == "load":
        mem4 = sem.resolve_mem(args.get("load_opt")) == 4
        what = "file" if "file" in args else "blob" if "values" in args else "pattern"
        return f"load-{what}" + ("-fuse" if mem4 else "")
    return kind


def build_command(kind: str, args: dict, keyblobs: list, fdir: str) -> tuple:
    """What load_from_config does for one statement: ('ok', raw bytes) | ('spsdk', m) | ('exc', t, m)"""
    from spsdk.exceptions import SPSDKError
    from spsdk.sbfile.sb2.sb_21_helper import SB21Helper

    helper = SB21Helper([fdir], zero_filling=True)
    value = copy.deepcopy(args)
    signal.alarm(CASE_TIMEOUT)
    try:
        fn = helper.get_command(kind)
        if kind in ("keywrap", "encrypt"):
            value.update({"keyblobs": copy.deepcopy(keyblobs)})
        obj = fn(value)
        raw = obj.export()
    except SPSDKError as e:
        return ("spsdk", str(e)[:120])
    except core.Watchdog:
        return ("watchdog",)
    except Exception as e:  # noqa
        return ("exc", type(e).__name__, _short(str(e)))
    finally:
        signal.alarm(0)
    return ("ok", raw)


def check_commands(got: dict, case: dict, cnt: dict) -> list:
    viol: list = []
    files = _files(case)
    fdir = _filedir(case)
    keyblobs = got.get("keyblobs", [])
    for sec in got.get("sections", []):
        for cmd in sec.get("commands") or []:
            if not isinstance(cmd, dict):
                continue
            for kind, args in cmd.items():
                viol.extend(check_one_command(kind, args, keyblobs, files, fdir, cnt))
    return viol


def check_one_command(kind: str, args: dict, keyblobs: list, files: dict, fdir: str, cnt: dict) -> list:
    viol: list = []
    cls = _stmt_class(kind, args if isinstance(args, dict) else {})
    _count(cnt, "statements")
    if not isinstance(args, dict):
        return viol
    exp = sem.expected_simple(kind, args)
    if exp is None:
        exp = sem.expected_command(kind, norm(args), norm(keyblobs), files)
    out = build_command(kind, args, keyblobs, fdir)
    if out[0] == "watchdog":
        return [("C19.terminates", f"{cls}:watchdog", f"{kind} {fmt(args)}")]
    if exp is None:
        _count(cnt, "statements_unspecified")
        _count(cnt, f"unspecified_outcome:{cls}:{out[0]}" + (":" + out[1] if out[0] == "exc" else ""))
        return viol
    if exp.get("refuse"):
        # the statement must be refused (SPSDKError; KeyError is what the CLI also treats as refusal)
        if out[0] == "spsdk" or (out[0] == "exc" and out[1] == "KeyError"):
            _count(cnt, "statements_refused_as_required")
            return viol
        return [("C19.command", f"{kind}:undeclared-keyblob", f"{kind} {fmt(args)}: {exp['refuse']}, yet outcome {out[0]}")]
    if out[0] == "spsdk":
        _count(cnt, "statements_rejected")
        _count(cnt, f"rejected:{cls}")
        return viol
    if out[0] == "exc":
        return [("C19.command", f"{cls}:no-command:{out[1]}",
                 f"{kind} {fmt(args)}: {out[1]}: {out[2]} (expected one command, tag {exp['tag']})")]
    _count(cnt, "statements_compared")
    return judge_raw(cls, kind, args, exp, out[1], keyblobs, "")


def judge_raw(cls: str, kind: str, args: dict, exp: dict, raw: bytes, keyblobs: list, pre: str) -> list:
    """One exported command (16-byte header + data) against what the statement demands."""
    viol: list = []
    what = f"{pre}{kind} {fmt({k: v for k, v in args.items() if k != 'keyblobs'})}"
    try:
        dec = sem.decode_command(raw)
    except ValueError:
        return [("C19.command", f"{cls}:export", f"{what}: exported {len(raw)} bytes")]
    if not dec["checksum_ok"]:
        viol.append(("C19.command", f"{cls}:checksum", what))
    viol.extend(_header_diff(cls, kind, args, exp, dec, pre))
    body = dec["payload"]
    blobcls = "load-blob" if (kind == "encrypt" and "values" in args) else cls
    pay = exp.get("payload")
    if pay is not None:
        want_len = (len(pay) + 15) // 16 * 16
        if len(body) != want_len:
            viol.append(("C19.command", f"{cls}:payload-length",
                         f"{what}: {len(body)} data bytes, expected the {len(pay)} bytes of the operand (padded to {want_len})"))
        if body[:len(pay)] != pay:
            how = "payload-byte-order" if len(pay) > 1 and body[:len(pay)] == pay[::-1] else "payload"
            viol.append(("C19.command", f"{blobcls}:{how}",
                         f"{what}: data {body[:32].hex()} ({len(body)} B), expected {pay[:32].hex()} ({len(pay)} B)"))
    if "payload" in exp or "payload_len" in exp:
        if dec["count"] != len(body) or dec["data"] != sem.crc32_mpeg2(body):
            viol.append(("C19.command", f"{cls}:count-crc", f"{what}: count {dec['count']}, data {dec['data']:#x}"))
    if "payload_len" in exp and len(body) != exp["payload_len"]:
        viol.append(("C19.command", f"{cls}:payload-length", f"{what}: {len(body)} data bytes, expected {exp['payload_len']}"))
    ctx = exp.get("ctx")
    if ctx is not None and kind == "keywrap":
        viol.extend(_check_keywrap(args, exp, body, keyblobs, what))
    if ctx is not None and "encrypted" in exp and len(body) == exp.get("payload_len"):
        viol.extend(_check_encrypted(args, exp, body, keyblobs, blobcls, what))
    return viol


def _hw_context(ctx: dict):
    from vf.ref import otfad_hw as hw

    return hw.Context(0, ctx["key"], ctx["ctr"], ctx["start"], ctx["end"], b"\0" * 4, 0, True)


def _check_keywrap(args: dict, exp: dict, payload: bytes, keyblobs: list, what: str) -> list:
    """RFC 3394 unwrap (reference implementation) with the statement's KEK: key, counter, start
    and end granule of the key blob with the NUMBER the statement names."""
    from vf.ref import otfad_hw as hw

    ctx = exp["ctx"]
    try:
        kek = bytes.fromhex(args["values"])
    except (KeyError, ValueError, TypeError):
        return []
    if len(kek) != 16:
        return []
    plain = hw.rfc3394_unwrap(kek, payload[:48])
    if plain is None:
        return [("C19.command", "keywrap:unwrap", f"{what}: payload does not unwrap with the statement's key")]
    rec = hw.parse_plain_record(0, plain)

    def same(c: dict) -> bool:
        return (rec.key == c["key"] and rec.ctr == c["ctr"] and rec.srtaddr == c["start"]
                and (rec.endaddr | 0x3FF) == ((max(c["end"], 1) - 1) | 0x3FF))

    if same(ctx):
        return []
    for kb in keyblobs:
        c = sem.keyblob_fields(norm(kb)) if isinstance(kb, dict) else None
        if c is not None and kb.get("keyblob_id") != exp["keyblob"].get("keyblob_id") and same(c):
            return [("C19.command", "keywrap:wrong-keyblob",
                     f"{what}: the wrapped blob is key blob {kb.get('keyblob_id')}, not {exp['keyblob'].get('keyblob_id')}")]
    return [("C19.command", "keywrap:keyblob-fields",
             f"{what}: unwrapped key {rec.key.hex()} counter {rec.ctr.hex()} start {rec.srtaddr:#x} end {rec.endaddr:#x}")]


def _check_encrypted(args: dict, exp: dict, body: bytes, keyblobs: list, blobcls: str, what: str) -> list:
    """The OTFAD reference model, loaded with the key blob of the stated NUMBER, must read the
    operand back from the LOAD data (judged where load address = start of the blob's region, the
    only placement for which the documents fix the counter)."""
    from vf.ref import otfad_hw as hw

    ctx = exp["ctx"]
    data = exp["encrypted"]
    if exp["address"] != ctx["start"] or exp["address"] % 16:
        return []

    def reads(c: dict) -> bytes:
        return hw.OtfadHw([_hw_context(c)], byte_swap=c["byte_swap"]).read(body, exp["address"])

    plain = reads(ctx)
    if plain[:len(data)] == data:
        return []
    if "values" in args and len(data) > 1 and plain[:len(data)] == data[::-1]:
        return [("C19.command", f"{blobcls}:payload-byte-order", f"{what}: decrypts to the reversed blob")]
    for kb in keyblobs:
        c = sem.keyblob_fields(norm(kb)) if isinstance(kb, dict) else None
        if c is None or kb.get("keyblob_id") == exp["keyblob"].get("keyblob_id"):
            continue
        moved = hw.OtfadHw([_hw_context(dict(c, end=c["end"] | 3))], byte_swap=c["byte_swap"]).read(body, c["start"])
        c = dict(c, start=ctx["start"], end=ctx["end"])  # same region, the other blob's key / counter
        if reads(c)[:len(data)] == data or moved[:len(data)] == data:
            return [("C19.command", "encrypt:wrong-keyblob",
                     f"{what}: the data are encrypted with key blob {kb.get('keyblob_id')}, not {exp['keyblob'].get('keyblob_id')}")]
    return [("C19.command", "encrypt:ciphertext", f"{what}: the reference OTFAD model does not read the operand back "
             f"(first bytes {plain[:16].hex()}, operand {data[:16].hex()})")]


# ---------------------------------------------------------------------------------------------
# family 1: integer expressions (skeletons from the grammar engine x leaf assignments)

PRELUDE = "constants {\n    c3 = 3;\n    c7 = c3 + 4;\n    c0 = 0;\n}\n"
ENV = {"c3": 3, "c7": 7, "c0": 0}
S_FULL = ["0", "1", "2", "3", "7", "10", "0x10", "0xFF", "0xFFFFFFFF", "1K", "'a'", "c3", "c7",
          "0x155.b", "0x12345.h", "0x1FFFFFFFF.w"]
S3 = ["7", "3", "2", "10"]
SEQS = [["0x10", "7", "3", "2", "1", "5", "1"], ["1", "2", "3", "7", "10", "0x10", "2"],
        ["7", "7", "2", "3", "3", "2", "1"]]
LITERALS = (
    ["0", "1", "2", "9", "10", "255", "4294967295", "4294967296", "18446744073709551616",
     "0x0", "0x10", "0xFF", "0xff", "0XAB", "0xFFFFFFFF", "0x100000000", "0K", "1K", "64K", "4194304K",
     "'a'", "'A'", "'0'", "' '", "'ab'", "'abcd'", "true", "false", "yes", "no",
     "00", "000", "010", "08", "0010", "00K", "c3", "c7"]
    + [f"{v}.{s}" for v in ("0xF", "0x10", "0x55", "0xFF", "0x100", "0x155", "0x1122", "0xFFFF", "0x10000",
                            "0x12345", "0x12345678", "0xFFFFFFFF", "0x100000000", "0x1FFFFFFFF",
                            "255", "256", "65536", "4294967296", "1K", "'a'", "c3", "c7")
       for s in "bhw"]
    + ["(0x155).b", "(c7).h", "(1 + 0x1FF).b", "0x155.b.b", "0x12345.w.b"]
    + ["'#'", "'\"'", "';'", "'/'", "'//'", "'}'", "1 /* c */ + 2", "8 / /* c */ 2", "8 /2", "8/ 2", "8 /* a */ / /* b */ 2",
       "1 +\n    2", "(\n    1 + 2\n    )", "1 + // one\n    2", "1 + # one\n    2", "1 /* a\n b */ + 2"]
)


def arith_grammar(P: int, U: int) -> Grammar:
    key = ("arith", P, U)
    g = _W.get(key)
    if g is not None:
        return g
    g = Grammar()
    cat = lambda a, o, b: a + (o,) + b  # noqa
    for p in range(P + 1):
        for u in range(U + 1):
            s = (p, u)
            g.prod(("E", s), (NT(("I", s)),), build=lambda a: a)
            for p1 in range(p + 1):
                for u1 in range(u + 1):
                    for op in OPS:
                        rhs = (NT(("E", (p1, u1))), op, NT(("I", (p - p1, u - u1))))
                        g.prod(("E", s), rhs, build=cat, weight=1)
                        g.prod(("E2", s), rhs, build=cat, weight=1)
            if s == (0, 0):
                g.prod(("I", s), ("?",), build=lambda x: (x,))
            if p >= 1:
                g.prod(("I", s), ("(", NT(("E2", (p - 1, u))), ")"), build=lambda l, e, r: (l,) + e + (r,))
            if u >= 1:
                for uop in ("u-", "u+"):
                    g.prod(("I", s), (uop, NT(("I", (p, u - 1)))), build=lambda o, i: (o,) + i, weight=1)
    _W[key] = g
    return g


def bool_grammar(P: int, U: int, A: int) -> Grammar:
    key = ("bool", P, U, A)
    g = _W.get(key)
    if g is not None:
        return g
    g = Grammar()
    cat = lambda a, o, b: a + (o,) + b  # noqa
    for p in range(P + 1):
        for u in range(U + 1):
            for a in range(A + 1):
                s = (p, u, a)
                g.prod(("B", s), (NT(("I", s)),), build=lambda x: x)
                for p1 in range(p + 1):
                    for u1 in range(u + 1):
                        for a1 in range(a + 1):
                            for op in BOPS:
                                rhs = (NT(("B", (p1, u1, a1))), op, NT(("I", (p - p1, u - u1, a - a1))))
                                g.prod(("B", s), rhs, build=cat, weight=1)
                                g.prod(("B2", s), rhs, build=cat, weight=1)
                if s == (0, 0, 0):
                    g.prod(("I", s), ("?",), build=lambda x: (x,))
                if s == (0, 0, 1):
                    for op in OPS:
                        g.prod(("I", s), ("?", op, "?"), build=lambda x, o, y: (x, o, y), weight=1)
                if p >= 1:
                    g.prod(("I", s), ("(", NT(("B2", (p - 1, u, a))), ")"), build=lambda l, e, r: (l,) + e + (r,))
                if u >= 1:
                    g.prod(("I", s), ("u!", NT(("I", (p, u - 1, a)))), build=lambda o, i: (o,) + i, weight=1)
    _W[key] = g
    return g


def render(tokens: tuple, leaves: tuple, mode: str) -> str:
    out = []
    it = iter(leaves)
    for t in tokens:
        if t == "?":
            out.append(next(it))
        elif t in ("(", ")"):
            out.append(t)
        elif t[0] == "u":
            out.append(t[1:] if mode != "wide" else t[1:] + " ")
        else:
            out.append(t if mode == "compact" else f" {t} ")
    s = "".join(out)
    if mode == "wide":
        s = s.replace("(", "( ").replace(")", " )")
    return s


SB_FULL = ["0", "1", "2", "3", "c3", "defined(c3)", "defined(zz)", "0xFFFFFFFF", "defined(c0)"]  # c0: defined, value 0
SB3 = ["0", "1", "2", "3"]
BSEQS = [["2", "1", "0", "3", "1", "0"], ["0", "1", "2", "3", "2", "1"], ["1", "1", "0", "0", "2", "2"],
         ["3", "2", "1", "0", "1", "2"]]


def bool_leaves(m: int, tier: str) -> list:
    if m <= 2:
        return list(itertools.product(SB_FULL, repeat=m))
    if m == 3:
        return list(itertools.product(SB3, repeat=3))
    if m == 4 and tier == "thorough":
        return list(itertools.product(["0", "2"], repeat=4)) + [tuple(s[:4]) for s in BSEQS]
    return [tuple(s[:m]) for s in BSEQS]


def expr_program(e: str) -> str:
    pre = PRELUDE if ("c3" in e or "c7" in e or "c0" in e) else ""
    return pre + "options {\n    o = " + e + ";\n}\n"


CONTEXTS = {
    "constant": lambda e: "constants {\n    c3 = 3;\n    c7 = c3 + 4;\n    x = " + e + ";\n}\noptions {\n    o = x;\n}\n",
    "section-id": lambda e: PRELUDE + "section (" + e + ") {\n}\n",
    "erase-address": lambda e: PRELUDE + "section (0) {\n    erase " + e + ";\n}\n",
    "range-end": lambda e: PRELUDE + "section (0) {\n    erase 0.." + e + ";\n}\n",
    "extern-index": lambda e: PRELUDE + "sources {\n    f = extern(" + e + ");\n}\n",
    "jump-argument": lambda e: PRELUDE + "section (0) {\n    jump 0x10 (" + e + ");\n}\n",
    "keyblob-id": lambda e: PRELUDE + "keyblob (" + e + ") {\n    (\n        start = 0,\n        end = " + e + "\n    )\n}\n",
}
EXTERN4 = ["e0.bin", "e1.bin", "e2.bin", "e3.bin"]


# ---------------------------------------------------------------------------------------------
# family 2: program structure — pre-section blocks in every order, multiplicity <= 2

BLOCK_KINDS = ["options", "constants", "sources", "keyblob"]
KEY0 = "000102030405060708090A0B0C0D0E0F"
KEY1 = "F0E0D0C0B0A090807060504030201000"
CTR0 = "0123456789ABCDEF"
CTR1 = "FEDCBA9876543210"


def structure_grammar(mult: int) -> Grammar:
    g = Grammar()
    for counts in itertools.product(range(mult + 1), repeat=4):
        g.prod(("pre", counts), (), build=lambda: ())
        for i, k in enumerate(BLOCK_KINDS):
            if counts[i] < mult:
                nxt = tuple(c + (1 if j == i else 0) for j, c in enumerate(counts))
                g.prod(("pre", counts), (k, NT(("pre", nxt))), build=lambda k, rest: (k,) + rest, weight=1)
    return g


def seeded_files(seed: int) -> dict:
    return {"f1.bin": core.seeded_bytes(seed, "c19-f1", 40), "f2.bin": core.seeded_bytes(seed, "c19-f2", 16),
            "e0.bin": core.seeded_bytes(seed, "c19-e0", 7), "e1.bin": core.seeded_bytes(seed, "c19-e1", 33)}


def render_structure(seq: tuple, files: dict) -> dict:
    have: set = set()
    seen = {k: 0 for k in BLOCK_KINDS}
    out = []
    for k in seq:
        seen[k] += 1
        n = seen[k]
        if k == "options" and n == 1:
            v = "K2 - K1" if "K2" in have else "0x10 + 1"
            out.append(f'options {{\n    flags = 0x8;\n    o1 = {v};\n    name = "first image";\n}}\n')
        elif k == "options":
            v = "K1 >> 4" if "K1" in have else "2"
            out.append(f'options {{\n    buildNumber = {v};\n    productVersion = "1.2.3";\n}}\n')
        elif k == "constants" and n == 1:
            out.append("constants {\n    K1 = 0x1000;\n    K2 = K1 + 0x400;\n}\n")
            have |= {"K1", "K2"}
        elif k == "constants":
            out.append("constants {\n    K3 = K2 | 0x3FF;\n    T1 = K3 > K1;\n}\n")
            have |= {"K3"}
        elif k == "sources" and n == 1:
            out.append('sources {\n    f1 = "f1.bin";\n    f2 = extern(0);\n}\n')
            have |= {"f1", "f2"}
        elif k == "sources":
            v = "K1 >> 12" if "K1" in have else "1"
            out.append(f"sources {{\n    f3 = extern({v});\n}}\n")
            have |= {"f3"}
        elif k == "keyblob" and n == 1:
            s, e = ("K1", "K2") if "K2" in have else ("0x1000", "0x1400")
            out.append(f'keyblob (0) {{\n    (\n        start = {s},\n        end = {e},\n        key = "{KEY0}",\n'
                       f'        counter = "{CTR0}",\n        byteSwap = false\n    )\n}}\n')
            have |= {"kb0"}
        else:
            i = "K2 - K1 - 0x3FF" if "K2" in have else "1"
            out.append(f'keyblob ({i}) {{\n    (\n        start = 0x2000,\n        end = 0x2800,\n        key = "{KEY1}",\n'
                       f'        counter = "{CTR1}"\n    )\n}}\n')
            have |= {"kb1"}
    st = ["    erase 0x0..0x100;\n"]
    if "f1" in have:
        st.append(f"    load f1 > {'K1' if 'K1' in have else '0x1000'};\n")
    if "f3" in have:
        st.append("    load f3 > 0x3000;\n")
    if "K3" in have:
        st.append("    erase (K1)..K3;\n")
    if "kb0" in have and "f2" in have:
        st.append("    encrypt (0) {\n        load f2 > 0x1000;\n    }\n")
    if "kb1" in have:
        st.append("    keywrap (1) {\n        load {{" + KEY0.lower() + "}} > 0x100;\n    }\n")
    out.append("section (0) {\n" + "".join(st) + "}\n")
    return {"bd": "".join(out), "extern": ["e0.bin", "e1.bin"], "files": files, "cmds": True}


# ---------------------------------------------------------------------------------------------
# family 3: several definitions per line, comments of all three kinds

import re  # noqa: E402

_PUNCT = re.compile(r"[ \t]*([=;{}(),>])[ \t]*")


def compact(text: str) -> str:
    parts = text.split('"')
    for i in range(0, len(parts), 2):
        parts[i] = _PUNCT.sub(r"\1", parts[i])
    return '"'.join(parts).replace("\n", "")


def layouts(head: str, defs: list, tail: str = "}") -> list:
    d1, d2 = defs
    one = f"{head} {d1} {d2} {tail}\n"
    return [
        ("multi-line", f"{head}\n    {d1}\n    {d2}\n{tail}\n"),
        ("one-line", one),
        ("compact", compact(one) + "\n"),
        ("tabs", f"{head}\n\t{d1}\t{d2}\n{tail}\n"),
        ("slash-comments", f"{head} // open\n    {d1} // first\n    {d2} // second\n{tail} // close\n"),
        ("hash-comments", f"# lead\n{head}\n    {d1} # first\n    {d2} # second\n{tail}\n# tail\n"),
        ("inline-c-comments", f"{head} /* a */ {d1} /* b */\n    /* c */ {d2}\n{tail}\n"),
        ("block-comment", f"/* one\n   two */\n{head}\n    {d1}\n    /* three\n    four\n    */\n    {d2}\n{tail}\n"),
        ("one-line-then-comment", f"{head} {d1} {d2} {tail} // both\n"),
        ("comment-with-quote", f"{head}\n    {d1} // the \"first\"\n    {d2}\n{tail}\n"),
        ("comment-with-apostrophe", f"{head}\n    {d1} // it's the first\n    {d2}\n{tail}\n"),
        ("nested-comment-markers", f"{head}\n    {d1} // a /* b\n    {d2} # c */ d // e\n{tail}\n/* // # */\n"),
    ]


def layout_cases(files: dict) -> list:
    val = {"int": ("0x20", "7 + 1"), "str": ('"alpha"', '"be ta"'), "char": ("'a'", "'b'"),
           "bool": ("1 < 2", "!0"), "ext": ("extern(0)", "extern(1)")}
    cases = []

    def add(ctx, pair, name, text):
        cases.append({"bd": text, "extern": ["e0.bin", "e1.bin"], "files": files, "cmds": True,
                      "tag": f"{ctx}/{pair[0]}+{pair[1]}/{name}"})

    for pair in [("int", "int"), ("int", "str"), ("str", "int"), ("str", "str"), ("char", "int"), ("int", "char"),
                 ("char", "char"), ("bool", "int"), ("str", "char"), ("char", "str")]:
        defs = [f"a = {val[pair[0]][0]};", f"b = {val[pair[1]][1]};"]
        for name, text in layouts("options {", defs):
            add("options", pair, name, text)
    for pair in [("int", "int"), ("char", "int"), ("int", "char"), ("char", "char"), ("bool", "int"), ("bool", "bool")]:
        defs = [f"a = {val[pair[0]][0]};", f"b = {val[pair[1]][1]};"]
        for name, text in layouts("constants {", defs):
            add("constants", pair, name, text + "options {\n    x = a;\n    y = b;\n}\n")
    for pair in [("str", "str"), ("str", "ext"), ("ext", "str"), ("ext", "ext")]:
        v0 = '"f1.bin"' if pair[0] == "str" else "extern(0)"
        v1 = '"f2.bin"' if pair[1] == "str" else "extern(1)"
        for name, text in layouts("sources {", [f"s = {v0};", f"t = {v1};"]):
            add("sources", pair, name, text + "section (0) {\n    load s > 0x100;\n    load t > 0x200;\n}\n")
    for pair in [("num", "num"), ("str", "str"), ("num", "str")]:
        a = "start = 0x1000," if pair[0] == "num" else f'key = "{KEY0}",'
        b = "end = 0x1400" if pair[1] == "num" else f'counter = "{CTR0}"'
        rest = {"num+num": f',\n        key = "{KEY0}",\n        counter = "{CTR0}"',
                "str+str": ",\n        start = 0x1000,\n        end = 0x1400",
                "num+str": f',\n        end = 0x1400,\n        key = "{KEY0}"'}[f"{pair[0]}+{pair[1]}"]
        for name, text in layouts("keyblob (0) { (", [a, b], tail=rest + "\n    )\n}"):
            add("keyblob", pair, name, text + "section (0) {\n    keywrap (0) {\n        load {{" + KEY1.lower() + "}} > 0x100;\n    }\n}\n")
    for i, v in enumerate(['"a#b"', '"a//b"', '"a /* b */ c"', '"it\'s"', '"semi;colon"', '"brace}"', '"{{aa}}"', '" lead"',
                           '""', '"(x = 1)"', '"x\\y"']):
        add("options", ("str", "int"), f"special-string-{i}", f"options {{\n    a = {v};\n    b = 1;\n}}\n")
        add("sources", ("str", "str"), f"special-string-{i}", f"sources {{\n    s = {v};\n}}\n")
    stm = {"file": ('load "f1.bin" > 0x100;', 'load "f2.bin" > 0x200;'), "erase": ("erase 0x100..0x200;", "erase all;"),
           "blob": ("load {{aa bb cc dd}} > 0x10;", "load {{01 02}} > 0x20;"), "char": ("jump 0x10 ('a');", "version_check sec 'b';"),
           "fill": ("load 0x11223344 > 0x100..0x200;", "load 0xC1503057 > 0x300;")}
    for pair in [("file", "file"), ("file", "erase"), ("erase", "erase"), ("blob", "blob"), ("char", "char"),
                 ("fill", "erase"), ("erase", "file"), ("blob", "file")]:
        for name, text in layouts("section (0) {", [stm[pair[0]][0], stm[pair[1]][1]]):
            add("section", pair, name, text)
    return cases


# ---------------------------------------------------------------------------------------------
# family 4: statements -> command dictionaries -> command objects

STMT_PRELUDE = (
    "options {\n    flags = 0x8;\n}\n"
    "constants {\n    BASE = 0x08000400;\n    TOP = 0x08000800;\n    MAGIC = 0x5a5a5a5a;\n    STACK = 0x20000e00;\n"
    "    VER = 2;\n    MEM = 0x120;\n}\n"
    'sources {\n    f1 = "f1.bin";\n    f3 = extern(1);\n}\n'
    f'keyblob (0) {{\n    (\n        start = 0x08000000,\n        end = 0x08000BFF,\n        key = "{KEY0}",\n'
    f'        counter = "{CTR0}",\n        byteSwap = false\n    )\n}}\n'
    f'keyblob (1) {{\n    (\n        start = 0x08001000,\n        end = 0x08002000,\n        key = "{KEY1}",\n'
    f'        counter = "{CTR1}"\n    )\n}}\n'
)
STMTS = {
    "load-source": "load f1 > A;", "load-path": 'load "f2.bin" > A;', "load-extern": "load f3 > A;",
    "load-blob1": "load {{5a}} > A;", "load-blob2": "load {{aa bb}} > A;", "load-blob4": "load {{aa bb cc dd}} > A;",
    "load-blob4-lead0": "load {{00 00 00 01}} > A;", "load-blob8": "load {{ff 2e 90 07 77 5f 1d 20}} > A;",
    "load-blob16": "load {{000102030405060708090a0b0c0d0e0f}} > A;", "load-blob-upper": "load {{AABBCCDD}} > A;",
    "load-sdcard-source": "load sdcard f1 > A;", "load-mmccard-path": 'load mmccard "f2.bin" > A;',
    "load-@288-blob": "load @288 {{aa bb cc dd}} > A;", "load-qspi-blob": "load qspi {{01 02 03 04}} > A;",
    "load-@const-blob": "load @MEM {{aa bb cc dd}} > A;", "load-@9-source": "load @9 f1 > A;",
    "fuse-blob4": "load fuse {{aa bb cc dd}} > A;", "fuse-blob4-lead0": "load fuse {{00 00 00 01}} > A;",
    "fuse-blob8": "load fuse {{88 99 aa bb cc dd ee ff}} > A;", "fuse-blob8-lead0": "load fuse {{00 00 00 00 aa bb cc dd}} > A;",
    "fuse-blob8-tail0": "load fuse {{aa bb cc dd 00 00 00 00}} > A;", "ifr-blob4": "load ifr {{aa bb cc dd}} > A;",
    "@4-blob4": "load @4 {{aa bb cc dd}} > A;", "fuse-pattern16": "load fuse 0xaabb > A;",
    "fuse-pattern32": "load fuse 0xffffffff > A;", "ifr-pattern": "load ifr 0x1234567 > A;",
    "fill-word": "load 0xC1503057 > A;", "fill-word-range": "load 0xC1503057 > A..B;", "fill-3byte": "load 0x3c000 > A;",
    "fill-3byte-range": "load 0x3c000 > A..B;", "fill-byte-range": "load 0x55.b > A..B;",
    "fill-half-range": "load 0x1122.h > A..B;", "fill-half": "load 0x1122.h > A;", "fill-expr-range": "load (0xC1500000 | 0x3057) > A..B;",
    "fill-zero-range": "load 0 > A..B;",
    "erase-address": "erase A;", "erase-range": "erase A..B;", "erase-all": "erase all;", "erase-unsecure-all": "erase unsecure all;",
    "erase-@8-all": "erase @8 all;", "erase-@288-range": "erase @288 A..B;", "erase-sdcard-range": "erase sdcard A..B;",
    "erase-mmccard-range": "erase mmccard A..B;", "erase-qspi-range": "erase qspi A..B;", "erase-flexspinor-all": "erase flexspinor all;",
    "erase-@const-range": "erase @MEM A..B;", "erase-semcnor-range": "erase semcnor A..B;", "erase-internal": "erase internal A..B;",
    "enable-@9": "enable @9 A;", "enable-@0x9": "enable @0x9 A;", "enable-qspi": "enable qspi A;", "enable-sdcard": "enable sdcard A;",
    "enable-plain": "enable A;", "enable-@288": "enable @288 A;", "enable-spinand": "enable spinand A;",
    "jump": "jump A;", "jump-arg": "jump A (ARG);", "jump-empty-arg": "jump A ();", "jump_sp": "jump_sp SP A;",
    "jump_sp-arg": "jump_sp SP A (ARG);", "call": "call A;", "call-arg": "call A (ARG);",
    "version-sec": "version_check sec V;", "version-nsec": "version_check nsec V;",
    "keystore_to_nv-@9": "keystore_to_nv @9 A;", "keystore_from_nv-@9": "keystore_from_nv @9 A;",
    "keystore_to_nv-@1": "keystore_to_nv @1 A;", "keystore_to_nv-plain": "keystore_to_nv A;",
    "keystore_from_nv-name": "keystore_from_nv flexspinor A;",
    "keywrap-0": "keywrap (0) {\n        load {{" + KEY1.lower() + "}} > A;\n    }",
    "keywrap-1": "keywrap (1) {\n        load {{" + KEY0.lower() + "}} > A;\n    }",
    "keywrap-expr-id": "keywrap (VER - 1) {\n        load {{" + KEY0.lower() + "}} > A;\n    }",
    "encrypt-0-source": "encrypt (0) {\n        load f1 > A;\n    }",
    "encrypt-1-source": "encrypt (1) {\n        load f1 > A;\n    }",
    "encrypt-1-path": 'encrypt (1) {\n        load "f2.bin" > A;\n    }',
    "reset": "reset;",
}
OPERANDS = [
    {"A": "0x08000400", "B": "0x08000800", "ARG": "0x5a5a5a5a", "SP": "0x20000e00", "V": "0x2"},
    {"A": "BASE", "B": "TOP", "ARG": "MAGIC", "SP": "STACK", "V": "VER"},
    {"A": "(BASE + 0x10)", "B": "TOP - 0x10", "ARG": "MAGIC & 0xFF00", "SP": "STACK | 0x100", "V": "VER + 1"},
    {"A": "(BASE | 0x20)", "B": "(1 << 28)", "ARG": "MAGIC >> 4", "SP": "0x20000000 + 1K", "V": "0x10 / 4"},
    {"A": "BASE + 0x10", "B": "BASE + 2 * 0x100", "ARG": "3 * 5", "SP": "0x1000 * 2", "V": "2 * 2"},
    {"A": "0", "B": "0xFFFFFFFC", "ARG": "0", "SP": "0", "V": "0"},
    {"A": "0xFFFFFFF0", "B": "0xFFFFFFFF + 1", "ARG": "0xFFFFFFFF", "SP": "0xFFFFFFFF", "V": "0xFFFFFFFF"},
]
_SUBST = re.compile(r"\b(A|B|ARG|SP|V)\b")
REPRESENTATIVES = ["load-source", "load-blob4", "fuse-blob8", "fill-word-range", "erase-range", "erase-@8-all",
                   "enable-@9", "jump_sp-arg", "version-nsec", "keystore_to_nv-@9", "keywrap-0", "encrypt-1-source"]


def stmt_text(name: str, ops: dict) -> str:
    return _SUBST.sub(lambda m: ops[m.group(1)], STMTS[name])


def stmt_program(sections: list, files: dict, ops: dict = OPERANDS[0], lfc: bool = False) -> dict:
    """sections: [(id expression, [statement names])]"""
    out = [STMT_PRELUDE]
    for sid, names in sections:
        out.append(f"section ({sid}) {{\n" + "".join(f"    {stmt_text(n, ops)}\n" for n in names) + "}\n")
    c = {"bd": "".join(out), "extern": ["e0.bin", "e1.bin"], "files": files, "cmds": True}
    if lfc:
        c["lfc"] = True
    return c


def statement_cases(files: dict, tier: str) -> list:
    names = list(STMTS)
    cases = []
    for n in names:
        for ops in OPERANDS:
            cases.append(stmt_program([("0", [n])], files, ops))
    for a in names:
        for b in names:
            cases.append(stmt_program([("0", [a, b])], files))
    reps = REPRESENTATIVES if tier == "quick" else names[::3] + REPRESENTATIVES
    reps = list(dict.fromkeys(reps))
    if tier == "quick":
        for t in itertools.product(reps, repeat=3):
            cases.append(stmt_program([("0", list(t))], files))
    else:
        for t in itertools.product(reps, repeat=3):
            cases.append(stmt_program([("0", list(t))], files, OPERANDS[1]))
    # 1..3 sections x 0..3 statements, statements taken round-robin from the alphabet
    k = 0
    for nsec in (1, 2, 3):
        for counts in itertools.product(range(4), repeat=nsec):
            for ids in (["0", "1", "2"], ["2", "1", "0"], ["VER", "VER + 1", "(VER << 1) + 1"], ["5", "5", "5"]):
                secs = []
                for i, cnum in enumerate(counts):
                    secs.append((ids[i], [names[(k + j) % len(names)] for j in range(cnum)]))
                    k += cnum
                cases.append(stmt_program(secs, files, OPERANDS[1]))
    return cases


# family 7: key blobs are named by their NUMBER — every order of 1..3 `keyblob (N)` blocks with
# distinct numbers from {0,1,2,3} (out of order, gaps, not starting at 0); every declared number is
# used by an encrypt and a keywrap statement, one undeclared number must be refused


def keyblob_order_grammar() -> Grammar:
    g = Grammar()
    for mask in range(16):
        g.prod(("kb", mask), (), build=lambda: ())
        for n in range(4):
            if not mask & (1 << n):
                g.prod(("kb", mask), (n, NT(("kb", mask | (1 << n)))), build=lambda n, rest: (n,) + rest, weight=1)
    return g


def _kb_def(n: int) -> dict:
    return {"start": 0x08000000 + n * 0x1000, "end": 0x08000FFF + n * 0x1000,
            "key": bytes((0x10 * (n + 1) + i) & 0xFF for i in range(16)).hex(),
            "ctr": bytes((0xA0 + 0x11 * n + i) & 0xFF for i in range(8)).hex()}


def _kb_block(n: int, end: Optional[int] = None, swap: Optional[str] = None) -> str:
    d = _kb_def(n)
    e = d["end"] if end is None else end
    tail = f',\n        byteSwap = {swap}' if swap else ""
    return (f'keyblob ({n}) {{\n    (\n        start = {d["start"]:#x},\n        end = {e:#x},\n'
            f'        key = "{d["key"]}",\n        counter = "{d["ctr"]}"{tail}\n    )\n}}\n')


KB_KEK = "0102030405060708090a0b0c0d0e0f00"


def keyblob_number_cases(seed: int) -> list:
    files = {"img.bin": core.seeded_bytes(seed, "c19-img", 100)}
    head = 'options {\n    flags = 0x8;\n}\nsources {\n    img = "img.bin";\n}\n'
    g = keyblob_order_grammar()
    cases = []
    for size, _i, order in g.smallest_first(("kb", 0), 3, 1):
        blocks = "".join(_kb_block(n) for n in order)
        st = []
        for n in sorted(order, reverse=True):
            st.append(f"    encrypt ({n}) {{\n        load img > {_kb_def(n)['start']:#x};\n    }}\n")
            st.append(f"    keywrap ({n}) {{\n        load {{{{{KB_KEK}}}}} > {0x100 + 0x40 * n:#x};\n    }}\n")
        cases.append({"bd": head + blocks + "section (0) {\n" + "".join(st) + "}\n", "files": files, "cmds": True, "lfc": True,
                      "tag": f"keyblobs {order}"})
        u = min(n for n in range(4) if n not in order)
        cases.append({"bd": head + blocks + f"section (0) {{\n    encrypt ({u}) {{\n        load img > {_kb_def(u)['start']:#x};\n    }}\n}}\n",
                      "files": files, "cmds": True, "lfc": True, "tag": f"keyblobs {order} encrypt undeclared {u}"})
        if size <= 2:
            cases.append({"bd": head + blocks + f"section (0) {{\n    keywrap ({u}) {{\n        load {{{{{KB_KEK}}}}} > 0x100;\n    }}\n}}\n",
                          "files": files, "cmds": True, "lfc": True, "tag": f"keyblobs {order} keywrap undeclared {u}"})
    return cases


# family 8: encrypt with the decryption-enable (ADE) / valid (VLD) bits of the key blob's `end` in all
# four combinations x payload lengths around the 512-byte image alignment x payload kinds
ENC_LENGTHS = [4, 100, 511, 512, 513]


def encrypt_flag_cases(seed: int) -> list:
    files = {f"p{n}.bin": core.seeded_bytes(seed, f"c19-p{n}", n) for n in ENC_LENGTHS}
    head = ("options {\n    flags = 0x8;\n}\nsources {\n"
            + "".join(f'    p{n} = "p{n}.bin";\n' for n in ENC_LENGTHS) + "}\n")
    cases = []

    def body(n: int) -> str:
        a = _kb_def(n)["start"]
        st = [f"    encrypt ({n}) {{\n        load p{ln} > {a:#x};\n    }}\n" for ln in ENC_LENGTHS]
        st.append(f"    encrypt ({n}) {{\n        load {{{{a1 b2 c3 d4}}}} > {a:#x};\n    }}\n")
        return "".join(st)

    for fl in range(4):
        for n in (0, 2):
            end = (_kb_def(n)["end"] & ~7) | fl
            cases.append({"bd": head + _kb_block(n, end) + "section (0) {\n" + body(n) + "}\n", "files": files, "cmds": True,
                          "lfc": True, "tag": f"encrypt flags {fl} keyblob {n}"})
    # one blob enabled, one bypassed, in one program (and byteSwap on the enabled one)
    for swap in (None, "true"):
        cases.append({"bd": head + _kb_block(1, (_kb_def(1)["end"] & ~7) | 1) + _kb_block(0, None, swap)
                      + "section (0) {\n" + body(0) + body(1) + "}\n", "files": files, "cmds": True, "lfc": True,
                      "tag": f"encrypt mixed swap={swap}"})
    return cases


# ---------------------------------------------------------------------------------------------
# family 5: constructs documented as unsupported must be refused

UNSUPPORTED = {
    "if": "section (0) {\n    if 1 {\n        erase all;\n    }\n}\n",
    "if-after-statement": "section (0) {\n    erase all;\n    if 0 {\n        erase all;\n    }\n}\n",
    "if-else": "section (0) {\n    if 1 < 2 {\n        erase all;\n    } else {\n        reset;\n    }\n    erase 4;\n}\n",
    "if-else-if": "section (0) {\n    if 0 {\n    } else if 1 {\n        erase all;\n    }\n}\n",
    "if-empty": "section (0) {\n    if defined(x) {\n    }\n}\n",
    "if-in-second-section": "section (0) {\n    erase all;\n}\nsection (1) {\n    if 1 {\n        erase all;\n    }\n}\n",
    "from": 'sources {\n    f = "f1.bin";\n}\nsection (0) {\n    from f {\n        load 1 > 2;\n    }\n}\n',
    "from-empty": 'sources {\n    f = "f1.bin";\n}\nsection (0) {\n    from f {\n    }\n}\n',
    "mode": "section (0) {\n    mode 1;\n}\n",
    "mode-after": "section (0) {\n    erase all;\n    mode 0;\n    erase all;\n}\n",
    "info": 'section (0) {\n    info "hello";\n}\n',
    "warning": 'section (0) {\n    erase all;\n    warning "hello";\n}\n',
    "error": 'section (0) {\n    error "hello";\n    erase all;\n}\n',
    "section-ref": "section (0) {\n    load $text > 0x100;\n}\n",
    "section-ref-negated": "section (0) {\n    load ~$text > 0x100;\n}\n",
    "section-ref-list": "section (0) {\n    load $a, $b > 0x100;\n}\n",
    "section-ref-from": 'sources {\n    f = "f1.bin";\n}\nsection (0) {\n    load $a from f > 0x100;\n}\n',
    "section-from-source": 'sources {\n    f = "f1.bin";\n}\nsection (0) <= f;\n',
    "section-from-source-second": 'sources {\n    f = "f1.bin";\n}\nsection (0) {\n}\nsection (1) <= f;\n',
    "sizeof-ident": "constants {\n    a = 1;\n}\noptions {\n    o = sizeof(a);\n}\n",
    "sizeof-in-expression": "constants {\n    a = 1;\n}\noptions {\n    o = 4 + sizeof(a);\n}\n",
    "sizeof-operand": "constants {\n    a = 1;\n}\nsection (0) {\n    erase sizeof(a);\n}\n",
    "sizeof-symbol": 'sources {\n    f = "f1.bin";\n}\noptions {\n    o = sizeof(f?:main);\n}\n',
    "symbol-ref-option": 'sources {\n    f = "f1.bin";\n}\noptions {\n    o = f?:main;\n}\n',
    "symbol-ref-address": 'sources {\n    f = "f1.bin";\n}\nsection (0) {\n    erase f?:main;\n}\n',
    "symbol-ref-call": 'sources {\n    f = "f1.bin";\n}\nsection (0) {\n    call f?:main;\n}\n',
    "source-call-target": 'sources {\n    f = "f1.bin";\n}\nsection (0) {\n    jump f;\n}\n',
    "source-attributes": 'sources {\n    f = "f1.bin" (a = 1);\n}\n',
    "source-attributes-two": 'sources {\n    f = "f1.bin" (a = 1, b = "x");\n    g = "f2.bin";\n}\n',
    "source-attributes-empty": 'sources {\n    f = "f1.bin" ();\n}\n',
    "source-attributes-extern": "sources {\n    f = extern(0) (a = 1);\n}\n",
    "section-options": "section (0; a = 1) {\n}\n",
    "section-options-two": 'section (0; a = 1, b = "x") {\n    erase all;\n}\n',
    "section-options-empty": "section (0;) {\n}\n",
    "load-to-dot": "section (0) {\n    load 1 > .;\n}\n",
    "load-source-to-dot": 'sources {\n    f = "f1.bin";\n}\nsection (0) {\n    load f > .;\n}\n',
    "load-without-target": "section (0) {\n    load 0x55;\n}\n",
    "load-source-without-target": 'sources {\n    f = "f1.bin";\n}\nsection (0) {\n    load f;\n    erase all;\n}\n',
    "keyblob-empty": "keyblob (0) {\n    (\n    )\n}\n",
    "keyblob-two-groups": "keyblob (0) {\n    (\n        start = 0\n    )\n    (\n        end = 1\n    )\n}\n",
    "ident-call": 'sources {\n    f = "f1.bin";\n}\noptions {\n    o = exists(f);\n}\n',
    "extern-out-of-range": "sources {\n    f = extern(2);\n}\n",
    "extern-far-out-of-range": "sources {\n    f = extern(0xFFFFFFFF);\n}\n",
    "extern-negative": "sources {\n    f = extern(-1);\n}\n",
    "extern-negative-expression": "sources {\n    f = extern(1 - 3);\n}\n",
    "extern-empty-list": "sources {\n    f = extern(0);\n}\n",
}


# family 6: one parser object used for two programs in a row (state must not leak)
REUSE = [
    "constants {\n    A = 1;\n    B = A + 1;\n}\noptions {\n    o = A + B;\n}\n",
    "constants {\n    A = 2;\n}\noptions {\n    o = A;\n    p = defined(B);\n}\n",
    "options {\n    o = defined(A);\n    A = 5;\n}\n",
    'sources {\n    A = "f1.bin";\n    s = extern(0);\n}\nsection (0) {\n    load A > 0x10;\n    load s > 0x20;\n}\n',
    'sources {\n    s = extern(1);\n}\nsection (1) {\n    load s > 0x20;\n}\n',
    "constants {\n    s = 4;\n}\nsection (s) {\n    erase 0..s;\n}\n",
    f'keyblob (0) {{\n    (\n        start = 0,\n        end = 0x400,\n        key = "{KEY0}",\n        counter = "{CTR0}"\n    )\n}}\nsection (0) {{\n}}\n',
    f'keyblob (0) {{\n    (\n        start = 0x800,\n        end = 0xC00,\n        key = "{KEY1}",\n        counter = "{CTR1}"\n    )\n}}\n',
    "section (0) {\n    erase all;\n}\nsection (1) {\n    jump 4;\n}\n",
    "section (2) {\n}\n",
    "options {\n    x = 1;\n}\n",
    "",
    "section (0) {\n    erase all;\n    if 1 {\n    }\n}\n",
    "constants {\n    A = 7;\n}\nsection (0) {\n    load 1 > ;\n}\n",
    'sources {\n    B = "f2.bin" (x = 1);\n}\n',
    "constants {\n    A = 1 / 0;\n}\n",
]


def check_reuse_pair(case: dict, cnt: dict) -> list:
    """parse(first) then parse(second) on ONE parser object == parse(second) on a fresh one."""
    BDParser, SPSDKError = _spsdk()
    first, second = case["first"], case["bd"]
    ext = list(case.get("extern") or [])
    fresh = run_bd(second, ext)
    p = BDParser()
    signal.alarm(CASE_TIMEOUT)
    try:
        d1 = snap1 = None
        try:
            d1 = p.parse(first, list(ext))
            snap1 = copy.deepcopy(d1)   # what the caller was handed for the first program
        except Exception:  # noqa
            pass
        try:
            d = p.parse(second, list(ext))
            again: tuple = ("ok", d) if d is not None else ("none",)
        except SPSDKError as e:
            again = ("spsdk", str(e).split("\n")[0][:120])
        except Exception as e:  # noqa
            again = ("exc", type(e).__name__, _short(str(e)))
    except core.Watchdog:
        return [("C19.terminates", "parser-reuse:watchdog", "")]
    finally:
        signal.alarm(0)
    _count(cnt, "programs")
    _count(cnt, "executions", 3)
    _count(cnt, "judged")
    out = []
    if again != fresh:
        out.append(("C19.parser-reuse", f"{fresh[0]}-vs-{again[0]}",
                    f"after parsing {first!r} the same parser object answers {fmt(again)}; a fresh parser answers {fmt(fresh)}"))
    if snap1 is not None and d1 != snap1:
        # the configuration handed out for the first program belongs to the caller: parsing another program with the same
        # parser object must not rewrite it (the command list built from it later would be the second program's)
        out.append(("C19.parser-reuse", "earlier-result-changed",
                    f"the configuration returned for {first!r} was {fmt(snap1)}; after the same parser parsed {second!r} that object reads {fmt(d1)}"))
    return out


def reuse_cases() -> list:
    return [{"kind": "reuse", "first": a, "bd": b, "extern": ["e0.bin", "e1.bin"]} for a in REUSE for b in REUSE]


def unsupported_cases() -> list:
    out = []
    for name, text in UNSUPPORTED.items():
        ext = [] if name == "extern-empty-list" else ["e0.bin", "e1.bin"]
        out.append({"bd": text, "extern": ext, "tag": name, "expect_unsupported": True})
    return out


# ---------------------------------------------------------------------------------------------
# load_from_config on a representative of every statement class, and the byteSwap option


def _header_diff(cls: str, kind: str, args: dict, exp: dict, dec: dict, pre: str) -> list:
    viol = []
    if exp.get("tag") == sem.TAGS["PROG"] and dec["tag"] == exp["tag"]:
        # the two data words and the 8-byte flag are one operand
        bad = [f for f in ("count", "data", "flags") if f in exp and dec[f] != exp[f]]
        if bad:
            viol.append(("C19.command", f"{cls}:data-words",
                         f"{pre}{kind} {fmt(args)}: word1/word2/flags = {dec['count']:#x}/{dec['data']:#x}/{dec['flags']:#x}, "
                         f"expected {exp.get('count', 0):#x}/{exp.get('data', 0):#x}/{exp.get('flags', dec['flags']):#x}"))
        fields: tuple = ("tag", "address")
    else:
        fields = ("tag", "address", "count", "data", "flags")
    for f in fields:
        if f in exp and dec[f] != exp[f]:
            viol.append(("C19.command", f"{cls}:{f}",
                         f"{pre}{kind} {fmt(args)}: header {f} = {dec[f]:#x}, expected {exp[f]:#x}"))
    return viol


def check_lfc(case: dict, cnt: dict) -> list:
    """The path of `nxpimage sb21 export -c file.bd`: BootImageV21.parse_sb21_config(file, extern)
    -> BootImageV21.load_from_config(config) -> sections -> command objects."""
    from spsdk.crypto.signature_provider import get_signature_provider
    from spsdk.exceptions import SPSDKError
    from spsdk.sbfile.sb2.images import BootImageV21

    from vf import fixtures

    BDParser, _ = _spsdk()
    viol: list = []
    ext = list(case.get("extern") or [])
    try:
        ref = BDParser().parse(case["bd"], list(ext))  # the statement dictionaries the expectations are built from
    except Exception:  # noqa  (judged by check_case)
        return viol
    if not isinstance(ref, dict):
        return viol
    fdir = _filedir(case)
    files = _files(case)
    keyblobs = norm(ref.get("keyblobs", []))
    want = ref.get("sections", [])
    exps = []
    for w in want:
        row = []
        for cmd in w.get("commands") or []:
            for kind, args in cmd.items():
                row.append((kind, args, sem.expected_simple(kind, args) or sem.expected_command(kind, norm(args), keyblobs, files)))
        exps.append(row)
    must_refuse = [e["refuse"] for row in exps for (_k, _a, e) in row if e and e.get("refuse")]
    cert = fixtures.path("certs/rsa2048_root0_nonca.der")
    bd_path = os.path.join(fdir, f"cmd-{core.short_hash(case['bd'])}.bd")
    with open(bd_path, "w", encoding="utf-8") as f:
        f.write(case["bd"])
    _count(cnt, "load_from_config_runs")
    signal.alarm(30)
    try:
        config = BootImageV21.parse_sb21_config(bd_path, external_files=list(ext))
        sp = get_signature_provider(local_file_key=fixtures.key_path("rsa2048_0"))
        img = BootImageV21.load_from_config(
            config, key_file_path="00" * 32, signature_provider=sp, signing_certificate_file_paths=[cert],
            root_key_certificate_paths=[cert], rkth_out_path=os.path.join(fdir, "hash.bin"), search_paths=[fdir])
        secs = [list(s) for s in img]
        uids = [s.uid for s in img]
        raws = [[c.export() for c in s] for s in secs]
    except (SPSDKError, KeyError) as e:
        _count(cnt, f"load_from_config_refused:{type(e).__name__}")
        if must_refuse:
            _count(cnt, "load_from_config_refused_as_required")
        return viol
    except core.Watchdog:
        return [("C19.terminates", "load_from_config:watchdog", "")]
    except Exception as e:  # noqa
        return [("C19.error-type", f"load_from_config:{type(e).__name__}", _short(str(e)))]
    finally:
        signal.alarm(0)
    if must_refuse:
        return [("C19.command", "load_from_config:undeclared-keyblob", f"{must_refuse[0]}, yet an image was built")]
    if len(raws) != len(want) or any(len(r) != len(row) for r, row in zip(raws, exps)):
        return [("C19.sections", "count", f"sections/commands {[len(r) for r in raws]}, "
                 f"statements {[len(row) for row in exps]}")]
    if uids != [norm(w.get("section_id")) for w in want]:
        _count(cnt, "observed:section_uid_is_position_not_section_id")
    for r, row in zip(raws, exps):
        for raw, (kind, args, exp) in zip(r, row):
            if exp is None:
                continue
            _count(cnt, "load_from_config_commands_compared")
            viol.extend(judge_raw(_stmt_class(kind, args), kind, args, exp, raw, keyblobs, "load_from_config: "))
    return viol


def check_byteswap(case: dict, cnt: dict) -> list:
    """Documented keyblob option `byteSwap`: with the decryption-enable bits set in `end`, the
    encrypted payload for byteSwap = true must differ from the one for byteSwap = false
    (c = d ^ ks against c' = d ^ swap8(ks))."""
    files = _files(case)
    fdir = _filedir(case)
    pay = {}
    for flag in ("false", "true"):
        text = (f'sources {{\n    f1 = "f1.bin";\n}}\nkeyblob (0) {{\n    (\n        start = 0x08000000,\n        end = 0x08000BFF,\n'
                f'        key = "{KEY0}",\n        counter = "{CTR0}",\n        byteSwap = {flag}\n    )\n}}\n'
                "section (0) {\n    encrypt (0) {\n        load f1 > 0x08000400;\n    }\n}\n")
        pr = sem.evaluate_program(text)
        got = run_bd(text, None)
        _count(cnt, "programs")
        _count(cnt, "executions")
        if got[0] != "ok" or diff_dict(got[1], pr) is not None:
            return []  # judged elsewhere
        args = got[1]["sections"][0]["commands"][0]["encrypt"]
        out = build_command("encrypt", args, got[1].get("keyblobs", []), fdir)
        if out[0] != "ok":
            _count(cnt, f"byteswap_pair_not_built:{out[0]}")
            return []
        pay[flag] = sem.decode_command(out[1])["payload"]
        case = dict(case, bd=text)
    _count(cnt, "judged")
    if pay["false"][:len(files["f1.bin"])] == files["f1.bin"]:
        return []  # not encrypted at all: nothing to say about the option
    if pay["false"] == pay["true"]:
        return [("C19.keyblob-option", "byteSwap-ignored",
                 "encrypt payload identical for byteSwap = true and byteSwap = false: " + pay["true"][:16].hex())]
    return []


# ---------------------------------------------------------------------------------------------
# worker


def _strip(case: dict) -> dict:
    return {k: v for k, v in case.items() if k not in ("tag", "noreuse")}


def run_one(case: dict, cnt: dict) -> list:
    if case.get("kind") == "byteswap":
        return check_byteswap(case, cnt)
    if case.get("kind") == "reuse":
        return check_reuse_pair(case, cnt)
    before = cnt.get("compared_equal", 0) + cnt.get("unsupported_constructs", 0)
    v = check_case(case, cnt)
    if case.get("lfc"):
        v = v + check_lfc(case, cnt)
    if v or cnt.get("compared_equal", 0) + cnt.get("unsupported_constructs", 0) > before:
        _count(cnt, "judged")
    if case.get("expect_unsupported") and cnt.get("unsupported_constructs", 0) == 0 and not v:
        raise core.HarnessError(f"oracle does not classify as unsupported: {case['bd']!r}")
    return v


def w_task(task: dict) -> dict:
    cnt: dict = {}
    best: dict = {}

    def take(vs: list, case: dict) -> None:
        for (cl, disc, det) in vs:
            _count(cnt, "violation_records")
            cur = best.get((cl, disc))
            if cur is None or len(case["bd"]) < len(cur[3]["bd"]):
                best[(cl, disc)] = (cl, disc, det, _strip(case))

    fam = task["fam"]
    tier = task.get("tier", "quick")
    if fam in ("arith", "bool"):
        s = tuple(task["s"])
        g = arith_grammar(*task["G"]) if fam == "arith" else bool_grammar(*task["G"])
        top = ("E" if fam == "arith" else "B", s)
        nth = 0
        for toks in g.derivations(top, task["n"], task["lo"], task["hi"]):
            m = toks.count("?")
            _count(cnt, "skeletons")
            if fam == "arith":
                if task.get("leaves") == "S3":
                    leaves = list(itertools.product(S3[:3], repeat=m))
                else:
                    leaves = _arith_scheme(m, s[1], task["n"], tier, s[0])
            else:
                leaves = bool_leaves(m, tier) if not (m >= 4 and s[1] >= 1) else [tuple(x[:m]) for x in BSEQS]
            for lv in leaves:
                case = {"bd": expr_program(render(toks, lv, task.get("mode", "spaced")))}
                nth += 1
                if nth % 4:
                    case["noreuse"] = True
                take(run_one(case, cnt), case)
    elif fam == "literals":
        for e in LITERALS:
            for wrap in ("{}", "-{}", "({})", "1 + {}", "{} + 1"):
                case = {"bd": expr_program(wrap.format(e))}
                take(run_one(case, cnt), case)
    elif fam == "contexts":
        g = arith_grammar(1, 1)
        nth = 0
        for s in ((0, 0), (1, 0), (0, 1)):
            for toks in g.derivations(("E", s), 1):
                for lv in itertools.product(S_FULL, repeat=toks.count("?")):
                    e = render(toks, lv, "spaced")
                    case = {"bd": CONTEXTS[task["ctx"]](e), "extern": EXTERN4}
                    nth += 1
                    if nth % 4:
                        case["noreuse"] = True
                    take(run_one(case, cnt), case)
    elif fam == "structure":
        g = _W.get("structure") or _W.setdefault("structure", structure_grammar(task["mult"]))
        files = _task_files(task)
        for seq in g.derivations(("pre", (0, 0, 0, 0)), task["n"], task["lo"], task["hi"]):
            case = render_structure(seq, files)
            take(run_one(case, cnt), case)
    elif fam == "list":
        for case in task["cases"]:
            case = core.unhex(case)
            take(run_one(case, cnt), case)
    else:
        raise core.HarnessError(f"unknown family {fam}")
    return {"viol": list(best.values()), "count": {f"{task.get('label', fam)}|{k}": v for k, v in cnt.items()}}


def _arith_scheme(m: int, u: int, n: int, tier: str, p: int = 0) -> list:
    if m <= 2 and n <= 2:
        return list(itertools.product(S_FULL, repeat=m))
    if m <= 3 and u == 0:
        return list(itertools.product(S3, repeat=m))
    if m <= 2:
        return list(itertools.product(S3, repeat=m))
    seqs = SEQS if (tier == "thorough" and n <= 4) else SEQS[:2]
    if tier == "quick" and n >= 4 and p >= 1:
        seqs = SEQS[:1]
    return [tuple(s[:m]) for s in seqs]


def _task_files(task: dict) -> dict:
    return seeded_files(task.get("seed", 0))


def _init_worker() -> None:
    import resource

    try:
        resource.setrlimit(resource.RLIMIT_AS, (8 << 30, 8 << 30))
    except (ValueError, OSError):
        pass
    import logging

    logging.disable(logging.CRITICAL)
    _spsdk()


# ---------------------------------------------------------------------------------------------
# run / replay


def _plan(tier: str) -> dict:
    if tier == "quick":
        return {
            "arith": {1: [(0, 0), (1, 0), (0, 1)], 2: [(0, 0), (1, 0), (2, 0), (0, 1), (1, 1), (0, 2)],
                      3: [(0, 0), (1, 0), (2, 0), (3, 0), (0, 1), (1, 1), (2, 1), (0, 2)],
                      4: [(0, 0), (1, 0), (0, 1)]},
            "arith_G": (3, 2),
            "bool": {1: [(0, 0, 0), (1, 0, 0), (0, 1, 0), (0, 0, 1)],
                     2: [(0, 0, 0), (1, 0, 0), (2, 0, 0), (0, 1, 0), (1, 1, 0), (0, 2, 0), (0, 0, 1), (1, 0, 1), (0, 1, 1)],
                     3: [(0, 0, 0), (1, 0, 0), (0, 1, 0), (0, 0, 1), (0, 1, 1), (0, 2, 0)]},
            "bool_G": (2, 2, 1),
            "mult": 2,
        }
    return {
        "arith": {1: [(0, 0), (1, 0), (0, 1)], 2: [(0, 0), (1, 0), (2, 0), (0, 1), (1, 1), (0, 2)],
                  3: [(p, u) for u in range(3) for p in range(4)],
                  4: [(0, 0), (1, 0), (2, 0), (3, 0), (0, 1), (1, 1), (2, 1), (0, 2)],
                  5: [(0, 0), (1, 0), (0, 1)]},
        "arith_G": (3, 2),
        "bool": {1: [(0, 0, 0), (1, 0, 0), (0, 1, 0), (0, 0, 1)],
                 2: [(p, u, a) for p in range(3) for u in range(3) for a in range(2)],
                 3: [(p, u, a) for p in range(3) for u in range(3) for a in range(2)],
                 4: [(0, 0, 0), (1, 0, 0), (2, 0, 0), (0, 0, 1), (1, 0, 1), (0, 1, 0), (1, 1, 0), (0, 1, 1)]},
        "bool_G": (2, 2, 1),
        "mult": 2,
    }


def _chunks(xs: list, n: int) -> list:
    return [xs[i:i + n] for i in range(0, len(xs), n)]


def build_tasks(tier: str, seed: int) -> list:
    plan = _plan(tier)
    files = seeded_files(seed)
    g0 = structure_grammar(1)
    base = [dict({"bd": expr_program("1 + 2")}, must_accept=True),
            dict({"bd": expr_program("c3 < c7 && !0")}, must_accept=True),
            dict(stmt_program([("0", ["load-source", "erase-range", "jump"])], files), must_accept=True),
            dict(render_structure(g0.unrank(("pre", (0, 0, 0, 0)), 4, 0), files), must_accept=True)]
    tasks: list = [{"fam": "list", "label": "base", "cases": base}, {"fam": "literals", "label": "literals"}]
    tasks += [{"fam": "list", "label": "unsupported", "cases": unsupported_cases()}]
    tasks += [{"fam": "list", "label": "byteswap", "cases": [{"kind": "byteswap", "bd": "", "files": files}]}]
    tasks += [{"fam": "list", "label": "parser-reuse", "cases": reuse_cases()}]
    for ch in _chunks(layout_cases(files), 100):
        tasks.append({"fam": "list", "label": "layout", "cases": ch})
    reps = [stmt_program([("0", [n])], files, OPERANDS[2], lfc=True) for n in STMTS]
    reps += [stmt_program([("VER", ["erase-all", "jump"]), ("1", []), ("7", ["load-source"])], files, OPERANDS[1], lfc=True)]
    for ch in _chunks(reps, 12):
        tasks.append({"fam": "list", "label": "load_from_config", "cases": ch})
    for ch in _chunks(keyblob_number_cases(seed), 16):
        tasks.append({"fam": "list", "label": "keyblob-numbers", "cases": ch})
    for ch in _chunks(encrypt_flag_cases(seed), 5):
        tasks.append({"fam": "list", "label": "encrypt-flags", "cases": ch})
    for ch in _chunks(statement_cases(files, tier), 400):
        tasks.append({"fam": "list", "label": "statements", "cases": ch})
    for c in CONTEXTS:
        tasks.append({"fam": "contexts", "label": "contexts", "ctx": c})
    g = structure_grammar(plan["mult"])
    for n, lo, hi in g.blocks(("pre", (0, 0, 0, 0)), range(0, 4 * plan["mult"] + 1), 500):
        tasks.append({"fam": "structure", "label": "structure", "n": n, "lo": lo, "hi": hi, "mult": plan["mult"], "seed": seed})
    for mode in ("compact", "wide"):
        ga = arith_grammar(*plan["arith_G"])
        for n in (1, 2):
            for s in plan["arith"][n]:
                lv = None if n == 1 else "S3"
                for _n, lo, hi in ga.blocks(("E", s), [n], 400):
                    t = {"fam": "arith", "label": f"arith-{mode}", "n": n, "s": s, "lo": lo, "hi": hi, "G": plan["arith_G"],
                         "mode": mode, "tier": tier}
                    if n == 2:
                        t["leaves"] = lv
                    tasks.append(t)
    # big families, smallest size first, arith and bool interleaved by size
    ga = arith_grammar(*plan["arith_G"])
    gb = bool_grammar(*plan["bool_G"])
    for n in range(1, 6):
        for fam, g, G in (("arith", ga, plan["arith_G"]), ("bool", gb, plan["bool_G"])):
            for s in plan[fam].get(n, []):
                top = ("E" if fam == "arith" else "B", s)
                c = g.count(top, n)
                if not c:
                    continue
                some = g.unrank(top, n, 0)
                m = some.count("?")
                per = len(_arith_scheme(m, s[1], n, tier, s[0])) if fam == "arith" else \
                    (len(bool_leaves(m, tier)) if not (m >= 4 and s[1] >= 1) else len(BSEQS))
                block = max(1, 12000 // per)
                for _n, lo, hi in g.blocks(top, [n], block):
                    tasks.append({"fam": fam, "label": f"{fam}-{n}", "n": n, "s": s, "lo": lo, "hi": hi, "G": G, "tier": tier,
                                  "size": n})
    return tasks


def run(ctx: core.Ctx) -> None:
    sem.selftest()
    from vf.engine import grammar as _g

    _g.selftest()
    tier = ctx.tier
    tasks = build_tasks(tier, ctx.seed)
    ctx.rule = (
        "every case is one BD program text. Integer expressions: every derivation (skeleton) of the chain grammar "
        "E -> I | E op I, I -> leaf | ( E op I ) | +I | -I over the 10 binary operators with <= N operator nodes and a "
        "stated budget of parenthesis groups / unary signs per size (coverage.bounds), unranked by vf/engine/grammar.py, "
        "x leaf assignments (all pairs over 16 leaf forms incl. hex, K, char, identifiers, .b/.h/.w for <= 2 leaves; "
        "all triples over {7,3,2,10}; fixed descending / ascending sequences beyond), as `options { o = E; }`, also "
        "compact and wide spacing for <= 2 operators and in 7 other syntactic contexts for <= 1 operator; boolean layer: "
        "the same over the 8 comparison / logical operators, !, parentheses, one arithmetic item, defined(); every literal "
        "form; pre-section blocks in every order with multiplicity <= 2 (7365 sequences); 12 layouts x definition-kind "
        "pairs x 5 block kinds; every statement form x 7 operand sets, all ordered pairs, triples of representatives, "
        "1..3 sections x 0..3 statements x 4 id schemes, each also through SB21Helper (command header + payload) and one per "
        "statement form through BootImageV21.parse_sb21_config -> load_from_config; every order of 1..3 `keyblob (N)` blocks "
        "with distinct numbers from {0,1,2,3} (out of order, gaps, not starting at 0), each declared number used by an "
        "encrypt and a keywrap statement and one undeclared number (must be refused), verified by unwrapping / reading "
        "back through the OTFAD reference model; encrypt with the ADE/VLD bits of the blob's end in all four combinations "
        "x payload lengths {4,100,511,512,513} x file/blob; every construct documented as unsupported. "
        "distinct_nontrivial = programs (distinct texts) on which the semantics defines the result and a comparison took "
        "place (excluded: convention differences, outside subset, refused by SPSDK)")
    done_sizes: dict = {}
    pending_sizes: dict = {}
    for t in tasks:
        if "size" in t:
            pending_sizes[(t["fam"], t["size"])] = pending_sizes.get((t["fam"], t["size"]), 0) + 1
    stopped = False
    fams: dict = {}
    for task, res in ctx.pool_map(w_task, tasks, timeout=900, initfn=_init_worker, chunksize=1):
        vs = []
        if isinstance(res, dict) and "viol" in res:
            vs = res.pop("viol")
        if ctx.absorb({k: v for k, v in task.items() if k != "cases"}, res):
            for (cl, disc, det, case) in vs:
                ctx.viol(cl, disc, case, det)
            for k, v in res.get("count", {}).items():
                lab, key = k.split("|", 1)
                fams.setdefault(lab, {})
                fams[lab][key] = fams[lab].get(key, 0) + v
        if "size" in task:
            key = (task["fam"], task["size"])
            done_sizes[key] = done_sizes.get(key, 0) + 1
        if ctx.time_left() < 15:
            ctx.exhaustive = False
            stopped = True
            break
    for k in list(ctx.counters):
        if "|" in k:
            del ctx.counters[k]
    tot: dict = {}
    for lab, d in fams.items():
        for k, v in d.items():
            tot[k] = tot.get(k, 0) + v
    for k, v in tot.items():
        ctx.counters["total:" + k] = v
    ctx.cov["families"] = {lab: dict(sorted(d.items())) for lab, d in sorted(fams.items())}
    ctx.cov["evaluations"] = tot.get("executions", 0) + tot.get("statements", 0) + tot.get("load_from_config_runs", 0)
    ctx.counters["evaluations"] = ctx.cov["evaluations"]
    ctx.cov["programs"] = tot.get("programs", 0)
    ctx.cov["distinct_nontrivial"] = tot.get("judged", 0)
    plan = _plan(tier)
    ctx.cov["bounds"] = {
        "arith (paren groups, unary signs) per operator count": {str(n): v for n, v in plan["arith"].items()},
        "bool (paren groups, !, arithmetic items) per operator count": {str(n): v for n, v in plan["bool"].items()},
        "block multiplicity": plan["mult"], "sections": "1..3", "statements per section": "0..3",
        "statement forms": len(STMTS), "operand sets": len(OPERANDS), "unsupported constructs": len(UNSUPPORTED),
        "sizes_completed": {f"{f}-{n}": done_sizes.get((f, n), 0) == c for (f, n), c in sorted(pending_sizes.items())},
    }
    if stopped:
        ctx.cov["budget_stop"] = "time budget hit: sizes not marked completed above were cut"
    for t in ("options {\n    o = 7 - 3 * (2 << 1);\n}\n", "options {\n    o = !(2 < 1) && 3 == 3;\n}\n"):
        ctx.sample({"bd": t})
    ctx.sample(_strip(stmt_program([("0", ["fill-byte-range", "erase-@8-all"])], {}, OPERANDS[2])))
    ctx.sample({"bd": UNSUPPORTED["if-else"]})
    ctx.assumptions += [
        "operator table = C (the parser's own `precedence` tuple); arithmetic on exact integers",
        "not compared (counted as excluded): negative operand of / % << >>, division by zero, shift count >= 64, "
        "size suffix of a negative value, decimal literal with leading zero (only the exception type is judged)",
        "the documented grammar is two-level (arithmetic below comparison/logic): texts whose C parse puts a truth value "
        "under an arithmetic operator (`1 | 2 == 2`) are outside the subset",
        "a refusal with SPSDKError is never a violation (counted as rejected_by_spsdk / statements_rejected)",
        "size suffix .b/.h/.w = truncation to 8/16/32 bits (lexer docstring: Byte, Halfword, Word; helper example)",
        "blob bytes are loaded in written order; fuse/ifr words are little-endian; memory-id flag encoding: calibrated on "
        "the elftosb-generated golden files tests/nxpimage/data/sb_sources/SB_files/legacy_real_example*.sb",
        "fill pattern replication for 1- and 2-byte patterns and the length of a fill without a range are not judged",
        "encrypt ciphertext is judged where the load address is the start of the key blob's region (counter base = address); "
        "the end field of a wrapped key blob is compared by its 1 KiB granule only (elftosb golden: flags are forced to ADE|VLD)",
        "the shared-parser re-run (C19.parser-reuse) covers every program of the small families and every 4th program of the "
        "arith / bool / contexts families",
        "VERIF_SEED only changes the content of the data files loaded by `load`",
    ]


def replay(ctx: core.Ctx, rec: dict) -> bool:
    import logging

    logging.disable(logging.CRITICAL)
    signal.signal(signal.SIGALRM, core._alarm)
    case = rec["case"]
    cnt: dict = {}
    vs = run_one(case, cnt)
    hit = False
    print(case.get("bd", ""))
    for v in vs:
        print(v)
        if v[0] == rec["clause"] and v[1] == rec["disc"]:
            hit = True
    print("counters:", cnt)
    return hit
