"""C01 — Master Boot Image: parse(export(x)) = x and a self-describing header (engine E1).

Enumerated (nothing sampled):
  S  structural product, always complete: every (family, target, authentication) triple of the
     device database at the base option set x payload-length class x payload-content class;
     every further revision of every family at the base payload;
  L  option lattice: on one representative (quick; up to three in thorough) of every equivalence
     class of triples (mixin composition + parser candidates + database values read, DESIGN §1.9)
     every option set with <= k departures from the base (k = 1 quick, 2 thorough) plus the full
     product of the certificate dimensions (thorough);
  C  `nxpimage mbi export` / `mbi parse` through click's CliRunner on every class representative.

Oracle (independent of spsdk; vf.ref.rom_mbi reads the exported bytes only):
  C01.builder-exception   a legal configuration makes the builder raise something else than SPSDKError
  C01.rom-structure       the reader cannot follow the layout the header words announce (total length,
                          certificate-block offset -> header, manifest, relocation table ...)
  C01.header-flags/-load/-crc   type | flags, load address, CRC word describe configuration / bytes
  C01.emitted-*           application, TrustZone block, relocation entries, key store, firmware
                          version, certificate-block fields found in the bytes are the configured ones
  C01.parse-fails         MasterBootImage.parse raises on an image SPSDK just exported
  C01.parse-key-source    an image encrypted with the user key itself (empty key store) is decrypted by
                          parse() with the OTP-derived key
  C01.app-roundtrip / C01.settings-roundtrip / C01.class-roundtrip   parse gives back payload, settings
  C01.reexport            parsed object + same keys re-exports identically outside the signature
  C01.config-reload / C01.config-reexport   create_config() -> load -> export, same
  C01.cli-export / C01.cli-parse   the CLI produces what the API produces
  C01.history-repeat / -export / -structure / -exception   object histories: a second export of the unchanged
                          object, and the export after ONE member was replaced through its public attribute,
                          equal the export of a fresh object with the final options (outside ECDSA-random
                          fields) and the header words describe the bytes
"""
from __future__ import annotations

import json
import os
import re
from typing import Any, Optional

from vf import core
from vf.engine.lattice import DimTable
from vf.props import mbi_common as M

LEVEL = "exploration"

_WD: Optional[str] = None


def workdir() -> str:
    global _WD
    if _WD is None or not _WD.endswith(f"w{os.getpid()}"):
        base = os.environ.get("VERIF_WORKDIR") or "/var/tmp/vf-c01"
        _WD = os.path.join(base, f"mbi-w{os.getpid()}")
    return _WD


def quiet() -> None:
    import logging
    import warnings

    logging.disable(logging.CRITICAL)
    warnings.simplefilter("ignore")  # cryptography warns about odd serial numbers in corrupted certificates


def msg_key(msg: str) -> str:
    m = re.sub(r"(/[\w.\-]+)+", "P", msg)
    m = re.sub(r"0x[0-9a-fA-F]+|\d+", "N", m)
    return m.replace("SPSDK: ", "")[:70]


# ---------------------------------------------------------------------------------------------
# oracle


def judge(case: dict, ob: dict) -> list:
    from vf.ref.rom_mbi import Reject

    V: list = []
    exp = ob["exp"]
    t = exp["triple"]
    facts = exp["facts"]
    tag = M.path_tag(t)
    if ob["status"] == "build-exception":
        e = ob["error"]
        V.append(("C01.builder-exception", f"{tag};{e['type']}@{e['where']}", e["msg"]))
        return V
    if ob["status"] == "rejected":
        return V
    img = ob["image"]
    pay = exp["payload"]
    app_al = M.align4(pay)
    lookalike = (case["content"].startswith("reloc-like") and M.has(t, "RelocTable")
                 and len(pay) % 4 == 0 and len(pay) >= 0x48)
    rl = "cfg" if exp.get("reloc") else "lookalike" if lookalike else "none"

    # ---- (c) the independent reader and the header words -------------------------------------
    r = None
    malformed = ""
    try:
        r = M.rom_read(ob, verify=False)
    except Reject as e:
        V.append(("C01.rom-structure", f"{tag};{e.stage}", str(e)))
        malformed = e.stage
    regions = r["regions"] if r else []
    if r and facts["kind"] == "ivt":
        h = r["hdr"]
        if r["class"] != case["auth"]:
            V.append(("C01.header-flags", f"{tag};type", f"type {h['type']} for authentication {case['auth']}"))
        v = exp.get("image_version", 0)
        checks = [("subtype", h["subtype"], exp.get("image_subtype", 0)),
                  ("hwkey", h["hwkey"], bool(exp.get("hwkey", False))),
                  ("keystore", h["keystore"], bool(exp.get("key_store"))),
                  ("reloc", h["reloc"], bool(exp.get("reloc"))),
                  ("version", (h["has_version"], h["image_version"]), (v != 0, v))]
        if "tz_type" in exp:
            checks.append(("tz_type", h["tz_type"], exp["tz_type"]))
        for name, got, want in checks:
            if got != want:
                V.append(("C01.header-flags", f"{tag};{name}", f"{name}: flags word says {got}, configured {want}"))
        if h["load_addr"] != exp.get("load_address", 0):
            V.append(("C01.header-load", tag, f"word 0x34 = {h['load_addr']:#x}, configured "
                                              f"{exp.get('load_address', 0):#x}"))
        if r["class"] == "crc" and r["crc_computed"] != h["word28"]:
            V.append(("C01.header-crc", tag, f"word 0x28 = {h['word28']:#x}, CRC of the bytes {r['crc_computed']:#x}"))
        if "app" in r and M.mask_words(r["app"]) != M.mask_words(app_al):
            V.append(("C01.emitted-app", f"{tag};reloc={rl}",
                      f"application in the image ({len(r['app']):#x} B) is not the payload ({len(app_al):#x} B)"))
        if "tz" in r and r["tz"] != (exp.get("tz") or b""):
            V.append(("C01.emitted-tz", tag, "TrustZone block in the image differs from the configured preset"))
        if exp.get("reloc") and "reloc" in r:
            got = [(e["dst"], e["image"], e["flags"]) for e in r["reloc"]["entries"]]
            want = [(e["dst"], e["data"], 1) for e in exp["reloc"]]
            if got != want:
                V.append(("C01.emitted-reloc", tag, "relocation entries in the image differ from the configured ones"))
        if exp.get("key_store") and r.get("key_store") != exp["key_store"]:
            V.append(("C01.emitted-keystore", tag, "key store bytes in the image differ"))
        if "manifest" in r and r["manifest"]["fw_version"] != exp.get("firmware_version", 0):
            V.append(("C01.emitted-fwver", tag, f"manifest firmware version {r['manifest']['fw_version']:#x}"))
        V += _cert_fields(tag, r, exp)

    # ---- (a) parse ---------------------------------------------------------------------------
    if malformed:
        # the header words do not describe the bytes (reported above): what parse() makes of such an
        # image is a consequence, not a second finding
        return core.dedupe(V)
    if "parse_error" in ob:
        e = ob["parse_error"]
        V.append(("C01.parse-fails", f"{e['type']}@{e['where']}" + (";reloc-lookalike" if lookalike else ""),
                  f"[{tag}] " + e["msg"]))
        return core.dedupe(V)
    pr = ob["parsed"]
    bl = ob["built"]
    if case["auth"] == "encrypted" and exp.get("key_store") == b"":
        # key source KEYSTORE with an empty key store: the image key is the user key itself, but the
        # image cannot say so and parse() has no parameter for it -> one clause, nothing downstream
        if M.mask_words(pr["app"][:0x20]) != M.mask_words(M.expected_app(pay)[:0x20]):
            V.append(("C01.parse-key-source", "encrypted;empty key store",
                      "parse() decrypts with the OTP-derived key; the image was encrypted with the user key "
                      "(key source KEYSTORE, key store empty)"))
        return core.dedupe(V)
    def compare(pr: dict, with_key: bool = True) -> list:
        mism: list = []
        if facts["kind"] == "ivt":
            want_app = M.expected_app(pay)
            got_app = pr["app"]
        else:
            lo, hi = (0x360, 0xC00) if facts["kind"] == "bca-dsc" else (0x3C0, 0x410)
            want_app = app_al[:lo] + bytes(hi - lo) + app_al[hi:]
            got_app = pr["app"][:lo] + bytes(hi - lo) + pr["app"][hi:] if len(pr["app"]) >= hi else pr["app"]
        if got_app != want_app:
            mism.append(("app", _relation(got_app, want_app)))
        if facts["kind"] == "ivt":
            for name in ("load_address", "image_version", "firmware_version", "image_subtype", "hwkey",
                         "tz_type", "tz") + (("user_key",) if with_key else ()):
                if name in exp and pr.get(name) != exp[name]:
                    mism.append((name, f"{name}: parsed {_sh(pr.get(name))}, configured {_sh(exp[name])}"))
            if "key_store" in exp and (pr.get("key_store") or None) != (exp["key_store"] or None):
                mism.append(("key_store", f"key store: parsed {_sh(pr.get('key_store'))}"))
            if "reloc" in exp:
                want = [{"dst": e["dst"], "data": e["data"], "flags": 1} for e in exp["reloc"]] or None
                if pr.get("reloc") != want:
                    mism.append(("reloc", f"relocation entries: parsed {_sh(pr.get('reloc'))[:200]}"))
            if "iv" in exp and r and "iv" in r and pr.get("iv") != r["iv"]:
                mism.append(("iv", f"counter IV: parsed {_sh(pr.get('iv'))}, in the image {_sh(r['iv'])}"))
            if exp.get("iv") and r and r.get("iv") != exp["iv"]:
                if with_key:
                    V.append(("C01.emitted-iv", tag, "counter IV in the image is not the configured one"))
            if r and "cert" in r and _cb_norm(pr.get("cert_block")) != _cb_norm(r["cert"]["bytes"]):
                mism.append(("cert_block", "certificate block of the parsed object does not export to the bytes in the image"))
            if "digest" in exp and exp["digest"] not in ("auto",) and pr.get("digest") != exp["digest"]:
                mism.append(("digest", f"manifest digest: parsed {pr.get('digest')}, configured {exp['digest']}"))
        return mism

    mism = compare(pr)
    # the second parse mode (dek not given / given although not needed): same expectations
    if "parse2_error" in ob:
        e = ob["parse2_error"]
        V.append(("C01.parse-fails", f"{e['type']}@{e['where']};{ob['parse2_mode']}", f"[{tag}] " + e["msg"]))
    elif "parsed2" in ob and set(ob["parsed2"]["mixins"]) == set(pr["mixins"]):
        first = {n for n, _ in mism}
        for name, detail in compare(ob["parsed2"], with_key=False):
            if name not in first:  # what already fails in the main mode is reported there
                clause = "C01.app-roundtrip" if name == "app" else "C01.settings-roundtrip"
                V.append((clause, f"{_owner(tag)};{name};{ob['parse2_mode']}", detail))
    # differences of the re-exports
    rex: list = []
    if "reexport_error" in ob:
        e = ob["reexport_error"]
        rex.append(("C01.reexport", f"{tag};{e['type']}@{e['where']}", e["msg"]))
    elif "reexport" in ob:
        d = M.first_diff(img, ob["reexport"], regions, masked=("signature",))
        if d:
            rex.append(("C01.reexport", f"{tag};{_rk(d[1])}", f"first difference at {d[0]:#x} ({d[1]})"))
    if "config_error" in ob:
        e = ob["config_error"]
        rex.append(("C01.config-reload", f"{e['type']}@{e['where']};{msg_key(e['msg'])}", f"[{tag}] " + e["msg"]))
    elif "config_reexport" in ob:
        d = M.first_diff(img, ob["config_reexport"], regions,
                         masked=("signature", "isk-signature", "digest", "manifest-crc", "isk-hash"))
        if d:
            rex.append(("C01.config-reexport", f"{tag};{_rk(d[1])}", f"first difference at {d[0]:#x} ({d[1]})"))
    if case["auth"] == "encrypted" and any(n == "app" and d_.startswith("content") for n, d_ in mism):
        rex = []  # decrypted with another key: 're-export with the same key' is moot, one finding
    lost = sorted(set(bl["mixins"]) - set(pr["mixins"]))
    lost_fields = {f for m, fs in FIELD_OF_MIXIN.items() if m in lost for f in fs}
    cls_detail = []
    for name, detail in mism:
        if name in lost_fields:
            cls_detail.append(detail)
        elif name == "app":
            V.append(("C01.app-roundtrip", f"{_owner(tag)};reloc={rl};{detail.split(':')[0]}", detail))
        elif name == "reloc" and rl == "lookalike":
            pass  # the look-alike taken for a table: reported by the application clause
        else:
            V.append(("C01.settings-roundtrip", f"{_owner(tag)};{name}", detail))
    if lost and (cls_detail or rex):
        ptr = next((x for x in M.triples(case["fam"], case.get("rev", "latest")) if x["cls"] == pr["class"]), None)
        pname = f"{ptr['tgt']}/{ptr['auth']}" if ptr else pr["class"]
        V.append(("C01.class-roundtrip", f"type {t['image_type']}: {case['tgt']}/{case['auth']} parsed as {pname}",
                  f"parser picks the first class of the image type; lost mixins {lost}: "
                  + "; ".join(cls_detail)[:300] + " | " + "; ".join(x[2] for x in rex)[:300]))
    else:
        V += rex
    return core.dedupe(V)


def _owner(tag: str) -> str:
    """The export mixin that owns collect_data / disassemble_image."""
    return next((x for x in tag.split("+") if x.startswith("App")), tag)


def _rk(region: str) -> str:
    return "length" if region.startswith("length") else region


def _sh(v: Any) -> str:
    if isinstance(v, (bytes, bytearray)):
        return f"<{len(v)} B {bytes(v[:8]).hex()}..>"
    return str(v)


def _relation(got: bytes, want: bytes) -> str:
    if len(got) == 0:
        return "empty: parse returns no application"
    if len(got) != len(want):
        rel = ("payload followed by further bytes" if got[:len(want)] == want else
               "a prefix of the payload" if want[:len(got)] == got else "not a prefix relation")
        return f"wrong-length: {len(got):#x} bytes instead of {len(want):#x} ({rel})"
    i = next(i for i, (a, b) in enumerate(zip(got, want)) if a != b)
    return f"content: same length, first difference at {i:#x}"


FIELD_OF_MIXIN = {"MixinLoadAddress": ["load_address"], "MixinLoadAddressOptional": ["load_address"],
                  "MixinImageVersion": ["image_version"], "MixinHwKey": ["hwkey"],
                  "MixinImageSubType": ["image_subtype"], "MixinFwVersion": ["firmware_version"],
                  "MixinTrustZone": ["tz_type", "tz"], "MixinTrustZoneMandatory": ["tz_type", "tz"],
                  "MixinKeyStore": ["key_store"], "MixinRelocTable": ["reloc"]}


def _cb_norm(b: Any) -> Any:
    """Certificate block v1 bytes with the image-length field (set at export time) blanked."""
    if isinstance(b, (bytes, bytearray)) and b[:4] == b"cert" and len(b) >= 32:
        return bytes(b[:0x14]) + bytes(4) + bytes(b[0x18:])
    return b


def _cert_fields(tag: str, r: dict, exp: dict) -> list:
    V = []
    cb = r.get("cert")
    if not cb or "used_root" not in exp:
        return V
    o = exp["opts"]
    if "image_length" in cb:  # v1
        got = {"build": cb["build_number"], "used_root": cb["root_index"], "count": cb["count"]}
        want = {"build": o["build"], "used_root": exp["used_root"], "count": o["depth"]}
    else:
        isk = cb["isk"]
        got = {"used_root": cb["used_root"], "root_count": cb["root_count"], "isk": isk is not None,
               "isk_user_data": isk["user_data"] if isk else b"",
               "isk_constraints": isk["constraints"] if isk else 0}
        e = exp["isk"]
        want = {"used_root": exp["used_root"], "root_count": len(exp["root_keys"]), "isk": e is not None,
                "isk_user_data": e["user_data"] if e else b"", "isk_constraints": e["constraints"] if e else 0}
    for k in want:
        if got[k] != want[k]:
            V.append(("C01.emitted-cert", f"{tag};{k}", f"{k}: in the image {_sh(got[k])}, configured {_sh(want[k])}"))
    return V


# ---------------------------------------------------------------------------------------------
# CLI binding


def cli_check(case: dict, ob: dict, wd: str) -> list:
    """`nxpimage mbi export -c` writes the API's bytes; `nxpimage mbi parse` writes the API's
    application and a configuration file."""
    from click.testing import CliRunner

    from spsdk.apps.nxpimage import main as nxpimage_main

    V: list = []
    t = ob["exp"]["triple"]
    tag = M.path_tag(t)
    cfg = dict(ob["cfg"])
    cfg["masterBootOutputFile"] = "cli_out.bin"
    cfg_path = os.path.join(wd, "cli_cfg.json")
    with open(cfg_path, "w") as f:
        json.dump(cfg, f)
    with M.det_random(core.short_hash(case)):
        res = CliRunner().invoke(nxpimage_main, ["mbi", "export", "-c", cfg_path])
    out_path = os.path.join(wd, "cli_out.bin")
    if res.exit_code != 0 or not os.path.exists(out_path):
        V.append(("C01.cli-export", f"{tag};exit", f"exit {res.exit_code}: {str(res.exception)[:200]} {res.output[-200:]}"))
        return V
    data = open(out_path, "rb").read()
    try:
        regions = M.rom_read(ob, verify=False)["regions"]
    except Exception:  # noqa
        regions = []
    d = M.first_diff(ob["image"], data, regions,
                     masked=("signature", "isk-signature", "digest", "manifest-crc", "isk-hash"))
    if d:
        V.append(("C01.cli-export", f"{tag};{_rk(d[1])}", f"CLI output differs from the API export at {d[0]:#x} ({d[1]})"))
    if "parsed" not in ob:
        return V
    pdir = os.path.join(wd, "cli_parsed")
    args = ["mbi", "parse", "-b", out_path, "-f", case["fam"], "-o", pdir]
    if case.get("rev", "latest") != "latest":
        args += ["-r", case["rev"]]
    if ob["exp"].get("user_key"):
        args += ["-k", ob["exp"]["user_key"].hex()]
    res = CliRunner().invoke(nxpimage_main, args)
    if res.exit_code != 0:
        V.append(("C01.cli-parse", f"{tag};exit", f"exit {res.exit_code}: {str(res.exception)[:200]} {res.output[-200:]}"))
        return V
    app_path = os.path.join(pdir, "application.bin")
    got = open(app_path, "rb").read() if os.path.exists(app_path) else b""
    # compared with what the API's parse() returned for the same bytes (the API result itself is
    # judged by the round-trip clauses)
    if data == ob["image"] and got != ob["parsed"]["app"]:
        V.append(("C01.cli-parse", f"{tag};application.bin", "application.bin differs from MasterBootImage.parse().app"))
    if not os.path.exists(os.path.join(pdir, "mbi_config.yaml")):
        V.append(("C01.cli-parse", f"{tag};mbi_config.yaml", "no configuration file written"))
    return V


# ---------------------------------------------------------------------------------------------
# worker


def judge_history(case: dict, ob: dict) -> list:
    """Object histories: the image after a change through a public attribute must be the image of a
    fresh object with the final options, and its header must describe it."""
    from vf.ref.rom_mbi import Reject

    V: list = []
    t = ob["exp"]["triple"]
    tag = M.path_tag(t)
    step = ob["step"]
    if ob["status"] == "exception":
        e = ob["error"]
        return [("C01.history-exception", f"{tag};{step};{e['type']}@{e['where']}", e["msg"])]
    if ob["status"] != "ok":
        return V
    mask = M.VOLATILE if ob["exp"]["facts"]["cert"] == "v21" else ()
    try:
        regions = M.rom_read(ob, verify=False, image=ob["fresh"])["regions"]
    except Reject:
        regions = []
    d = M.first_diff(ob["img1"], ob["img1b"], [], masked=()) if not mask else None
    if mask:
        try:
            r1 = M.rom_read({"exp": ob["exp_a"], "image": ob["img1"]}, verify=False)["regions"]
        except Reject:
            r1 = []
        d = M.first_diff(ob["img1"], ob["img1b"], r1, masked=mask)
    if d:
        V.append(("C01.history-repeat", f"{tag};{_rk(d[1])}", f"second export of the unchanged object differs at {d[0]:#x}"))
    d = M.first_diff(ob["fresh"], ob["image"], regions, masked=mask)
    if d:
        V.append(("C01.history-export", f"{tag};{step};{_rk(d[1])}",
                  f"after {M.HISTORY_STEPS.get(step, (0, 'step-by-step certificate block calls with reads in between'))[1]} the export differs from a fresh object's at {d[0]:#x} ({d[1]})"))
    try:
        M.rom_read(ob, verify=False)
    except Reject as e:
        V.append(("C01.history-structure", f"{tag};{step};{e.stage}", str(e)))
    return core.dedupe(V)


def w_case(case: dict) -> dict:
    quiet()
    wd = workdir()
    if "hist" in case:
        ob = M.execute_history(case, wd, case.get("seed", 0))
        res = {"viol": judge_history(case, ob), "count": {"history_cases": 1}, "status": ob["status"]}
        if ob["status"] == "ok":
            res["distinct"] = [M.stable_token(ob)]
        elif ob["status"] == "rejected":
            res["count"]["history_rejected"] = 1
        return res
    want = tuple(case.get("want", ("parse", "reexport", "config")))
    if M.dev_facts(M.triple(case["fam"], case.get("rev", "latest"), case["tgt"], case["auth"]))["kind"] != "ivt":
        want = ("parse",)  # images without IVT words: build, parse and application round trip only
    ob = M.execute(case, wd, case.get("seed", 0), want=want)
    viol = judge(case, ob)
    res: dict[str, Any] = {"viol": viol, "count": {}, "status": ob["status"]}
    if ob["status"] == "ok":
        res["distinct"] = [M.stable_token(ob)]
        res["count"]["accepted"] = 1
        if "parsed" in ob:
            res["count"]["parsed"] = 1
        if "reexport" in ob:
            res["count"]["reexports_compared"] = 1
        if "config_reexport" in ob:
            res["count"]["config_reexports_compared"] = 1
        if ob.get("repaired"):
            res["count"]["reexport_after_repair"] = 1
    elif ob["status"] == "rejected":
        res["count"]["rejected"] = 1
        res["reject"] = ob["reject"]["msg"][:120]
    if case.get("classify"):
        t = ob["exp"]["triple"]
        with M.record_db_reads() as rec:
            M.execute(case, wd, case.get("seed", 0), want=("parse",))
        res["class_key"] = M.class_key(t, rec.result())
    if case.get("cli") and ob["status"] == "ok":
        try:
            cv = cli_check(case, ob, wd)
        except Exception as e:  # noqa
            cv = [("C01.cli-export", f"{M.path_tag(ob['exp']['triple'])};harness:{type(e).__name__}", str(e)[:300])]
        res["viol"] = core.dedupe(res["viol"] + cv)
        res["count"]["cli_runs"] = 1
    return res


# ---------------------------------------------------------------------------------------------
# enumeration


def structural_cases(ctx, lengths=None, contents=None) -> list:
    """thorough: the complete product triples x lengths x contents.  quick: every triple x every length with
    the counter payload; the other content classes x every length on the first triple of every mixin
    composition (content handling is a property of the composed code, the family only indexes the
    database); create_config route at one unaligned and one aligned length (0x39, 0x200) and on the
    composition representatives."""
    lengths = lengths or M.LENGTHS
    contents = contents or M.CONTENTS
    quick = ctx.tier == "quick"
    cases = []
    seen_comp: set = set()
    for fam in M.families():
        for t in M.triples(fam):
            comp = M.composition(t)
            comp_rep = comp not in seen_comp
            seen_comp.add(comp)
            for L in lengths:
                for c in contents:
                    if quick and c != "counter" and not comp_rep:
                        continue
                    case = {"fam": fam, "rev": "latest", "tgt": t["tgt"], "auth": t["auth"], "len": L,
                            "content": c, "opts": {}, "seed": ctx.seed}
                    if L == 0x40 and c == "counter":
                        case["classify"] = True
                    elif quick and (c != "counter" or not (comp_rep or L in (0x39, 0x200))):
                        case["want"] = ["parse", "reexport"]
                    cases.append(case)
    return cases


def revision_cases(ctx) -> list:
    cases = []
    for fam in M.families():
        latest = M.latest_revision(fam)
        for rev in M.revisions(fam):
            if rev == latest:
                continue
            for t in M.triples(fam, rev):
                cases.append({"fam": fam, "rev": rev, "tgt": t["tgt"], "auth": t["auth"], "len": 0x40,
                              "content": "counter", "opts": {}, "seed": ctx.seed})
    return cases


def lattice_cases(ctx, classes: dict, k: int, reps: int, lengths: list, groups: bool) -> list:
    cases = []
    for key, members in sorted(classes.items()):
        for fam, tgt, auth in members[:reps]:
            t = M.triple(fam, "latest", tgt, auth)
            if M.dev_facts(t)["kind"] != "ivt":
                continue
            lat = M.dims_for(t)
            todo = [{n: lat.by_name[n].values[i] for n, i in a.items()}
                    for a in lat.enumerate(k, with_groups=groups) if a]
            # in every tier: the complete product of the small groups (key store x relocation table) and the
            # flag product ({default, one value} over all dimensions that feed the IVT flag word), so that
            # independent header bits are seen together
            from vf.engine.lattice import Lattice

            extra = [{n: lat.by_name[n].values[i] for n, i in a.items()}
                     for a in Lattice(lat.dims, M.SMALL_GROUPS).group_products() if len(a) >= 2]
            for opts in extra + M.flag_product(t) + M.digest_product(t):
                if opts not in todo:
                    todo.append(opts)
            for opts in todo:
                for L in lengths:
                    cases.append({"fam": fam, "rev": "latest", "tgt": tgt, "auth": auth, "len": L,
                                  "content": "seeded", "opts": opts, "seed": ctx.seed, "cls": key})
    return cases


ALIGN_LENGTHS = [0x1F4, 0x1F8, 0x1FC, 0x200]  # every residue mod 16 the 4-byte padding allows
SHORT_LENGTHS = [0x34, 0x38, 0x3C, 0x40, 0x44]  # around the HMAC offset (classes with the HMAC header); 0x34 is refused


def alignment_cases(ctx, classes: dict, protected_only: bool = False) -> list:
    """Parts behind the application (relocation table, TrustZone block) x application length in every
    residue class mod 16: {custom TrustZone, relocation table, both} on every class representative."""
    cases = []
    for key, members in sorted(classes.items()):
        fam, tgt, auth = members[0]
        if protected_only and auth not in M.PROTECTED:
            continue
        t = M.triple(fam, "latest", tgt, auth)
        if M.dev_facts(t)["kind"] != "ivt":
            continue
        names = {d.name for d in M.dims_for(t).dims}
        combos = []
        if "tz" in names and M.tz_spec(fam, "latest"):
            combos.append({"tz": "custom-bin"})
        if "reloc" in names:
            combos.append({"reloc": "2x1,5"})
        if len(combos) == 2:
            combos.append({"tz": "custom-bin", "reloc": "2x1,5"})
        for opts in combos:
            for L in ALIGN_LENGTHS + (SHORT_LENGTHS if M.has(t, "Hmac", "HmacMandatory") else []):
                cases.append({"fam": fam, "rev": "latest", "tgt": tgt, "auth": auth, "len": L, "content": "seeded",
                              "opts": opts, "seed": ctx.seed})
    return cases


def history_cases(ctx, classes: dict, protected_only: bool = False) -> list:
    cases = []
    for key, members in sorted(classes.items()):
        fam, tgt, auth = members[0]
        if protected_only and auth not in M.PROTECTED:
            continue
        t = M.triple(fam, "latest", tgt, auth)
        for step in M.history_steps(t):
            cases.append({"fam": fam, "rev": "latest", "tgt": tgt, "auth": auth, "len": 0x1F8, "len2": 0x200,
                          "content": "seeded", "opts": {}, "seed": ctx.seed, "hist": step})
    return cases


def run(ctx) -> None:
    quiet()
    quick = ctx.tier == "quick"
    k = 1 if quick else 2
    table = DimTable()
    ctx.rule = ("structural product: every (family, target, authentication) triple of the database x "
                f"{len(M.LENGTHS)} payload-length classes x {len(M.CONTENTS)} content classes at the base option set "
                "(quick: every triple x every length with the counter payload, the other contents x every length on the "
                "first triple of every mixin composition), "
                "every further revision at the base payload; option lattice: all option sets with <= "
                f"{k} departures (+ full product of the certificate dimensions in thorough) on "
                f"{'one representative' if quick else 'up to three representatives'} of every equivalence class; "
                "CLI binding on every class representative. distinct/non-trivial = SHA-1 of the exported image "
                "of a case the builder accepted")
    ctx.rule += ("; in every tier the complete product key store x relocation table and the flag product ({default, one "
                 "value} over hwkey, key store, relocation table, image version, sub-type, TrustZone) on the class "
                 "representatives; MasterBootImage.parse is run in both modes of its optional dek argument (given / not "
                 "given) for every image that is not encrypted, with the same expectations")
    ctx.rule += ("; alignment family: {custom TrustZone, relocation table, both} x application lengths 0x1F4/0x1F8/0x1FC/0x200 "
                 "(+ 0x34..0x44 around the HMAC offset on the classes with the HMAC header) on every class representative; object histories on every class representative: export, export again, "
                 "replace one member (app, trust_zone, key_store, app_table, hmac_key, cert_block) through its public "
                 "attribute, export - compared byte for byte with a fresh object loaded with the final options")
    ctx.rule += ("; option dimensions include the source of builder-chosen values: counter IV explicit / omitted in the "
                 "configuration / omitted in the class-constructor API (owned RNG keeps exports reproducible), and the "
                 "API used to hand over the settings (load_from_config / class constructor)")
    ctx.assumptions += [
        "payload lengths <= 0x3FF (+0xC00 header area for the MC56F81xxx / MCXC images, which have no IVT words: "
        "for them only build, parse and the application round trip are judged)",
        "re-export 'with the same keys': private keys, HMAC/encryption key and the certificate-block "
        "configuration are supplied again as for the first export (create_config cannot know them)",
        "a setting the image cannot carry (XIP vs load-to-RAM of a plain image) is reported once as "
        "C01.class-roundtrip instead of per lost setting",
        "equivalence classes: mixin composition + parser candidates for the image type + every database value / "
        "data file (SHA-1) the MBI code read during a dry run of the base case",
    ]
    # ---- S: structural product ---------------------------------------------------------------
    classes: dict[str, list] = {}
    comp_of: dict[str, Any] = {}
    cases = structural_cases(ctx)
    n_tr = sum(len(M.triples(f)) for f in M.families())
    rejected_base = []
    for case, res in ctx.pool_map(w_case, cases, timeout=60, chunksize=8):
        if not ctx.absorb(case, res):
            continue
        if res.get("status") == "rejected" and case["len"] == 0x200 and case["content"] == "counter":
            rejected_base.append((case["fam"], case["tgt"], case["auth"], res.get("reject")))
        if "class_key" in res:
            classes.setdefault(res["class_key"], []).append((case["fam"], case["tgt"], case["auth"]))
    if rejected_base:
        # the base case proper (0x200-byte counter payload, default options) must build for every triple;
        # a builder that refuses other structural cases (e.g. very short payloads) is counted, not judged
        raise core.HarnessError(f"base configuration rejected by the builder: {rejected_base[:5]}")
    ctx.count("structural_cases", len(cases))
    for c in cases[:2] + cases[-2:]:
        ctx.sample({k_: v for k_, v in c.items() if k_ not in ("classify", "want")})
    # ---- revisions ---------------------------------------------------------------------------
    rc = revision_cases(ctx)
    for case, res in ctx.pool_map(w_case, rc, timeout=60, chunksize=8, check_det=0):
        ctx.absorb(case, res)
    ctx.count("revision_cases", len(rc))
    # ---- L: option lattice on class representatives ---------------------------------------------
    reps = 1 if quick else 3
    lengths = [0x1F0] if quick else [0x39, 0x1F0]
    lc = lattice_cases(ctx, classes, k, reps, lengths, groups=not quick)
    done = 0
    for case, res in ctx.pool_map(w_case, lc, timeout=60, chunksize=8, check_det=0):
        if ctx.out_of_budget():
            break
        done += 1
        if not ctx.absorb(case, res):
            continue
        t = M.triple(case["fam"], "latest", case["tgt"], case["auth"])
        lat = M.dims_for(t)
        a = {n: lat.by_name[n].values.index(v) for n, v in case["opts"].items()}
        table.record(lat, a, True if res["status"] == "ok" else False if res["status"] == "rejected" else None)
    ctx.count("lattice_cases", done)
    if done < len(lc):
        ctx.cov["lattice_cases_planned"] = len(lc)
    for c in lc[:2] + lc[-2:]:
        ctx.sample(c)
    # ---- A: alignment of the parts behind the application; H: object histories ---------------------
    ac = alignment_cases(ctx, classes)
    for case, res in ctx.pool_map(w_case, ac, timeout=60, chunksize=4, check_det=0):
        ctx.absorb(case, res)
    ctx.count("alignment_cases", len(ac))
    hc = history_cases(ctx, classes)
    for case, res in ctx.pool_map(w_case, hc, timeout=120, chunksize=2, check_det=0):
        ctx.absorb(case, res)
    for c in ac[:1] + hc[:2]:
        ctx.sample(c)
    # ---- C: CLI binding ------------------------------------------------------------------------
    cc = []
    for key, members in sorted(classes.items()):
        fam, tgt, auth = members[0]
        cc.append({"fam": fam, "rev": "latest", "tgt": tgt, "auth": auth, "len": 0x200, "content": "seeded",
                   "opts": {}, "seed": ctx.seed, "cli": True, "want": ["parse"]})
    for case, res in ctx.pool_map(w_case, cc, timeout=120, chunksize=2, check_det=0):
        ctx.absorb(case, res)
    # ---- evidence --------------------------------------------------------------------------------
    ctx.cov["triples"] = n_tr
    ctx.cov["families"] = len(M.families())
    ctx.cov["compositions"] = len({M.composition(t) for f in M.families() for t in M.triples(f)})
    ctx.cov["equivalence_classes"] = {k_: {"size": len(v), "representative": list(v[0])}
                                      for k_, v in sorted(classes.items())}
    ctx.cov["k_completed"] = k if done == len(lc) else k - 1
    ctx.cov["dimensions"] = table.as_dict()
    ctx.cov["payload_lengths"] = [hex(x) for x in M.LENGTHS]
    ctx.cov["payload_contents"] = M.CONTENTS


def replay(ctx, rec: dict) -> bool:
    quiet()
    case = rec["case"]
    res = w_case(case)
    hit = False
    for v in res["viol"]:
        mark = "*" if (v[0] == rec["clause"] and v[1] == rec["disc"]) else " "
        print(f" {mark} {v[0]} [{v[1]}] {v[2][:300]}")
        hit = hit or mark == "*"
    return hit
