"""C14 — bootable image: segments land at the device offsets and come back on parse.

Engine E1 (lattice over configurations) on the real `BootableImage` code, oracle = the independent
layout calculator `vf.ref.bimg_layout` fed with the `mem_types.<m>` dictionary that the *generic*
database accessor returns (`get_db(f, r).get_dict("bootable_image", "mem_types")`).

Case families (all enumerated completely, see enumerate_cases):
  base   every (family, revision, memory type) triple of the feature: application container + no / every
         single / all optional segments at initial offset 0, and the all-segments configuration cut at every
         offset a parser can recognise (FCB, application container); thorough: also every other container kind
  sub    per layout-class representative: ALL subsets of the optional segments x ALL initial offsets
         (0 and every prescribed offset) x every application-container kind the family supports
         (raw bytes, MBI plain / crc, HAB, AHAB, SB2.1, SB3.1; thorough: x container size classes)
  set    the same subsets / offsets through the `init_offset` setter and `set_init_offset(<segment>)` on an
         already loaded object (and back to 0)
  round  requested initial offsets one byte below / above every prescribed offset (rounded up to the next
         prescribed offset; behind the last one: refused)
  size   payload-size departures of one segment: {1, fixed-1, fixed+1, gap-1, gap, gap+1} for the slot segments,
         all slot segments at once at gap-1 / gap / fixed+1, every XMCD variant, image-version values, container
         sizes around the 1 KB alignment with and without the floating segment
  ycfg   application container given as its own YAML configuration (the segment builds it itself)
  nohdr  application container absent (boot header only)                       -> layout clauses only
  cli    `nxpimage bootable-image merge / parse` (with and without -m) through click's CliRunner per representative
  hist   histories of initial-offset requests on ONE live object (from the configuration at every recognisable start
         offset, and from parse): down through every prescribed offset to 0 and up again, by value / by segment name /
         one byte below an offset, with refused requests (behind the last segment, negative) in between
  content  content variants the segment types accept besides the canonical one, one segment at a time with everything
         else present, at initial offset 0 and at a later start offset: FCB in swapped byte order (tag CFBF, every byte
         pair swapped), FCB / key blob / key store / BEE header ending in runs of 0x00 and 0xFF, every XMCD variant
         with all bits of its configuration block seeded (reserved bits set)

Oracle clauses: see CLAUSES.  What is judged when: `legal` (valid segments that fit + application) => merge must
succeed, layout clauses, parse must succeed and return every segment, mem_type=None too; slot payloads of odd size
=> layout clauses, overlap clause, lenient parse comparison if parse returns; raw application bytes / no
application => layout clauses only.
"""
from __future__ import annotations

import itertools
import json
import os
import shutil
import struct
import tempfile
from typing import Any, Optional

from vf import core
from vf.ref import bimg_layout as BL

LEVEL = "exploration"

CLAUSES = {
    "C14.merge-rejects-legal": "load_from_config/export raises for valid segments that fit (disc = exception type @ raising function)",
    "C14.overlap-accepted": "two supplied segments intersect by interval arithmetic and the builder exports an image anyway (disc = kind of the segment that runs into its successor)",
    "C14.segment-at-offset": "bytes of a supplied segment are not at prescribed offset - initial offset / aligned end of the predecessor",
    "C14.fill-pattern": "a byte outside every supplied segment differs from the device's fill pattern",
    "C14.image-length": "the image ends before the end of its last segment",
    "C14.init-offset-beyond-last": "an initial offset behind the last prescribed offset is accepted",
    "C14.init-offset-state": "after a history of init_offset requests a live object is not what a fresh object with that initial offset is "
                             "(model image, init_offset, segment offsets, len, fresh export), or a refused request changed it",
    "C14.parse-raises": "BootableImage.parse(export, family, mem_type) raises on an image merged from valid segments",
    "C14.parse-missing-segment": "a supplied segment is not returned by parse",
    "C14.parse-segment-bytes": "parse returns other bytes for a segment than were supplied",
    "C14.parse-reexport": "export() of the object returned by parse differs from the merged image although every segment came back unchanged",
    "C14.auto-detect-fails": "parse with mem_type=None raises although parse with the memory type succeeds",
    "C14.auto-segment-bytes": "parse with mem_type=None selects the memory type the image was built for and returns other bytes",
    "C14.cli": "nxpimage bootable-image merge / parse disagrees with the layout model / the supplied segments",
    "C14.terminates": "a case did not terminate",
}

CFG_KEY = {"fcb_xspi": "fcb", "image_version_ap": "image_version"}  # configuration-file keys (template of the tool)
SLOT_RAW = ("keyblob", "keystore", "bee_header_0", "bee_header_1")
SLOT_FCB = ("fcb", "fcb_xspi")
# content variants of a segment (besides the canonical one) -> label used in discriminators
VARIANT_LABEL = {"swp": "byte-swapped", "pad": "trailing-patterns", "xr": "all-bits-seeded"}

_SEED = 0
_CACHE: dict = {}


# ---------------------------------------------------------------------------------------------
# database (generic accessor only)


def db_entry(fam: str, rev: str, mem: str) -> dict:
    key = ("entry", fam, rev, mem)
    if key not in _CACHE:
        from spsdk.utils.database import get_db

        _CACHE[key] = get_db(fam, rev).get_dict("bootable_image", "mem_types")[mem]
    return _CACHE[key]


def all_triples() -> list:
    from spsdk.utils.database import DatabaseManager, get_db, get_families

    out = []
    for fam in sorted(get_families("bootable_image")):
        for rev in DatabaseManager().db.devices.get(fam).revisions.revision_names(False):
            for mem in get_db(fam, rev).get_dict("bootable_image", "mem_types"):
                out.append((fam, rev, mem))
    return out


def latest_rev(fam: str) -> str:
    from spsdk.utils.database import get_db

    return get_db(fam).name


def mbi_auths(fam: str, rev: str) -> list:
    """[(target, auth)] MBI kinds without keys that the family's database entry offers."""
    from spsdk.utils.database import get_db

    try:
        images = get_db(fam, rev).get_dict("mbi", "images")
    except Exception:  # noqa
        return []
    out = []
    for tgt in sorted(images, key=lambda t: (t != "xip", t)):
        for auth in ("plain", "crc"):
            if auth in images[tgt] and auth not in [a for (_, a) in out]:
                out.append((tgt, auth))
    return out


def xmcd_variants(fam: str, rev: str) -> list:
    from spsdk.utils.database import get_db

    try:
        mt = get_db(fam, rev).get_dict("xmcd", "mem_types", default={})
    except Exception:  # noqa
        return []
    # simplified (a few bytes) before full (up to 516 bytes); index 0 is the default of the enumeration
    return sorted(((m, c) for m in mt for c in mt[m]), key=lambda v: (v[1] != "simplified", v))


def fcb_known(fam: str) -> bool:
    key = ("fcbfams",)
    if key not in _CACHE:
        from spsdk.utils.database import get_families

        _CACHE[key] = set(get_families("fcb"))
    return fam in _CACHE[key]


def class_key(fam: str, rev: str, mem: str, coarse: bool = False) -> str:
    """Layout class: segment map + fill pattern + the other database facts the code reads for the segments.

    coarse (quick tier): segment map + fill pattern + whether the family has an FCB description only."""
    from spsdk.utils.database import get_db

    e = db_entry(fam, rev, mem)
    segs = e["segments"]
    facts: dict = {"segments": list(segs.items()), "pattern": e.get("image_pattern", "zeros")}
    if coarse:
        if "fcb" in segs or "fcb_xspi" in segs:
            facts["fcb"] = fcb_known(fam)
        return json.dumps(facts, sort_keys=True)
    facts["other"] = sorted(k for k in e if k not in ("segments", "image_pattern", "note"))
    if "mbi" in segs:
        facts["mbi"] = mbi_auths(fam, rev)
        try:
            images = get_db(fam, rev).get_dict("mbi", "images")
            facts["mbi_cls"] = sorted({str(images[t][a]) for t in images for a in images[t] if a in ("plain", "crc")})
        except Exception:  # noqa
            pass
    if "xmcd" in segs:
        facts["xmcd"] = xmcd_variants(fam, rev)
    if "fcb" in segs or "fcb_xspi" in segs:
        facts["fcb"] = fcb_known(fam)
    if any(s in segs for s in ("ahab_container", "primary_image_container_set")):
        db = get_db(fam, rev)
        facts["ahab"] = [db.get_list("ahab", "container_types"), db.get_int("ahab", "containers_max_cnt"),
                         db.get_int("ahab", "container_image_size_alignment")]
    return json.dumps(facts, sort_keys=True)


# ---------------------------------------------------------------------------------------------
# segment contents.  Raw bytes are seeded; containers are built with SPSDK's own builders (their content is
# not the subject here, only that the bytes land and come back) or taken from the repository's golden files.


def raw_bytes(seed: int, tag: str, n: int) -> bytes:
    b = bytearray(core.seeded_bytes(seed, tag, n))
    for i in (0, n - 1):  # never a block of pure fill pattern, never a text file
        if n and b[i] in (0x00, 0xFF, 0x0A, 0x20):
            b[i] = 0xA5
    if n:
        b[0] |= 0x80  # not UTF-8 text: the tool first tries to read a segment file as YAML/JSON
        if b[0] == 0xFF:
            b[0] = 0xA5
    return bytes(b)


def _tests_dir() -> str:
    d = os.path.join(core.REPO, "tests")
    return d if os.path.isdir(d) else "/repo/tests"


GOLDEN = {
    "sb21": ["sbfile/data/sb2_x/expected_sb2_1_simple_signed4096.sb2", "sbfile/data/sb2_x/expected_sb2_1_newcommands_signed2048.sb2"],
    "sb31": ["sbfile/sb31/data/sb3_384_384.sb3", "nxpimage/data/workspace/output_images/mcxn9xx/sb3_256_none.sb3"],
}


def golden(kind: str, idx: int) -> bytes:
    with open(os.path.join(_tests_dir(), GOLDEN[kind][idx]), "rb") as f:
        return f.read()


def vector_app(seed: int, tag: str, n: int, reset: int) -> bytes:
    """Application that starts like a Cortex-M vector table (initial SP, reset vector)."""
    body = raw_bytes(seed, tag, max(n, 8))
    return (struct.pack("<II", 0x20020000, reset | 1) + body[8:])[:max(n, 8)]


HAB_START, HAB_IVT, HAB_ILS = 0x30000000, 0x1000, 0x2000


def hab_config(app_file: str) -> dict:
    return {"options": {"flags": 0, "startAddress": HAB_START, "ivtOffset": HAB_IVT, "initialLoadSize": HAB_ILS,
                        "entryPointAddress": HAB_START + HAB_ILS + 0x101},
            "inputImageFile": app_file, "sections": []}


def build_hab(td: str, seed: int, n: int, write_cfg: bool = False):
    import yaml

    from spsdk.image.hab.hab_container import HabContainer

    app = vector_app(seed, f"habapp|{n}", n, HAB_START + HAB_ILS + 0x101)
    with open(os.path.join(td, "hab_app.bin"), "wb") as f:
        f.write(app)
    path = os.path.join(td, "hab_cfg.yaml")
    with open(path, "w") as f:
        yaml.safe_dump(hab_config("hab_app.bin"), f)
    cfg = HabContainer.load_configuration(path, search_paths=[td])
    data = HabContainer.load_from_config(cfg, search_paths=[td]).export()
    try:
        _note_roundtrip(data, HabContainer.parse(data).export())
        alone = True
    except Exception:  # noqa
        alone = False
    return data, path, alone


def mbi_config(fam: str, rev: str, tgt: str, auth: str, app_file: str) -> dict:
    return {"family": fam, "revision": rev, "outputImageExecutionTarget": tgt.replace("_", "-"),
            "outputImageAuthenticationType": auth, "masterBootOutputFile": "mbi_out.bin", "inputImageFile": app_file,
            "outputImageExecutionAddress": 0, "enableHwUserModeKeys": False}


def build_mbi(td: str, seed: int, fam: str, rev: str, auth: str, n: int):
    """-> (container bytes, path of its YAML configuration, parseable on its own)"""
    import yaml

    from spsdk.exceptions import SPSDKError
    from spsdk.image.mbi.mbi import MasterBootImage, get_mbi_class
    from spsdk.utils.schema_validator import check_config

    tgt = next((t for (t, a) in mbi_auths(fam, rev) if a == auth), None)
    if tgt is None:
        raise Unavailable(f"no MBI {auth} for {fam}")
    last: Optional[Exception] = None
    best = None
    for attempt in (0, 1):
        size = n if attempt == 0 else 0x1000 + n
        app = bytearray(vector_app(seed, f"mbiapp|{size}", size, 0x101))
        if attempt == 1:  # DSC-style families keep an (erased) configuration area below 0xC00 inside the application
            app[0x360:0xC00] = b"\xff" * (0xC00 - 0x360)
        with open(os.path.join(td, "mbi_app.bin"), "wb") as f:
            f.write(bytes(app))
        cfg = mbi_config(fam, rev, tgt, auth, "mbi_app.bin")
        try:
            cls = get_mbi_class(cfg)
            check_config(cfg, cls.get_validation_schemas(fam, rev), search_paths=[td])
            m = cls()
            m.load_from_config(cfg, search_paths=[td])
            data = m.export()
        except SPSDKError as e:
            last = e
            continue
        try:
            pm = MasterBootImage.parse(family=fam, data=data, revision=rev)
            pm.validate()
            # the bootable image draws a parsed MBI through the MBI's own exporter
            _note_roundtrip(data, pm.export_image().export())
            alone = True
        except Exception:  # noqa
            alone = False
        path = os.path.join(td, "mbi_cfg.yaml")
        with open(path, "w") as f:
            yaml.safe_dump(cfg, f)
        if alone:
            return data, path, True
        if best is None:
            best = (data, bytes(app), cfg)
    if best is not None:  # built, but SPSDK's own MBI parser refuses it (C01's subject): layout clauses only
        with open(os.path.join(td, "mbi_app.bin"), "wb") as f:
            f.write(best[1])
        path = os.path.join(td, "mbi_cfg.yaml")
        with open(path, "w") as f:
            yaml.safe_dump(best[2], f)
        return best[0], path, False
    raise Unavailable(f"MBI builder refuses the minimal {auth} configuration for {fam}: {last}")


def ahab_config(fam: str, rev: str, tm: str, app_file: str) -> dict:
    from spsdk.utils.database import get_db

    cores = [c.lower().replace("_", "-") for c in get_db(fam, rev).get_dict("ahab", "core_ids")]
    core_id = next((c for c in ("cortex-m33", "cortex-a55", "cortex-m7") if c in cores), cores[0])
    return {"family": fam, "revision": rev, "target_memory": tm, "output": "ahab_out.bin",
            "containers": [{"container": {"srk_set": "none", "fuse_version": 0, "sw_version": 0, "images": [
                {"image_path": app_file, "image_offset": 0, "load_address": 0x1FFE0000, "entry_point": 0x1FFE0000,
                 "image_type": "executable", "core_id": core_id, "is_encrypted": False, "hash_type": "sha256"}]}}]}


def build_ahab(td: str, seed: int, fam: str, rev: str, tm: str, n: int, stem: str = "ahab"):
    import yaml

    from spsdk.image.ahab.ahab_image import AHABImage
    from spsdk.utils.schema_validator import check_config

    app = raw_bytes(seed, f"{stem}app|{n}", n)
    with open(os.path.join(td, f"{stem}_app.bin"), "wb") as f:
        f.write(app)
    cfg = ahab_config(fam, rev, tm, f"{stem}_app.bin")
    check_config(cfg, AHABImage.get_validation_schemas_family())
    check_config(cfg, AHABImage.get_validation_schemas(fam, rev), search_paths=[td])
    a = AHABImage.load_from_config(cfg, search_paths=[td])
    a.update_fields()
    data = a.export()
    path = os.path.join(td, f"{stem}_cfg.yaml")
    with open(path, "w") as f:
        yaml.safe_dump(cfg, f)
    try:
        b = AHABImage(family=fam, revision=rev)
        b.parse(data)
        alone = not b.verify().has_errors
        if alone:
            _note_roundtrip(data, b.image_info().export())
    except Exception:  # noqa
        alone = False
    return data, path, alone


def build_xmcd(fam: str, rev: str, idx: int) -> bytes:
    from spsdk.image.mem_type import MemoryType
    from spsdk.image.xmcd.xmcd import XMCD, ConfigurationBlockType

    var = xmcd_variants(fam, rev)
    if not var:
        raise Unavailable(f"no XMCD description for {fam}")
    m, c = var[idx % len(var)]
    return XMCD(fam, MemoryType.from_label(m), ConfigurationBlockType.from_label(c), rev).export()


_ROUNDTRIP: dict = {}


def _note_roundtrip(data: bytes, again: bytes) -> None:
    """Does the container's OWN parser + exporter reproduce the container (on its own, outside any bootable image)?
    If not, export() of a parsed bootable image cannot either; that is the container format's matter (C01/C06/C07)."""
    import hashlib

    _ROUNDTRIP[hashlib.sha1(data).digest()] = bytes(again) == bytes(data)


def roundtrips_alone(data: bytes) -> bool:
    import hashlib

    return _ROUNDTRIP.get(hashlib.sha1(data).digest(), True)


class Unavailable(Exception):
    """A component cannot be produced for this family (counted, the case is not evaluated)."""


def component(name: str, spec: Any, case: dict, td: str, seed: int):
    """-> (bytes the segment has to hold, value for the configuration key, quality)

    quality: "valid"  a well-formed instance of the segment type (a parser has to accept it and hand it back),
             "odd"    a slot segment whose payload is shorter / longer than the slot (judged leniently),
             "opaque" bytes the segment's own parser is not obliged to accept (raw application bytes, a container that
                      SPSDK's own container parser refuses on its own)"""
    fam, rev = case["f"], case["r"]

    def put(data: bytes, fn: Optional[str] = None) -> str:
        path = os.path.join(td, fn or f"{name}.bin")
        with open(path, "wb") as f:
            f.write(data)
        return path

    if name in BL.VERSION_SEGMENTS:
        value = spec[1]
        return BL.encode_image_version(name, value), value, "valid"
    if name in SLOT_RAW:
        fixed = BL.FIXED_SIZE[name]
        if spec == "pad":  # content that ends in runs of both padding patterns (nothing may be stripped or re-filled)
            data = raw_bytes(seed, f"{name}|pad", fixed // 2) + b"\xff" * (fixed // 4) + bytes(fixed - fixed // 2 - fixed // 4)
            return data, put(data), "valid"
        size = fixed if spec == "fix" else int(spec)
        data = raw_bytes(seed, f"{name}|{size}", size)
        return data, put(data), "valid" if size == fixed else "odd"
    if name in SLOT_FCB:
        fixed = BL.FIXED_SIZE[name]
        if spec in ("swp", "pad"):
            data = b"FCFB" + raw_bytes(seed, f"{name}|{fixed}", fixed)[4:]
            if spec == "pad":  # like real blocks: configuration words in front, the rest of the block zero / erased
                data = data[:fixed // 4] + bytes(fixed // 2) + b"\xff" * (fixed - fixed // 4 - fixed // 2)
                return data, put(data), "valid"
            # the block as it is programmed for flashes read in octal DTR mode: every byte pair swapped (tag 'CFBF').
            # The segment type accepts this form next to the canonical one; a parser is not obliged to (quality "alt"),
            # but what it hands back must be the supplied bytes
            sw = bytearray(data)
            sw[0::2], sw[1::2] = data[1::2], data[0::2]
            return bytes(sw), put(bytes(sw)), "alt"
        size = fixed if spec == "fix" else int(spec)
        data = (b"FCFB" + raw_bytes(seed, f"{name}|{size}", max(size, 4))[4:])[:size]
        # shorter than the block: not an FCB at all (no parser is obliged to take it); longer: a valid block + tail
        return data, put(data), "valid" if size == fixed else ("odd" if size > fixed else "opaque")
    if name == "xmcd":
        key = ("xmcd", fam, rev, spec[1])
        if key not in _CACHE:
            _CACHE[key] = build_xmcd(fam, rev, spec[1])
        data = _CACHE[key]
        if spec[0] == "xr":  # same header, every bit of the configuration block (reserved ones included) seeded
            data = data[:4] + core.seeded_bytes(seed, f"xmcd|{spec[1]}", len(data) - 4)
            return data, put(data), "alt"
        return data, put(data), "valid"
    # application containers
    kind = spec[0]
    if kind == "raw":
        data = raw_bytes(seed, f"{name}|raw|{spec[1]}", spec[1])
        return data, put(data), "opaque"
    if kind in ("sb21", "sb31"):
        data = golden(kind, spec[1])
        try:
            if kind == "sb21":
                from spsdk.sbfile.sb2.images import BootImageV21

                BootImageV21.validate_header(data)
            else:
                from spsdk.sbfile.sb31.images import SecureBinary31

                SecureBinary31.validate_header(data)
            alone = True
        except Exception:  # noqa
            alone = False
        return data, put(data), "valid" if alone else "opaque"
    stem = {"secondary_image_container_set": "ahab2"}.get(name, "ahab")
    # containers are deterministic functions of (family, revision, spec, seed): built once per worker process
    ckey = ("container", stem, fam, rev, core.jdump(spec), seed)
    if not kind.endswith("-cfg") and ckey in _CACHE:
        data, q = _CACHE[ckey]
        return data, put(data), q
    if kind in ("mbi", "mbi-cfg"):
        data, cfgpath, alone = build_mbi(td, seed, fam, rev, spec[1], spec[2])
    elif kind in ("hab", "hab-cfg"):
        data, cfgpath, alone = build_hab(td, seed, spec[1])
    elif kind in ("ahab", "ahab-cfg"):
        data, cfgpath, alone = build_ahab(td, seed, fam, rev, spec[1], spec[2], stem)
    else:
        raise core.HarnessError(f"unknown component spec {name}: {spec}")
    q = "valid" if alone else "opaque"
    if kind.endswith("-cfg"):
        return data, cfgpath, q
    _CACHE[ckey] = (data, q)
    return data, put(data), q


# ---------------------------------------------------------------------------------------------
# one execution


def _site(exc: BaseException) -> str:
    """Innermost spsdk function of an exception's traceback (for discriminators)."""
    tb = exc.__traceback__
    name = "?"
    while tb is not None:
        code = tb.tb_frame.f_code
        if os.sep + "spsdk" + os.sep in code.co_filename:
            name = getattr(code, "co_qualname", code.co_name)
        tb = tb.tb_next
    return name


def _segments_of(bimg) -> dict:
    return {s.NAME.label: bytes(s.export()) for s in bimg.segments}


def _parse_diag(image: bytes, fam: str, mem: str, rev: str, io: int) -> str:
    """Which step of the parser refuses the image (discriminator only; walks the steps parse() takes for the
    initial offset the image was built with)."""
    from spsdk.image.bootable_image.bimg import BootableImage
    from spsdk.image.mem_type import MemoryType

    try:
        b = BootableImage(fam, MemoryType.from_label(mem), rev, io)
        if b.init_offset != io:
            return f"init_offset={b.init_offset}"
        b._parse(image)
        b.verify().validate()
        return "no-error-at-the-built-offset"
    except Exception as e:  # noqa
        if type(e).__name__ == "SPSDKVerificationError":
            try:
                import re

                txt = re.sub(r"\x1b\[[0-9;]*m", "", b.verify().draw())
                bad = [ln.strip() for ln in txt.splitlines() if "(Error)" in ln]
                seg = [m.group(1) for ln in bad for m in [re.match(r"Segment BootableImageSegment\.(\w+)\(Error\)", ln)] if m]
                if bad:
                    return "verify:" + (seg[-1].lower() if seg else "?") + ":" + re.sub(r"[0-9]+", "N", bad[-1])[:60]
            except Exception:  # noqa
                pass
        return f"{type(e).__name__}@{_site(e)}"


def run_case(case: dict, seed: int) -> dict:
    from spsdk.exceptions import SPSDKError
    from spsdk.image.bootable_image.bimg import BootableImage
    from spsdk.image.bootable_image.segments import BootableImageSegment

    viol: list = []
    count: dict = {}
    fam, rev, mem = case["f"], case["r"], case["m"]
    req = int(case.get("io", 0))  # requested initial offset
    api = case.get("api", "cfg")
    lay = BL.Layout(db_entry(fam, rev, mem))
    base = os.environ.get("VERIF_WORKDIR") or tempfile.gettempdir()
    os.makedirs(base, exist_ok=True)
    td = tempfile.mkdtemp(prefix="c14-", dir=base)
    try:
        supplied: dict = {}
        cfg: dict = {"family": fam, "revision": rev, "memory_type": mem}
        quality: dict = {}
        try:
            for name in lay.order:
                if name not in case["sup"]:
                    continue
                data, cfgval, q = component(name, case["sup"][name], case, td, seed)
                supplied[name] = data
                cfg[CFG_KEY.get(name, name)] = cfgval
                quality[name] = q
                spec = case["sup"][name]
                if q == "opaque" and isinstance(spec, list) and spec[0] != "raw":
                    count[f"container-refused-by-its-own-parser:{spec[0]}"] = 1
        except Unavailable as e:
            return {"viol": [], "count": {"component-unavailable": 1}, "distinct": [], "unavailable": str(e)[:200]}
        app_present = any(n in BL.APP_SEGMENTS and n != "secondary_image_container_set" for n in supplied)
        io = lay.round_init_offset(req)
        if io is None:
            # no prescribed offset at or above the request: the builder has to refuse
            try:
                b = BootableImage.load_from_config(dict(cfg, init_offset=req), search_paths=[td])
                img = b.export()
                viol.append(("C14.init-offset-beyond-last", "accepted", f"initial offset {req:#x} lies behind the last prescribed offset "
                             f"{max(lay.static_offsets()):#x}; accepted, init_offset={b.init_offset}, {len(img)} bytes exported"))
            except SPSDKError:
                count["rejected"] = 1
                count["init-offset-beyond-last-rejected"] = 1
            except (core.Watchdog, core.HarnessError):
                raise
            except Exception as e:  # noqa
                count[f"merge-error:{type(e).__name__}@{_site(e)}"] = 1
            return {"viol": viol, "count": count, "distinct": [], "rejected": "initial offset behind the last segment"}
        placed = lay.place(supplied, io)
        overlaps = BL.Layout.overlaps(placed)
        cutkind = "cut" if io else "full"
        qs = set(quality.values())
        # a configuration the property covers completely: valid segments that fit, application present
        legal = qs <= {"valid"} and app_present and not overlaps
        # if the parser returns, its answer is judged (slot payloads of odd size leniently)
        judged = qs <= {"valid", "odd", "alt"} and app_present and not overlaps
        # ---- merge
        image: Optional[bytes] = None
        image_full: Optional[bytes] = None
        image_back: Optional[bytes] = None
        try:
            if api == "cli":
                return _run_cli(case, cfg, lay, supplied, placed, overlaps, legal, io, td, viol, count)
            if api == "hist":
                return _run_history(case, cfg, lay, supplied, legal, td, viol, count, seed)
            if api in ("set", "setn"):
                bimg = BootableImage.load_from_config(dict(cfg, init_offset=0), search_paths=[td])
                image_full = bimg.export()
                if api == "set":
                    bimg.init_offset = req
                else:
                    seg = next(n for n in lay.order if lay.offsets[n] == req)
                    bimg.set_init_offset(BootableImageSegment.from_label(seg))
                image = bimg.export()
                bimg.init_offset = 0
                image_back = bimg.export()
            else:
                bimg = BootableImage.load_from_config(dict(cfg, init_offset=req), search_paths=[td])
                image = bimg.export()
        except SPSDKError as e:
            count["rejected"] = 1
            if legal:
                viol.append(("C14.merge-rejects-legal", f"{type(e).__name__}@{_site(e)}", f"{e}"[:300]))
            elif overlaps:
                count["overlap-rejected"] = 1
            elif qs <= {"valid", "odd", "alt"}:
                # a slot payload of another size than the slot that still ends before the next prescribed offset: a builder
                # may have a policy about slot sizes, but it cannot claim an overlap where the intervals are disjoint
                if type(e).__name__ == "SPSDKOverlapError":
                    viol.append(("C14.merge-rejects-legal", "overlap-claimed-for-disjoint-segments",
                                 f"{[repr(x) for x in placed]}: {e}"[:400]))
                else:
                    count["fitting-odd-size-rejected"] = 1
            return {"viol": core.dedupe(viol), "count": count, "distinct": [], "rejected": f"{type(e).__name__}: {e}"[:200]}
        except (core.Watchdog, core.HarnessError):
            raise
        except Exception as e:  # noqa
            count["merge-non-spsdk-error"] = 1
            count[f"merge-error:{type(e).__name__}@{_site(e)}"] = 1
            if legal:
                viol.append(("C14.merge-rejects-legal", f"{type(e).__name__}@{_site(e)}", f"{type(e).__name__}: {e}"[:300]))
            return {"viol": core.dedupe(viol), "count": count, "distinct": [], "rejected": f"{type(e).__name__}: {e}"[:200]}
        count["accepted"] = 1
        # ---- layout clauses
        if overlaps:
            for a, b in overlaps:
                kind = "slot-payload" if a.name in BL.FIXED_SIZE else a.name
                viol.append(("C14.overlap-accepted", f"{kind}-beyond-next-offset",
                             f"{a!r} and {b!r} intersect, image of {len(image)} bytes exported"))
        else:
            _layout_clauses(lay, image, placed, cutkind, "", viol, count, lay.place(supplied, 0))
            if api in ("set", "setn"):
                if image_full is not None:
                    _layout_clauses(lay, image_full, lay.place(supplied, 0), "full", "before the setter: ", viol, count)
                    if image_back != image_full:
                        viol.append(("C14.init-offset-state", "back-to-0", "image after init_offset = x; init_offset = 0 differs "
                                     "from the image exported before"))
        # ---- parse clauses (the images of the setter route are byte-identical to those of the sub family when the layout
        # clauses hold; they are parsed there)
        if not overlaps and (api == "cfg" or viol):
            _parse_clauses(case, lay, placed, image, io, legal, judged, viol, count)
        tok = core.short_hash([class_key(fam, rev, mem), sorted(case["sup"].items()), req, api])
        return {"viol": core.dedupe(viol), "count": count, "distinct": [tok] if placed else []}
    finally:
        shutil.rmtree(td, ignore_errors=True)


def _run_history(case: dict, cfg: dict, lay: BL.Layout, supplied: dict, legal: bool, td: str, viol: list, count: dict, seed: int = 0) -> dict:
    """A history of initial-offset requests on ONE live object (obtained from the configuration or from parse).

    After an accepted request the object has to be what a fresh object loaded with that initial offset is (model image,
    init_offset value, segment offsets, length, and byte-identical to the export of the fresh object); after a refused
    request (negative / behind the last prescribed offset) it has to be exactly what it was before the request."""
    from spsdk.exceptions import SPSDKError
    from spsdk.image.bootable_image.bimg import BootableImage
    from spsdk.image.bootable_image.segments import BootableImageSegment
    from spsdk.image.mem_type import MemoryType

    fam, rev, mem = case["f"], case["r"], case["m"]
    start = int(case.get("io", 0))
    C = "C14.init-offset-state"

    def snapshot(b) -> dict:
        snap: dict = {}
        for key, fn in (("init_offset", lambda: b.init_offset), ("len", lambda: len(b)),
                        ("segment-offsets", lambda: [(x.NAME.label, b.get_segment_offset(x)) for x in b.segments]),
                        ("image_info", lambda: [(x.name, x.offset, len(x)) for x in b.image_info().sub_images]),
                        ("export", lambda: bytes(b.export()))):
            try:
                snap[key] = fn()
            except (core.Watchdog, core.HarnessError):
                raise
            except Exception as e:  # noqa
                snap[key] = f"raises {type(e).__name__}"
        return snap

    fresh_cache: dict = {}

    def fresh_export(off: int) -> bytes:
        if off not in fresh_cache:
            fresh_cache[off] = bytes(BootableImage.load_from_config(dict(cfg, init_offset=off), search_paths=[td]).export())
        return fresh_cache[off]

    bimg = BootableImage.load_from_config(dict(cfg, init_offset=start), search_paths=[td])
    if case.get("src") == "parse":
        if any(n in BL.APP_SEGMENTS and not roundtrips_alone(d) for n, d in supplied.items()):
            # export() of a parsed object re-serialises the container; one that its own parser + exporter do not
            # reproduce on their own (C01/C06/C07 matter) cannot be judged here
            count["history-parse-container-does-not-round-trip-on-its-own"] = 1
            return {"viol": [], "count": count, "distinct": []}
        bimg = BootableImage.parse(bytes(bimg.export()), family=fam, mem_type=MemoryType.from_label(mem), revision=rev)
        if bimg.init_offset != start:
            count["history-parse-other-init-offset"] = 1
            return {"viol": [], "count": count, "distinct": []}
        # a parsed object knows only what the image holds
        supplied = {n: d for n, d in supplied.items() if not lay.excluded(n, start)}
    count["accepted"] = 1
    cur = start
    state = snapshot(bimg)
    for step, op in enumerate(case["ops"]):
        kind, val = op
        if kind == "repl":
            # the content of one segment is replaced on the live object through the segment's own documented loader (an
            # application that was rebuilt): afterwards the object has to be what a fresh object with the new content is
            if val not in supplied or lay.excluded(val, cur):
                continue
            try:
                data2, cfgval2, q2 = component(val, case["alt"][val], dict(case, sup=dict(case["sup"], **{val: case["alt"][val]})), td, seed)
            except Unavailable:
                count["history-replacement-unavailable"] = 1
                break
            if q2 != "valid":
                count["history-replacement-not-valid"] = 1
                break
            req = cur
        else:
            req = lay.offsets[val] if kind == "setn" else int(val)
        eff = None if req < 0 else lay.round_init_offset(req)
        if eff is not None and case.get("src") == "parse" and eff < start:
            continue  # nothing in front of the parsed image's start is known to the object
        try:
            if kind == "repl":
                bimg.get_segment(BootableImageSegment.from_label(val)).load_config({CFG_KEY.get(val, val): cfgval2}, search_paths=[td])
                supplied = dict(supplied, **{val: data2})
                cfg = dict(cfg, **{CFG_KEY.get(val, val): cfgval2})
                fresh_cache.clear()
                count["history-replacements"] = count.get("history-replacements", 0) + 1
            elif kind == "setn":
                bimg.set_init_offset(BootableImageSegment.from_label(val))
            else:
                bimg.init_offset = req
            refused = None
        except SPSDKError as e:
            refused = e
        except (core.Watchdog, core.HarnessError):
            raise
        except Exception as e:  # noqa
            viol.append((C, f"request-raises:{type(e).__name__}@{_site(e)}", f"step {step} {op}: {type(e).__name__}: {e}"[:200]))
            break
        after = snapshot(bimg)
        count["history-steps"] = count.get("history-steps", 0) + 1
        if eff is None:
            why = "negative" if req < 0 else "behind-last-segment"
            if refused is None:
                viol.append(("C14.init-offset-beyond-last", f"setter-accepted:{why}", f"step {step} {op}: accepted, init_offset={after['init_offset']}"))
                break
            count["history-refused-steps"] = count.get("history-refused-steps", 0) + 1
            diff = [k for k in state if state[k] != after[k]]
            if diff:
                a, b2 = state[diff[0]], after[diff[0]]
                txt = (f"{len(a)} -> {len(b2)} bytes" if isinstance(a, bytes) and isinstance(b2, bytes) else f"{a!r} -> {b2!r}")
                viol.append((C, f"refused-request-changes-object:{why}:{diff[0]}",
                             f"step {step} {op} raised {type(refused).__name__}; afterwards {diff} differ from before the request: {txt}"[:300]))
                break
            continue
        if refused is not None:
            if legal:
                viol.append((C, "legal-request-refused", f"step {step} {op}: {refused}"[:200]))
            break
        move = f"replaced-{val}" if kind == "repl" else ("lowered" if eff < cur else ("raised" if eff > cur else "same"))
        cur = eff
        state = after
        # one defect, one record: the first thing that is wrong after this move, then the history ends
        found = None
        placed = lay.place(supplied, eff)
        image = after["export"]
        if after["init_offset"] != eff:
            found = (f"{move}:init_offset-value", f"init_offset is {after['init_offset']}, expected {eff:#x}")
        elif not isinstance(image, bytes):
            found = (f"{move}:export-{image}", "")
        elif not BL.Layout.overlaps(placed):
            probs = lay.check_image(image, placed)
            offs = dict(after["segment-offsets"]) if isinstance(after["segment-offsets"], list) else None
            want = {q.name: q.start for q in placed}
            if probs:
                found = (f"{move}:{probs[0][0]}", f"(initial offset {eff:#x}) {probs[0][2]}")
            elif offs is None or any(offs.get(n) != o for n, o in want.items()):
                found = (f"{move}:segment-offsets", f"get_segment_offset gives {offs}, expected {want}")
            elif after["len"] != len(image):
                found = (f"{move}:len", f"len() = {after['len']}, export has {len(image)} bytes")
            elif case.get("src") != "parse":
                try:
                    if fresh_export(eff) != image:
                        found = (f"{move}:differs-from-fresh-object", f"export differs from the export of a fresh object loaded with "
                                 f"init_offset {eff:#x}")
                except SPSDKError:
                    pass
        if found:
            viol.append((C, found[0], f"step {step} {op}: {found[1]}"[:300]))
            break
    tok = core.short_hash([class_key(fam, rev, mem), sorted(case["sup"].items()), start, case.get("src"), case["ops"]])
    return {"viol": core.dedupe(viol), "count": count, "distinct": [tok]}


def _layout_clauses(lay: BL.Layout, image: bytes, placed: list, cutkind: str, prefix: str, viol: list, count: dict,
                    full_placed: Optional[list] = None) -> None:
    probs = lay.check_image(image, placed)
    if probs:
        d = lay.shift_of(image, placed)
        uncut = None
        if full_placed is not None and cutkind == "cut":  # is it the image of initial offset 0 (displaced by d bytes)?
            uncut = next((x for x in (0, 1, 2, 4) if len(image) > x and image[:x].count(lay.fill) == x
                          and not lay.check_image(image[x:], full_placed)), None)
        if uncut is not None:  # one defect, one record
            viol.append(("C14.segment-at-offset", f"initial-offset-ignored:image-of-offset-0-displaced-by-{uncut}",
                         prefix + f"the image is the complete image of initial offset 0 preceded by {uncut} fill byte(s); " + probs[0][2]))
        elif d is not None:
            viol.append(("C14.segment-at-offset", f"whole-image-displaced:{cutkind}",
                         prefix + f"the image is the expected image preceded by {d} extra fill byte(s); " + probs[0][2]))
        else:
            for aspect, disc, detail in probs:
                viol.append((f"C14.{aspect}", f"{disc}:{cutkind}", prefix + detail))
    else:
        count["layout-ok"] = count.get("layout-ok", 0) + 1
    if len(image) > lay.expected_length(placed):
        count["image-longer-than-last-segment"] = 1


def _parse_clauses(case: dict, lay: BL.Layout, placed: list, image: bytes, io: int, legal: bool, judged: bool,
                   viol: list, count: dict) -> None:
    from spsdk.exceptions import SPSDKError
    from spsdk.image.bootable_image.bimg import BootableImage
    from spsdk.image.mem_type import MemoryType

    fam, rev, mem = case["f"], case["r"], case["m"]
    cutkind = "cut" if io else "full"
    if not placed:
        return
    # is the parser obliged to recognise this image?
    recognisable = True
    if io:
        first = placed[0]
        if io not in lay.start_offsets() or first.start != 0 or first.name not in BL.START_SEGMENTS:
            recognisable = False
            count["parse-cut-not-recognisable"] = 1
    obliged = legal and recognisable
    judged = judged and recognisable
    expected = {p.name: p.data for p in placed}
    exact = [True]  # every segment came back byte for byte (no slot padding / truncation)

    def tag(name: str) -> str:
        """segment name + content variant (part of the discriminators)"""
        spec = case["sup"].get(name)
        v = VARIANT_LABEL.get(spec if isinstance(spec, str) else (spec[0] if isinstance(spec, list) else None))
        return f"{name}[{v}]" if v else name

    def compare(got: dict, clause_missing: str, clause_bytes: str) -> bool:
        ok = True
        for name, data in expected.items():
            if name not in got:
                viol.append((clause_missing, f"{tag(name)}:{cutkind}", f"{name} ({len(data)} bytes supplied) is not among {sorted(got)}"))
                ok = False
                continue
            verdict = BL.compare_segment(name, data, got[name], lay.fill)
            if verdict == "differs":
                m = min(len(data), len(got[name]))
                d = next((i for i in range(m) if data[i] != got[name][i]), m)
                viol.append((clause_bytes, f"{tag(name)}:{cutkind}", f"{name}: supplied {len(data)} bytes, returned {len(got[name])} bytes, "
                             f"first difference at {d:#x}"))
                ok = False
            elif verdict != "equal":
                exact[0] = False
                count[f"parse-slot-{verdict}"] = count.get(f"parse-slot-{verdict}", 0) + 1
        return ok

    def reexport(p) -> None:
        """merge -> parse -> export has to reproduce the merged image (the segments came back unchanged and the
        offsets are the device's, so anything else means the parsed object holds other bytes than it reports)"""
        try:
            again = p.export()
        except (core.Watchdog, core.HarnessError):
            raise
        except Exception as e:  # noqa
            viol.append(("C14.parse-reexport", f"raises:{type(e).__name__}@{_site(e)}:{cutkind}", f"{type(e).__name__}: {e}"[:200]))
            return
        if again == image:
            count["reexport-ok"] = 1
            return
        # bytes inside a container that its own parser + exporter do not reproduce on their own are not judged here
        loose = [q for q in placed if q.name in BL.APP_SEGMENTS and not roundtrips_alone(q.data)]
        if loose:
            a2, i2 = bytearray(again), bytearray(image)
            for q in loose:
                for buf in (a2, i2):
                    buf[q.start:q.end] = bytes(len(buf[q.start:q.end]))
            if len(a2) != len(i2) and loose[-1] is placed[-1]:
                cut = min(len(a2), len(i2))
                a2, i2 = a2[:cut], i2[:cut]
            if a2 == i2:
                count["reexport-differs-only-inside-a-container-that-does-not-round-trip-on-its-own"] = 1
                return
        m = min(len(again), len(image))
        d = next((i for i in range(m) if again[i] != image[i]), m)
        where = next((tag(q.name) for q in placed if q.start <= d < q.end), "length" if d == m else "gap")
        viol.append(("C14.parse-reexport", f"{where}:{cutkind}", f"export() of the parsed image has {len(again)} bytes, the merged image "
                     f"{len(image)}; first difference at {d:#x}"))

    explicit_ok = False
    try:
        p = BootableImage.parse(image, family=fam, mem_type=MemoryType.from_label(mem), revision=rev)
        got = _segments_of(p)
        count["parse-returned"] = 1
        if judged:
            count["parse-judged"] = 1
            explicit_ok = compare(got, "C14.parse-missing-segment", "C14.parse-segment-bytes")
            if explicit_ok:
                count["parse-judged-ok"] = 1
                if exact[0] and p.init_offset == io:
                    reexport(p)
        else:
            same = all(BL.compare_segment(n, d, got.get(n, b""), lay.fill) != "differs" for n, d in expected.items())
            count["parse-not-judged-" + ("same" if same else "other")] = 1
        if p.init_offset != io:
            count["parse-other-init-offset"] = 1
    except SPSDKError as e:
        count["parse-rejected"] = 1
        if obliged:
            viol.append(("C14.parse-raises", f"{cutkind}:{_parse_diag(image, fam, mem, rev, io)}", f"{e}"[:200]))
    except (core.Watchdog, core.HarnessError):
        raise
    except Exception as e:  # noqa
        count["parse-non-spsdk-error"] = 1
        count[f"parse-error:{type(e).__name__}@{_site(e)}"] = 1
        if obliged:
            viol.append(("C14.parse-raises", f"{cutkind}:{type(e).__name__}@{_site(e)}", f"{type(e).__name__}: {e}"[:200]))
    # ---- memory type auto-detection (quick tier: on the base family, which visits every triple, and through the CLI)
    if not explicit_ok or not obliged or case.get("auto") == 0:
        return
    try:
        p = BootableImage.parse(image, family=fam, mem_type=None, revision=rev)
        got = _segments_of(p)
        if p.mem_type.label == mem:
            if compare(got, "C14.auto-segment-bytes", "C14.auto-segment-bytes"):
                count["auto-judged-ok"] = 1
        else:
            same = all(BL.compare_segment(n, d, got.get(n, b""), lay.fill) != "differs" for n, d in expected.items())
            count["auto-other-memtype-" + ("same-segments" if same else "ambiguous")] = 1
    except SPSDKError as e:
        viol.append(("C14.auto-detect-fails", f"{cutkind}", f"{e}"[:200]))
    except (core.Watchdog, core.HarnessError):
        raise
    except Exception as e:  # noqa
        viol.append(("C14.auto-detect-fails", f"{cutkind}:{type(e).__name__}@{_site(e)}", f"{type(e).__name__}: {e}"[:200]))


def _run_cli(case: dict, cfg: dict, lay: BL.Layout, supplied: dict, placed: list, overlaps: list, legal: bool, io: int,
             td: str, viol: list, count: dict) -> dict:
    import yaml
    from click.testing import CliRunner

    from spsdk.apps import nxpimage

    fam, rev, mem = case["f"], case["r"], case["m"]
    req = int(case.get("io", 0))
    cutkind = "cut" if io else "full"
    count["cli_cases"] = 1
    ycfg = {k: (os.path.basename(v) if isinstance(v, str) and os.path.dirname(v) == td else v) for k, v in cfg.items()}
    ycfg["init_offset"] = req
    cpath = os.path.join(td, "bimg_cfg.yaml")
    with open(cpath, "w") as f:
        yaml.safe_dump(ycfg, f)
    out = os.path.join(td, "merged.bin")
    runner = CliRunner()
    r = runner.invoke(nxpimage.main, ["bootable-image", "merge", "-c", cpath, "-o", out], catch_exceptions=True)
    if r.exit_code != 0 or not os.path.exists(out):
        count["rejected"] = 1
        if legal:
            viol.append(("C14.cli", "merge-failed", f"exit {r.exit_code}: {(r.output or '')[-200:]} {r.exception!r}"[:400]))
        return {"viol": viol, "count": count, "distinct": [], "rejected": "cli merge failed"}
    count["accepted"] = 1
    with open(out, "rb") as f:
        image = f.read()
    if overlaps:
        for a, b in overlaps:
            kind = "slot-payload" if a.name in BL.FIXED_SIZE else a.name
            viol.append(("C14.overlap-accepted", f"{kind}-beyond-next-offset", f"cli: {a!r} and {b!r} intersect, image written"))
        return {"viol": core.dedupe(viol), "count": count, "distinct": []}
    _layout_clauses(lay, image, placed, cutkind, "cli merge: ", viol, count, lay.place(supplied, 0))
    first = placed[0] if placed else None
    recognisable = not io or (io in lay.start_offsets() and first is not None and first.start == 0 and first.name in BL.START_SEGMENTS)
    if legal and recognisable and rev == latest_rev(fam):  # the parse command has no revision option
        explicit_failed = False
        for auto in (False, True):
            pdir = os.path.join(td, "parsed-auto" if auto else "parsed")
            args = ["bootable-image", "parse", "-f", fam] + ([] if auto else ["-m", mem]) + ["-b", out, "-o", pdir]
            r = runner.invoke(nxpimage.main, args, catch_exceptions=True)
            tag = "auto-" if auto else ""
            if r.exit_code != 0:
                if auto and explicit_failed:
                    continue  # same refusal, already recorded
                explicit_failed = not auto
                viol.append(("C14.cli", f"{tag}parse-failed:{cutkind}:{_parse_diag(image, fam, mem, rev, io)}",
                             f"exit {r.exit_code}: {(r.output or '')[-200:]} {r.exception!r}"[:400]))
                continue
            ypath = os.path.join(pdir, f"bootable_image_{fam}_{mem}.yaml")
            if auto and not os.path.exists(ypath):
                count["cli-auto-other-memtype"] = 1
                continue
            try:
                with open(ypath) as f:
                    pc = yaml.safe_load(f)
            except Exception as e:  # noqa
                pc = None
                viol.append(("C14.cli", f"{tag}parse-config-missing", f"{type(e).__name__}: {e}"[:200]))
            for p in placed:
                if p.name in BL.VERSION_SEGMENTS:
                    if pc is not None:
                        want = int.from_bytes(p.data[:2] if p.name == "image_version_ap" else p.data, "little")
                        have = pc.get("image_version")
                        if have != want:
                            viol.append(("C14.cli", f"{tag}parse-segment:{p.name}", f"image_version in the written config is {have!r}, supplied {want}"))
                    continue
                fn = os.path.join(pdir, f"segment_{p.name}.bin")
                if not os.path.exists(fn):
                    viol.append(("C14.cli", f"{tag}parse-segment-missing:{p.name}", f"segment_{p.name}.bin not written"))
                    continue
                with open(fn, "rb") as f:
                    got = f.read()
                if BL.compare_segment(p.name, p.data, got, lay.fill) == "differs":
                    viol.append(("C14.cli", f"{tag}parse-segment:{p.name}", f"segment_{p.name}.bin has {len(got)} bytes, supplied {len(p.data)}; differs"))
            if pc is not None and pc.get("init_offset") != io:
                count["cli-parse-other-init-offset"] = 1
            count[f"cli-{tag}parse-judged"] = 1
    tok = core.short_hash([class_key(fam, rev, mem), sorted(case["sup"].items()), req, "cli"])
    return {"viol": core.dedupe(viol), "count": count, "distinct": [tok]}


def w_case(case: dict) -> dict:
    return run_case(case, _SEED)


def _init_worker() -> None:
    import logging

    logging.disable(logging.CRITICAL)


# ---------------------------------------------------------------------------------------------
# enumeration


def default_spec(name: str, fam: str, rev: str, mem: str) -> Any:
    if name in SLOT_RAW or name in SLOT_FCB:
        return "fix"
    if name in BL.VERSION_SEGMENTS:
        return ["v", 0x1234]
    if name == "xmcd":
        return ["x", 0]
    return app_kinds(name, fam, rev, mem)[0]


def ahab_tm(mem: str) -> str:
    return "serial_downloader" if mem == "serial_downloader" else ("nand_2k" if mem.endswith("nand") else "standard")


def app_kinds(name: str, fam: str, rev: str, mem: str, sizes: Any = False) -> list:
    """Container kinds of an application segment, the default (valid) one first.

    sizes: False = one size per kind, True = all size classes, "thin" = the two / three boundary classes (quick tier)"""
    thin = sizes == "thin"
    if name in ("mbi", "hab_container"):
        ns = (0x4F3, 0x200) if thin else ((0x4F3, 0x200, 0x1001) if sizes else (0x4F3,))
        raws = (1,) if thin else ((1, 0x333) if sizes else (0x333,))
        if name == "mbi":
            auths = [a for (_, a) in mbi_auths(fam, rev)]
            return [["mbi", a, n] for a in auths for n in ns] + [["raw", n] for n in raws]
        return [["hab", n] for n in ns] + [["raw", n] for n in raws]
    if name in ("ahab_container", "primary_image_container_set", "secondary_image_container_set"):
        tm = ahab_tm(mem)
        # container sizes = 0x200 / 0 / 0x200 modulo 1 KB
        ns = (0x200, 0x400) if thin else ((0x200, 0x400, 0x401) if sizes else (0x200,))
        raws = (1024, 1025) if thin else ((1, 1023, 1024, 1025) if sizes else (1023,))
        return [["ahab", tm, n] for n in ns] + [["raw", n] for n in raws]
    if name in ("sb21", "sb31"):
        raws = (1,) if thin else ((1, 0x333) if sizes else (0x333,))
        return [[name, 0]] + ([[name, 1]] if sizes else []) + [["raw", n] for n in raws]
    raise core.HarnessError(f"no container kinds for segment {name}")


def cfg_kinds(name: str, fam: str, rev: str, mem: str) -> list:
    if name == "mbi":
        return [["mbi-cfg", a, 0x4F3] for (_, a) in mbi_auths(fam, rev)]
    if name == "hab_container":
        return [["hab-cfg", 0x4F3]]
    if name in ("ahab_container", "primary_image_container_set", "secondary_image_container_set"):
        return [["ahab-cfg", ahab_tm(mem), n] for n in (0x200, 0x400)]
    return []


def subsets(items: list) -> list:
    out = []
    for r in range(len(items) + 1):
        out += [list(c) for c in itertools.combinations(items, r)]
    return out


def split_segments(lay: BL.Layout) -> tuple:
    """-> (main application segment, optional segments)"""
    apps = [n for n in lay.order if n in BL.APP_SEGMENTS and n != "secondary_image_container_set"]
    if len(apps) != 1:
        raise core.HarnessError(f"layout without exactly one application segment: {lay.order}")
    return apps[0], [n for n in lay.order if n != apps[0]]


def enumerate_cases(tier: str, triples: list, reps: dict) -> dict:
    fam_cases: dict = {"base": [], "cli": [], "content": [], "hist": [], "sub": [], "size": [], "set": [], "round": [], "ycfg": [], "nohdr": []}
    quick = tier == "quick"
    # ---- base: every triple
    for (f, r, m) in triples:
        lay = BL.Layout(db_entry(f, r, m))
        app, opt = split_segments(lay)
        chosen = [[]] + [[o] for o in opt] + ([opt] if len(opt) > 1 else [])
        newest = r == latest_rev(f)
        if quick and not newest:  # older revisions: application only / all segments; singles and cuts on the latest revision
            chosen = [[]] + ([opt] if opt else [])
        for sub in chosen:
            sup = {n: default_spec(n, f, r, m) for n in [app] + sub}
            fam_cases["base"].append({"f": f, "r": r, "m": m, "sup": sup, "io": 0})
            if not quick and (sub == [] or sub == opt):
                for kind in app_kinds(app, f, r, m)[1:]:
                    fam_cases["base"].append({"f": f, "r": r, "m": m, "sup": dict(sup, **{app: kind}), "io": 0})
        sup = {n: default_spec(n, f, r, m) for n in lay.order}
        for io in (lay.start_offsets() if newest or not quick else []):
            fam_cases["base"].append({"f": f, "r": r, "m": m, "sup": sup, "io": io})
    # ---- per class representative
    for key, rl in reps.items():
        for (f, r, m) in rl:
            lay = BL.Layout(db_entry(f, r, m))
            app, opt = split_segments(lay)
            ios = [0] + [o for o in lay.static_offsets() if o]
            T = {"f": f, "r": r, "m": m}
            # sub: all subsets x all initial offsets x all container kinds (default sizes)
            for sub in subsets(opt):
                for io in ios:
                    kinds = app_kinds(app, f, r, m, sizes=not quick)
                    if quick and 0 < len(sub) < len(opt):
                        kinds = kinds[:1]
                    for kind in kinds:
                        sup = {n: default_spec(n, f, r, m) for n in sub}
                        sup[app] = kind
                        fam_cases["sub"].append(dict(T, sup=sup, io=io))
                    # boot header only
                    if sub and (not quick or io in (ios[0], ios[-1])):
                        fam_cases["nohdr"].append(dict(T, sup={n: default_spec(n, f, r, m) for n in sub}, io=io))
                for io in (sorted({ios[1], ios[-1]}) if quick and len(ios) > 1 else ios[1:]):
                    sup = {n: default_spec(n, f, r, m) for n in [app] + sub}
                    fam_cases["set"].append(dict(T, sup=sup, io=io, api="set"))
                    if not quick or len(sub) == len(opt):
                        fam_cases["set"].append(dict(T, sup=sup, io=io, api="setn"))
            # content variants the segment types accept besides the canonical one (everything else present), at initial
            # offset 0 and at the latest recognisable start offset that still contains the segment
            for name in opt:
                if name in SLOT_FCB:
                    alts = ["swp", "pad"]
                elif name in SLOT_RAW:
                    alts = ["pad"]
                elif name == "xmcd":
                    alts = [["xr", i] for i in range(len(xmcd_variants(f, r)))]
                else:
                    continue
                later = [o for o in lay.start_offsets() if o <= lay.offsets[name]]
                for alt in alts:
                    sup = {n: default_spec(n, f, r, m) for n in lay.order}
                    sup[name] = alt
                    for io in [0] + later[-1:]:
                        fam_cases["content"].append(dict(T, sup=sup, io=io))
                    if not quick:
                        fam_cases["content"].append(dict(T, sup={app: default_spec(app, f, r, m), name: alt}, io=0))
            # requested initial offsets between / behind the prescribed ones (rounded up / refused)
            sup = {n: default_spec(n, f, r, m) for n in lay.order}
            for o in lay.static_offsets():
                for io in (o - 1, o + 1):
                    if io > 0:
                        fam_cases["round"].append(dict(T, sup=sup, io=io))
                        if not quick or io > o:
                            fam_cases["round"].append(dict(T, sup=sup, io=io, api="set"))
            # size departures of one segment, in two contexts (alone with the application / everything present)
            ctxs = ([opt] if quick else [[], opt]) if opt else [[]]
            for name in opt:
                alts: list = []
                if name in SLOT_RAW or name in SLOT_FCB:
                    fixed = BL.FIXED_SIZE[name]
                    gap = lay.gap_after(name)
                    cand = {1} if quick else {1, fixed - 1, fixed + 1}
                    if gap:
                        cand |= {gap, gap + 1} if quick else {gap - 1, gap, gap + 1}
                    alts = sorted(c for c in cand if c > 0 and c != fixed)
                elif name == "xmcd":
                    alts = [["x", i] for i in range(1, len(xmcd_variants(f, r)))]
                elif name in BL.VERSION_SEGMENTS:
                    alts = [["v", 0]] if quick else [["v", 0], ["v", 1], ["v", 0xFFFF]]
                elif name == "secondary_image_container_set":
                    continue  # below, together with the primary set
                for alt in alts:
                    for ctxo in ctxs:
                        names = sorted(set(ctxo) | {name}, key=lay.order.index)
                        sup = {n: default_spec(n, f, r, m) for n in [app] + names}
                        sup[name] = alt
                        own = lay.offsets[name]
                        for io in ([0] if quick and name not in BL.START_SEGMENTS else sorted({0, own})):
                            fam_cases["size"].append(dict(T, sup=sup, io=io))
            # all slot segments at once at gap-1 / gap (exact fit: no fill byte left between them) / fixed+1
            slots = [n for n in opt if n in SLOT_RAW or n in SLOT_FCB]
            if len(slots) > 1:
                for mode in ("gap-1", "gap", "fixed+1"):
                    sup = {n: default_spec(n, f, r, m) for n in lay.order}
                    for n in slots:
                        gap = lay.gap_after(n) or BL.FIXED_SIZE[n]
                        sup[n] = {"gap-1": gap - 1, "gap": gap, "fixed+1": BL.FIXED_SIZE[n] + 1}[mode]
                    for io in ios:
                        fam_cases["size"].append(dict(T, sup=sup, io=io))
            # container sizes; with a floating successor: every size class of both
            floating = [n for n in opt if lay.is_floating(n)]
            others = [n for n in opt if not lay.is_floating(n)]
            for kind in app_kinds(app, f, r, m, sizes="thin" if quick else True):
                second: list = [None]
                if floating:
                    second += [["ahab", ahab_tm(m), 0x200], ["raw", 1]] + ([] if quick else [["raw", 1024]])
                for sec in second:
                    for ctxo in (([others] if quick else [[], others]) if others else [[]]):
                        sup = {n: default_spec(n, f, r, m) for n in ctxo}
                        sup[app] = kind
                        if sec is not None:
                            sup[floating[0]] = sec
                        for io in sorted({0, lay.offsets[app]}):
                            fam_cases["size"].append(dict(T, sup=sup, io=io))
            # container as YAML configuration
            for kind in cfg_kinds(app, f, r, m):
                for ctxo in (([others] if quick else [[], others]) if others else [[]]):
                    second = [None] + ([["ahab-cfg", ahab_tm(m), 0x200]] + ([] if quick else [["ahab", ahab_tm(m), 0x200]])
                                       if floating else [])
                    for sec in second:
                        sup = {n: default_spec(n, f, r, m) for n in ctxo}
                        sup[app] = kind
                        if sec is not None:
                            sup[floating[0]] = sec
                        for io in sorted({0, lay.offsets[app]}):
                            fam_cases["ycfg"].append(dict(T, sup=sup, io=io))
            # histories of initial-offset requests on one live object: from every recognisable start offset down through
            # every prescribed offset to 0 and up again, refused requests (behind the last segment / negative) in between
            sup = {n: default_spec(n, f, r, m) for n in lay.order}
            stat = lay.static_offsets()
            byname = {lay.offsets[n]: n for n in lay.order if lay.offsets[n] >= 0}
            big = max(stat) + 1
            for s0 in [0] + lay.start_offsets():
                down = [o for o in reversed(stat) if o < s0]
                if 0 not in down and s0:
                    down.append(0)
                up = [o for o in stat if o > 0]
                ops: list = [["set", big]]
                for i, o in enumerate(down):
                    ops.append(["setn", byname[o]] if (i % 2 and o in byname) else ["set", o])
                    ops.append(["set", big if i % 2 == 0 else -1])
                for i, o in enumerate(up):
                    ops.append(["setn", byname[o]] if i % 2 == 0 else ["set", o - 1])  # o - 1: rounded up to o
                ops += [["set", -1], ["set", big + 0x1000], ["set", s0]]
                fam_cases["hist"].append(dict(T, sup=sup, io=s0, api="hist", ops=ops))
            ops = [["set", big]] + [x for o in stat if o for x in (["set", o], ["set", -1 if o % 2048 else big])] + [["set", 0]]
            fam_cases["hist"].append(dict(T, sup=sup, io=0, api="hist", src="parse", ops=ops))
            # ... and histories in which the application container (and the floating set behind it) is replaced on the live
            # object by one of another size class: whatever the object worked out for the old content must not survive
            for tgt in [app] + floating:
                kinds2 = [k for k in app_kinds(tgt, f, r, m, sizes="thin" if quick else True) if k != sup.get(tgt)]
                d0 = sup.get(tgt)
                if isinstance(d0, list) and len(d0) == 3 and isinstance(d0[2], int):
                    # a payload several alignment units longer, so that everything placed behind this container has to move
                    kinds2 = [[d0[0], d0[1], d0[2] + 0x1400]] + kinds2
                for k2 in (kinds2[:2] if quick else kinds2):
                    for s0 in ([0] if quick else sorted({0, lay.offsets[app]})):
                        fam_cases["hist"].append(dict(T, sup=sup, io=s0, api="hist", alt={tgt: k2},
                                                      ops=[["repl", tgt], ["set", big], ["set", s0], ["repl", tgt]]))
            # CLI
            sup = {n: default_spec(n, f, r, m) for n in lay.order}
            for io in [0] + lay.start_offsets():
                fam_cases["cli"].append(dict(T, sup=sup, io=io, api="cli"))
            fam_cases["cli"].append(dict(T, sup={app: default_spec(app, f, r, m)}, io=0, api="cli"))
    if quick:
        for name, cases in fam_cases.items():
            for c in cases:
                n_all = len(db_entry(c["f"], c["r"], c["m"])["segments"])
                if name in ("cli", "content") or (name == "base" and len(c["sup"]) == n_all and c["r"] == latest_rev(c["f"])):
                    continue
                c["auto"] = 0
    # remove duplicates (same case reached from two families of the enumeration), keep order
    seen: set = set()
    for name, cases in fam_cases.items():
        uniq = []
        for c in cases:
            k = core.jdump(c)
            if k not in seen:
                seen.add(k)
                uniq.append(c)
        fam_cases[name] = uniq
    return fam_cases


def choose_reps(triples: list, per_class: int, coarse: bool = False) -> tuple:
    classes: dict = {}
    for t in triples:
        classes.setdefault(class_key(*t, coarse=coarse), []).append(t)
    reps = {}
    for k, members in classes.items():
        # prefer the latest revision of a family (the CLI parse command has no revision option), distinct families
        members = sorted(members, key=lambda t: (t[1] != latest_rev(t[0]), t))
        chosen: list = []
        for t in members:
            if len(chosen) >= per_class:
                break
            if t[0] not in [c[0] for c in chosen]:
                chosen.append(t)
        reps[k] = chosen
    return classes, reps


def calibrate() -> None:
    """The layout model on the repository's golden bootable images (config + merged_image.bin), where the
    configuration names plain binary segment files."""
    import glob

    import yaml

    root = os.path.join(_tests_dir(), "nxpimage", "data", "bootable_image")
    n = 0
    for cfgp in sorted(glob.glob(os.path.join(root, "**", "config.yaml"), recursive=True)):
        d = os.path.dirname(cfgp)
        merged = os.path.join(d, "merged_image.bin")
        if not os.path.exists(merged) or os.path.basename(d) == "0xff_pattern":
            # 0xff_pattern is a parse-only example (no test merges it): filled with 0xFF although the database says zeros
            continue
        with open(cfgp) as f:
            cfg = yaml.safe_load(f)
        if cfg.get("revision", "latest") != "latest":
            continue
        try:
            lay = BL.Layout(db_entry(cfg["family"], "latest", cfg["memory_type"]))
        except Exception:  # noqa
            continue
        supplied = {}
        ok = True
        for name in lay.order:
            v = cfg.get(CFG_KEY.get(name, name))
            if name in BL.VERSION_SEGMENTS:
                if isinstance(v, int):
                    supplied[name] = BL.encode_image_version(name, v)
                continue
            if not v:
                continue
            p = os.path.join(d, v)
            if not os.path.exists(p) or not v.endswith(".bin"):
                ok = False
                break
            with open(p, "rb") as f:
                supplied[name] = f.read()
        io = cfg.get("init_offset", 0)
        if not ok or not isinstance(io, int) or (io and io not in lay.static_offsets()):
            continue
        with open(merged, "rb") as f:
            image = f.read()
        placed = lay.place(supplied, io)
        probs = [p for p in lay.check_image(image, placed)]
        if BL.Layout.overlaps(placed) or probs:
            raise core.HarnessError(f"layout model disagrees with the golden image {merged}: {probs[:2]}")
        n += 1
    if n < 10:
        raise core.HarnessError(f"only {n} golden bootable images could be used for calibration")
    _CACHE[("calibrated",)] = n


def run(ctx: core.Ctx) -> None:
    global _SEED
    _SEED = ctx.seed
    # import in the parent so that the forked workers share the modules and the device database
    import spsdk.apps.nxpimage  # noqa
    import spsdk.image.bootable_image.bimg  # noqa

    quick = ctx.tier == "quick"
    calibrate()
    triples = all_triples()
    classes, reps = choose_reps(triples, 1 if quick else 4, coarse=quick)
    fam = enumerate_cases(ctx.tier, triples, reps)
    ctx.cov["triples"] = len(triples)
    ctx.cov["layout_classes"] = len(classes)
    ctx.cov["class_sizes"] = sorted((len(v) for v in classes.values()), reverse=True)
    ctx.cov["representatives"] = [list(t) for rl in reps.values() for t in rl]
    ctx.cov["golden_images_calibrated"] = _CACHE.get(("calibrated",), 0)
    ctx.cov["families"] = {}
    ctx.cov["bounds_completed"] = []
    ctx.cov["clauses"] = CLAUSES
    rejected_samples: list = []
    dims: dict = {"api": {}, "container_kind": {}, "initial_offset": {}, "optional_segments_supplied": {}, "memory_type": {}}

    def tally(case: dict, outcome: str) -> None:
        lay = BL.Layout(db_entry(case["f"], case["r"], case["m"]))
        app = [n for n in case["sup"] if n in BL.APP_SEGMENTS and n != "secondary_image_container_set"]
        io = int(case.get("io", 0))
        vals = {"api": case.get("api", "cfg"),
                "container_kind": case["sup"][app[0]][0] if app else "none",
                "initial_offset": "0" if io == 0 else ("start-segment" if io in lay.start_offsets() else
                                                       ("other-segment" if io in lay.static_offsets() else "between/behind")),
                "optional_segments_supplied": str(len([n for n in case["sup"] if n not in app])),
                "memory_type": case["m"]}
        for d, v in vals.items():
            t = dims[d].setdefault(v, {"tried": 0, "accepted": 0, "rejected": 0, "unavailable": 0})
            t["tried"] += 1
            t[outcome] += 1

    for name, cases in fam.items():
        if ctx.out_of_budget():
            ctx.cov["families"][name] = {"cases": len(cases), "done": 0, "completed": False}
            continue
        n = acc = rej = una = 0
        cut = False
        gen = ctx.pool_map(w_case, cases, timeout=120, initfn=_init_worker, chunksize=4, check_det=3)
        for case, res in gen:
            ok = ctx.absorb(case, res)
            n += 1
            if ok:
                if res.get("unavailable"):
                    una += 1
                    tally(case, "unavailable")
                elif res.get("rejected"):
                    rej += 1
                    tally(case, "rejected")
                    if len(rejected_samples) < 16:
                        rejected_samples.append({"case": case, "why": res["rejected"]})
                else:
                    acc += 1
                    tally(case, "accepted")
            if n in (1, len(cases)):
                ctx.sample(case, limit=16)
            if n % 256 == 0 and ctx.time_left() <= 0:
                cut = True
                break
        if cut:
            gen.close()
            ctx.exhaustive = False
        ctx.cov["families"][name] = {"cases": len(cases), "done": n, "accepted": acc, "rejected": rej,
                                     "component_unavailable": una, "completed": not cut}
        if not cut:
            ctx.cov["bounds_completed"].append(name)
    ctx.cov["rejected_samples"] = rejected_samples
    ctx.cov["per_dimension"] = dims
    ctx.rule = (
        "base: every (family, revision, memory type) triple of the bootable_image feature x {application only, application + each "
        "single optional segment, all segments} at initial offset 0 + all segments cut at every recognisable start offset; per "
        "layout-class representative (%d per class; class key = segment map, fill pattern and the database facts of the segment "
        "types): sub = ALL subsets of optional segments x ALL initial offsets {0, every prescribed offset} x every container kind; "
        "hist = per start offset one history of init_offset requests on a live object (down to 0, up again, refused requests in "
        "between; also on a parsed object); content = per segment type the accepted non-canonical contents (byte-swapped FCB, trailing 0x00/0xFF runs, XMCD with "
        "all bits seeded) at offset 0 and a later start offset; set = the same through the init_offset setter / set_init_offset(segment); round = requested offsets one byte below/above "
        "every prescribed offset; size = one segment departing to {1, fixed-1, fixed+1, gap-1, gap, gap+1} "
        "(slot segments), every XMCD variant, image-version values, container size classes x floating successor; ycfg = container "
        "given as YAML configuration; nohdr = no application; cli = nxpimage merge/parse.  A case is distinct/non-trivial when the "
        "builder accepted it and at least one segment is placed; token = (class, supplied segment specs, initial offset, api)."
        % (1 if quick else 4))
    ctx.assumptions += [
        "bimg_layout.py is the trusted base: the segment map and fill pattern come from the generic database accessor, slot sizes / "
        "the 1 KB alignment of floating AHAB sets / the set of segments a cut image may start with are format facts kept in its "
        "tables; it is calibrated at every start on the golden merged images under tests/nxpimage/data/bootable_image",
        "container content (MBI, HAB, AHAB built by SPSDK's builders from minimal configurations; SB2.1/SB3.1 golden files; XMCD "
        "from the XMCD class at default values; FCB = tag + seeded bytes) is not judged, only that the bytes land and come back",
        "a parser is obliged to recognise a cut image only when it starts with a supplied FCB or application container",
        "slot segments with a payload shorter / longer than the slot: parse returning payload + fill / the first slot-size bytes is "
        "counted (parse-slot-padded / parse-slot-truncated), not reported",
        "mem_type=None: returned segments are judged only when the detected memory type is the one the image was built for",
        "configurations without application container are judged on the layout clauses only",
    ]


def replay(ctx: core.Ctx, rec: dict) -> bool:
    global _SEED
    _SEED = ctx.seed
    _init_worker()
    case = rec["case"]
    res = core.run_with_watchdog(w_case, case, 300)
    if res.get("__watchdog__"):
        print("watchdog: does not terminate")
        return rec["clause"].endswith(".terminates")
    if res.get("rejected"):
        print("builder rejects the case:", res["rejected"])
    if res.get("unavailable"):
        print("component unavailable:", res["unavailable"])
    hits = [v for v in res["viol"] if v[0] == rec["clause"] and v[1] == rec["disc"]]
    for v in res["viol"]:
        print(("* " if v in hits else "  ") + f"{v[0]} [{v[1]}] {v[2]}")
    print("counters:", res.get("count"))
    return bool(hits)
