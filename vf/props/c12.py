"""C12 — per-device configuration areas: template, configuration and binary round trips.

Engine E1 (lattice over the device database), three pool phases:

* k = 0, always complete: EVERY (area, family, revision, sub-feature / memory type / peripheral) instance the
  database offers (802 on this tree), at the base configuration = the area's own generated template:
  template -> YAML (ruamel 1.2 and PyYAML 1.1 must read the same mapping) -> the area's schema -> load -> export ->
  documented size -> reset image of the description file -> markers -> parse (+ verify) -> export,
  get_config -> load -> export (from the loaded and from the parsed object); PFR: seal on, ROTKH from 3-4 key sets
  through export(keys=) and export(rotkh=); XMCD: CRC.  The base run records, through wrapped
  Features.get_value / get_file_path, every database value and the SHA-1 of every file the area read: the class key.
* k = 1 on one representative per class: every register and every bit-field of the template set through the
  configuration to {0, 1, max, max-1, 0x55.., 0xAA.., each enum name}, the whole-register form (plus one value whose
  bytes come from VERIF_SEED), computed fields given explicitly / calculated fields left out; thorough adds k = 2:
  pairs of neighbouring bit-fields of one register, and runs every round trip for every value.  The quick tier is a
  thinned k = 1 (see the assumptions written into the evidence): {0, 1, max, 0x55..}, at most four enum names per
  field, first and last register of every structure, round trips on one value per field.
* the CLIs the property names (pfr, ifr, nxpimage bca|fcf|tz, nxpimage bootable-image fcb|xmcd, nxpfuses, nxpmemcfg):
  get-template -> export -> parse at base on the representative of every class, compared with the API results;
  pfr generate-binary --add-seal / --secret-file.

Oracle: vf/ref/area_rules.py — the register description files read independently (offsets, widths, reset values,
bit-field positions, enumerations, `calculated` markers), a byte-image model of every area, inverse fields, seal,
key-table hashes, XMCD header / CRC-32/MPEG-2, FCB / BCA tags, option-word counts, fuse-script syntax.  No spsdk code
decides anything; c12_adapters.py only gives the areas one face.

Clauses (C12.<name>): template, template-yaml, template-schema, template-loads, spec-loaded, export, size, image,
marker, computed-field, parse-rejects, verify-rejects, binary-roundtrip, config-roundtrip, config-value,
in-range-rejected, out-of-range-accepted, schema-refuses-loadable-value, object-history, cli, terminates.  Discriminators of data findings carry '@<directory>/<description file>'.
"""
from __future__ import annotations

import copy
import hashlib
import json
import os
import re
import shutil
import tempfile
from typing import Any, Optional

from vf import core
from vf.props import c12_adapters as A
from vf.ref import area_rules as AR

LEVEL = "exploration"

KINDS = ["pfr.cmpa", "pfr.cfpa", "ifr.romcfg", "ifr.cmactable", "bca", "fcf", "fcb", "xmcd", "tz", "fuses", "memcfg"]


# ---------------------------------------------------------------------------------------------
# worker plumbing

_STATE: dict[str, dict] = {}  # inst_id -> base state (LRU of 3)
_LAST_VALIDATOR: list = [None]  # what fastjsonschema.compile returned last (= the area's full schema after area.validate)
_INIT = False


def _worker_init() -> None:
    global _INIT
    if _INIT:
        return
    _INIT = True
    import logging

    logging.disable(logging.CRITICAL)
    core.bind_repo()
    # fastjsonschema.compile is a pure function of (schema, names of the formats); compiling the same register
    # schema again for every case costs 0.5 s: memoise it on the JSON text of the schema (third-party entry point,
    # not code under check; every distinct schema is still compiled for real)
    import fastjsonschema

    orig = fastjsonschema.compile
    memo: dict[str, Any] = {}

    def compile_memo(definition, handlers={}, formats={}, use_default=True, use_formats=True, detailed_exceptions=True):  # noqa
        key = hashlib.sha1((core.jdump(definition) + "|" + ",".join(sorted(formats))).encode()).hexdigest()
        v = memo.get(key)
        if v is None:
            if len(memo) > 12:
                memo.clear()
            v = memo[key] = orig(definition, handlers=handlers, formats=formats, use_default=use_default,
                                 use_formats=use_formats, detailed_exceptions=detailed_exceptions)
        _LAST_VALIDATOR[0] = v
        return v

    fastjsonschema.compile = compile_memo
    AR.selftest()
    # the forked worker inherits the parent's loaded device database (some 10^6 objects): keep the cyclic collector
    # from walking (and, through the reference counts, copying) that heap on every full collection - the areas that
    # deep-copy their registers on every access (XMCD) trigger one every few milliseconds
    import gc

    gc.collect()
    gc.freeze()


class Out:
    def __init__(self):
        self.viol: list = []
        self.count: dict[str, int] = {}
        self.distinct: list[str] = []
        self.extra: dict[str, Any] = {}

    def v(self, clause: str, disc: str, detail: str) -> None:
        self.viol.append((f"C12.{clause}", disc, detail[:900]))

    def c(self, key: str, n: int = 1) -> None:
        self.count[key] = self.count.get(key, 0) + n

    def result(self) -> dict:
        r = {"viol": core.dedupe(self.viol), "distinct": self.distinct, "count": self.count}
        r.update(self.extra)
        return r


def _exc_kind(e: BaseException) -> str:
    from spsdk.exceptions import SPSDKError

    return "spsdk" if isinstance(e, SPSDKError) else type(e).__name__


def _yaml_both(text: str) -> tuple[Any, Any, Optional[str]]:
    """-> (ruamel (YAML 1.2) result, PyYAML (YAML 1.1, the reader spsdk uses) result, complaint)."""
    import yaml
    from ruamel.yaml import YAML

    a = b = None
    ea = eb = None
    try:
        a = YAML(typ="safe").load(text)
    except Exception as e:  # noqa
        ea = f"ruamel: {type(e).__name__}: {str(e)[:200]}"
    try:
        b = yaml.load(text, Loader=getattr(yaml, "CSafeLoader", yaml.SafeLoader))
    except Exception as e:  # noqa
        eb = f"pyyaml: {type(e).__name__}: {str(e)[:200]}"
    if ea or eb:
        return a, b, "not-parsable|" + " / ".join(x for x in (ea, eb) if x)
    if not isinstance(a, dict) or not isinstance(b, dict):
        return a, b, f"not-a-mapping|document is a {type(b).__name__}"
    if core.jdump(a) != core.jdump(b):
        return a, b, "yaml-1.1-reads-another-document|" + _first_diff(a, b)
    return a, b, None


def _first_diff(a: Any, b: Any, path: str = "") -> str:
    if isinstance(a, dict) and isinstance(b, dict):
        for k in a:
            if k not in b:
                return f"{path}/{k}: missing for PyYAML"
            d = _first_diff(a[k], b[k], f"{path}/{k}")
            if d:
                return d
        return ""
    if a != b or type(a) is not type(b):
        return f"{path}: YAML 1.2 reads {a!r}, YAML 1.1 (PyYAML, used by spsdk) reads {b!r}"
    return ""


# ---------------------------------------------------------------------------------------------
# models per kind


def build_model(kind: str, facts: dict) -> dict:
    """Independent model of the area from its description file(s). -> {"model": AreaModel | None, ...}"""
    m: dict[str, Any] = {"kind": kind}
    if kind == "tz":
        m["flat"] = AR.read_flat_yaml(facts["spec"])
        m["model"] = None
        return m
    regs = AR.read_spec(facts["spec"])
    m["spec_regs"] = regs
    if kind == "xmcd":
        hdr = AR.read_spec(facts["header_spec"])
        hsize = AR.extent(hdr)
        block = []
        for r in regs:
            r2 = copy.copy(r)
            r2.offset = r.offset + hsize
            block.append(r2)
        m["hdr_size"] = hsize
        m["model"] = AR.AreaModel(hdr + block, size=0, prefill=0)
        m["block_regs"] = block
        return m
    if kind == "fuses":
        m["model"] = AR.AreaModel(regs, size=max(AR.extent(regs), 4), prefill=0)
        return m
    m["model"] = AR.AreaModel(regs, size=facts.get("size", 0), prefill=facts.get("prefill", 0))
    return m


def spec_tag(facts: dict) -> str:
    """Where a data defect lives: '@<directory>/<description file>' (part of the discriminators of data findings, so that
    the same kind of defect in another device's file is a different finding)."""
    p = facts.get("spec", "")
    return "@" + "/".join(p.replace("\\", "/").split("/")[-2:])


def groups_of(facts: dict) -> dict[str, dict]:
    return {g["name"]: g for g in facts.get("grouped", []) or []}


def sub_uid_to_group(facts: dict) -> dict[str, str]:
    out = {}
    for g in facts.get("grouped", []) or []:
        for s in g["sub_regs"]:
            out[s] = g["name"]
    return out


def group_width(g: dict, model: AR.AreaModel) -> int:
    if g.get("width"):
        return AR.num(g["width"])
    return sum(model.by_uid[s].width for s in g["sub_regs"] if s in model.by_uid)


def group_bytes(g: dict, model: AR.AreaModel) -> set[int]:
    out: set[int] = set()
    for s in g["sub_regs"]:
        r = model.by_uid.get(s)
        if r is not None:
            out.update(range(r.offset + model.base_offset, r.offset + model.base_offset + r.nbytes))
    return out


# ---------------------------------------------------------------------------------------------
# expected artefacts


def xmcd_expected(mdl: dict, img_all: bytes) -> bytes:
    """Image of header + block from the full-register image: configOption1 exists only for optionSize != 0;
    configurationBlockSize is the real size."""
    model: AR.AreaModel = mdl["model"]
    img = bytearray(img_all)
    o0 = next((r for r in mdl["block_regs"] if r.name == "configOption0"), None)
    o1 = next((r for r in mdl["block_regs"] if r.name == "configOption1"), None)
    if o0 is not None and o1 is not None:
        f = o0.field("optionSize")
        if f is not None and ((model.get(bytes(img), o0) >> f.off) & ((1 << f.width) - 1)) == 0:
            if o1.offset + o1.nbytes == len(img):
                img = img[:o1.offset]
    hdr = model.by_name["header"]
    f = hdr.field("configurationBlockSize")
    v = model.get(bytes(img), hdr)
    model.put(img, hdr, (v & ~f.mask) | ((len(img) << f.off) & f.mask))
    return bytes(img)


def memcfg_expected(mdl: dict, facts: dict, img_all: bytes) -> Optional[bytes]:
    model: AR.AreaModel = mdl["model"]
    regs = sorted(model.regs, key=lambda r: r.offset)
    words = [model.get(img_all, r) for r in regs]
    n = AR.memcfg_word_count(facts.get("rule") or "", words, regs[0] if regs else None, len(regs))
    if n is None:
        return None
    return b"".join(w.to_bytes(4, "little") for w in words[:n])


_FUSE_CMD = {"blhost": re.compile(r"^efuse-program-once\s+(\S+)\s+(\S+)(\s+--(no-)?verify)?(\s+lock)?\s*$"),
             "nxpele": re.compile(r"^write-fuse\s+--index\s+(\S+)\s+--data\s+(\S+)(\s+--lock)?\s*$")}


def fuse_script_cmds(text: str, tool: str) -> Optional[list[tuple[int, int]]]:
    """Read a fuse programming script by the documented command syntax of the tool."""
    out = []
    for line in text.splitlines():
        line = line.strip()
        if not line or line.startswith("#"):
            continue
        m = _FUSE_CMD[tool].match(line)
        if not m:
            return None
        out.append((AR.num(m.group(1)), AR.num(m.group(2))))
    return out


def fuses_expected(mdl: dict, facts: dict, settings: dict, img_all: bytes) -> tuple[list, set]:
    """-> ([(otp index, value | None)], ...) one write command per leaf fuse named by the configuration, in its order;
    value None = not modelled (member of a group register)."""
    model: AR.AreaModel = mdl["model"]
    grp = groups_of(facts)
    out = []
    for name in settings:
        if name in grp:
            g = grp[name]
            subs = [model.by_uid[s] for s in g["sub_regs"] if s in model.by_uid]
            if g.get("reverse_subregs_order"):
                subs = subs[::-1]
            for r in subs:
                out.append((r.index, None))
        else:
            r = model.reg(name)
            if r is None:
                out.append((None, None))
            else:
                out.append((r.index, mdl["values"].get(r.uid, r.reset)))
    return out, set()


# ---------------------------------------------------------------------------------------------
# base state of an instance (shared by base and departure cases)


def base_state(inst: dict, out: Optional[Out] = None, log: Optional[list] = None) -> Optional[dict]:
    """Template -> YAML -> load -> export of an instance; reports base clauses into `out` when given."""
    iid = A.inst_id(inst)
    if out is None and iid in _STATE:
        return _STATE[iid]
    from spsdk.exceptions import SPSDKError

    kind = inst["kind"]
    area = A.AREAS[kind]
    o = out or Out()
    st: dict[str, Any] = {"inst": inst, "ok": False}
    facts = area.facts(inst)
    st["facts"] = facts
    mdl = build_model(kind, facts)
    st["mdl"] = mdl
    # 1. template
    try:
        tpl = area.template(inst)
    except Exception as e:  # noqa
        o.v("template", f"{kind}:raises:{_exc_kind(e)}", f"{iid}: template generation raised {type(e).__name__}: {e}")
        return st
    if not isinstance(tpl, str) or not tpl.strip():
        o.v("template", f"{kind}:empty", f"{iid}: template is empty")
        return st
    st["tpl"] = tpl
    # 2. YAML
    cfg12, cfg, bad = _yaml_both(tpl)
    if bad:
        o.v("template-yaml", f"{kind}:{bad.split('|')[0]}", f"{iid}: {bad.split('|', 1)[1]}")
        if not bad.startswith("yaml-1.1"):
            return st
        cfg = cfg12  # go on with the document as written, so that the rest of the pipeline is still checked
    st["cfg"] = cfg
    if area.settings_key not in cfg or not isinstance(cfg[area.settings_key], dict):
        o.v("template", f"{kind}:no-settings", f"{iid}: template has no '{area.settings_key}' mapping")
        return st
    if cfg.get("family") != inst["family"] or str(cfg.get("revision", "latest")) not in (inst["rev"], "latest"):
        o.v("template", f"{kind}:family-revision", f"{iid}: template says family={cfg.get('family')} revision={cfg.get('revision')}")
    if str(cfg.get("revision", "latest")) == "latest" and not A._db(inst).is_latest:
        # a template that does not name its revision loads as the latest one: make the configuration say what it is for
        o.v("template", f"{kind}:revision-missing", f"{iid}: template of revision {inst['rev']} carries revision={cfg.get('revision')}")
        cfg["revision"] = inst["rev"]
    # 3. schema (out given = base case only)
    if out is not None and kind != "xmcd":  # XMCD.load_from_config runs the same two check_config calls itself (0.3 s each)
        try:
            area.validate(inst, copy.deepcopy(cfg))
        except SPSDKError as e:
            o.v("template-schema", f"{kind}", f"{iid}: the template does not pass the area's schema: {str(e)[:500]}")
        except Exception as e:  # noqa
            o.v("template-schema", f"{kind}:raises:{type(e).__name__}", f"{iid}: check_config raised {type(e).__name__}: {e}")
    # 4. load + export
    try:
        obj = area.load(inst, copy.deepcopy(cfg))
        if kind == "tz":
            obj._c12_rev = inst["rev"]
    except Exception as e:  # noqa
        if kind == "xmcd" and "validation failed" in str(e):
            o.v("template-schema", f"{kind}", f"{iid}: the template does not pass the area's schema: {str(e)[:500]}")
        else:
            o.v("template-loads", f"{kind}:{_exc_kind(e)}", f"{iid}: loading the template raised {type(e).__name__}: {str(e)[:500]}")
        return st
    st["obj"] = obj
    try:
        img = area.export(obj)
    except Exception as e:  # noqa
        o.v("export", f"{kind}:base:{_exc_kind(e)}{spec_tag(facts)}", f"{iid}: export of the template configuration raised {type(e).__name__}: {str(e)[:500]}")
        return st
    st["img"] = img
    st["ok"] = True
    if out is None:
        if len(_STATE) >= 3:
            _STATE.pop(next(iter(_STATE)))
        _STATE[iid] = st
    return st


def demanded_inverse(st: dict, settings: dict) -> list[str]:
    """Registers the configuration gives in bit-field form without their INVERSE field."""
    model: AR.AreaModel = st["mdl"]["model"]
    out = []
    for r, f in AR.inverse_rules(model.regs):
        v = settings.get(r.name)
        if isinstance(v, dict) and f.name not in v and "value" not in v:
            out.append(r.name)
    return out


XMCD_INTERFACE = {"flexspi_ram": 0, "xspi_ram": 0, "semc_sdram": 1}  # header.memoryInterface: 0 = FlexSPI / XSPI, 1 = SEMC
XMCD_BLOCK_TYPE = {"simplified": 0, "full": 1}  # header.configurationBlockType


def full_reset(st: dict) -> bytes:
    """Model image of all registers at reset (register areas); an XMCD header names its interface and block type."""
    model: AR.AreaModel = st["mdl"]["model"]
    img = model.reset_image()
    if st["inst"]["kind"] == "xmcd":
        hdr = model.by_name["header"]
        img = model.with_field(img, hdr, hdr.field("memoryInterface"), XMCD_INTERFACE[st["inst"]["sub"][0]])
        img = model.with_field(img, hdr, hdr.field("configurationBlockType"), XMCD_BLOCK_TYPE[st["inst"]["sub"][1]])
    return img


def finish_image(st: dict, img_all: bytes, settings: dict) -> Optional[bytes]:
    """From the image of all registers to the artefact the area exports."""
    kind = st["inst"]["kind"]
    model: AR.AreaModel = st["mdl"]["model"]
    if kind.startswith("pfr.") or kind.startswith("ifr."):
        img = bytearray(img_all)
        for name in demanded_inverse(st, settings):
            r = model.by_name[name]
            for rr, f in AR.inverse_rules([r]):
                v = model.get(bytes(img), r)
                model.put(img, r, (v & ~f.mask) | (AR.inverse_expected(v, f) << f.off))
        return bytes(img)
    if kind == "xmcd":
        return xmcd_expected(st["mdl"], img_all)
    if kind == "memcfg":
        return memcfg_expected(st["mdl"], st["facts"], img_all)
    return img_all


# ---------------------------------------------------------------------------------------------
# clauses shared by base and departures


def parse_demanded(kind: str, inst: dict, img: bytes) -> bool:
    """Does the independent reading of the binary say the area's parser has to accept it (as this instance)?"""
    if kind == "fcb":
        return img[:4] == b"FCFB"
    if kind == "bca":
        return img[:4] == b"kcfg"
    if kind == "xmcd":
        if len(img) < 4:
            return False
        h = AR.xmcd_header(img)
        iface = XMCD_INTERFACE.get(inst["sub"][0])
        btype = XMCD_BLOCK_TYPE.get(inst["sub"][1])
        return h["interface"] == iface and h["block_type"] == btype
    return True


def fast_config(area: A.Area, kind: str, obj: Any) -> dict:
    """The dictionary an area renders into its configuration text (FCB / XMCD have only the text form; rendering
    200 registers as commented YAML costs 0.3 s, so the departures take the dictionary `create_config` starts from)."""
    if kind == "fcb":
        return {"family": obj.family, "revision": obj.revision, "type": obj.mem_type.label,
                "fcb_settings": obj.registers.get_config()}
    if kind == "xmcd":
        return {"family": obj.family, "revision": obj.revision, "mem_type": obj.mem_type.label,
                "config_type": obj.config_type.label, "xmcd_settings": obj.registers.get_config()}
    return area.config(obj)


def round_trips(st: dict, o: Out, obj: Any, img: bytes, tag: str, disc_extra: str, fast: bool, what: str,
                export_kw: Optional[dict] = None, only_reg: Optional[str] = None, given: Optional[tuple] = None) -> None:
    """parse(export(x)).export() == export(x); load(config(x)).export() == export(x); for a whole-register value
    `given` = (register, target): the configuration of the object names that value again."""
    inst = st["inst"]
    kind = inst["kind"]
    area = A.AREAS[kind]
    iid = A.inst_id(inst)
    kw = export_kw or {}
    parsed = None
    masked = st.get("masked", set())
    _v = o.v

    def v(clause: str, disc: str, detail: str) -> None:
        if f"C12.{clause}" in masked:
            o.c("dep_clause_masked_by_base_failure")  # the base case of this instance reports the clause already
        else:
            _v(clause, disc, detail)

    o = _Proxy(o, v)
    if area.has_parse:
        if not parse_demanded(kind, inst, img):
            o.c("parse_not_demanded")
            if kind == "xmcd":
                return  # the header no longer describes this instance: the binary is another area's, by the user's word
        else:
            try:
                parsed = area.parse(inst, img)
                if kind == "tz":
                    parsed._c12_rev = inst["rev"]
            except Exception as e:  # noqa
                o.v("parse-rejects", f"{kind}{disc_extra}:{_exc_kind(e)}", f"{iid} {what}: the area's parser raised {type(e).__name__}: {str(e)[:300]}")
            if parsed is not None:
                try:
                    bad = area.verify(parsed)
                    if bad and AR_markers_ok(kind, img):
                        o.v("verify-rejects", f"{kind}{disc_extra}", f"{iid} {what}: verifier complains: {bad[:300]}")
                except Exception as e:  # noqa
                    o.v("verify-rejects", f"{kind}{disc_extra}:raises:{_exc_kind(e)}", f"{iid} {what}: verify raised {type(e).__name__}: {e}")
                try:
                    img2 = area.export(parsed, **kw)
                    if img2 != img:
                        o.v("binary-roundtrip", f"{kind}{disc_extra}", f"{iid} {what}: parse(export(x)).export() differs: " + _diff(st, img, img2))
                except Exception as e:  # noqa
                    o.v("binary-roundtrip", f"{kind}{disc_extra}:raises:{_exc_kind(e)}", f"{iid} {what}: export after parse raised {type(e).__name__}: {str(e)[:300]}")
    sources = [("loaded", obj)] + ([("parsed", parsed)] if parsed is not None else [])
    if (fast or kind in ("fcb", "xmcd")) and parsed is not None:
        sources = [("parsed", parsed)]  # rendering + reloading a 200-register block twice costs seconds
    for label, src in sources:
        try:
            # FCB / XMCD have only the rendered (commented YAML) form, 0.5-0.8 s per call: every instance takes the
            # dictionary that create_config() renders; the rendering itself is round-tripped once per class (cli_case)
            cfg2 = fast_config(area, kind, src) if (fast or (kind in ("fcb", "xmcd") and tag == "base")) else area.config(src)
        except Exception as e:  # noqa
            o.v("config-roundtrip", f"{kind}{disc_extra}:get-config-raises:{_exc_kind(e)}", f"{iid} {what}: configuration of the {label} object raised {type(e).__name__}: {str(e)[:300]}")
            continue
        if given is not None:
            gv = cfg2.get(area.settings_key, {}).get(given[0]) if isinstance(cfg2.get(area.settings_key), dict) else None
            if isinstance(gv, dict) and set(gv) == {"value"}:
                gv = gv["value"]
            if isinstance(gv, (str, int)) and not isinstance(gv, bool):
                try:
                    got_int = gv if isinstance(gv, int) else int(gv, 16)  # "0x.." and plain hex digits alike
                except ValueError:
                    got_int = None
                if got_int is not None and got_int != given[1]["raw"]:
                    o.v("config-value", f"{kind}{disc_extra}" + (":zero-byte" if given[1].get("zero_byte") else ""),
                        f"{iid} {what}: the configuration of the {label} object names {gv} for {given[0]}")
        try:
            if only_reg is not None and kind == "fuses" and only_reg in cfg2.get("registers", {}):
                # quick tier: the configuration of a fuse object names all ~300 fuses; validating and scripting them again
                # for every value costs 80 ms, and the comparison looks at the commands of the original only
                cfg2 = dict(cfg2, registers={only_reg: cfg2["registers"][only_reg]})
                obj3 = fuses_fast_load(cfg2)
            else:
                obj3 = area.load(inst, copy.deepcopy(cfg2))
            img3 = area.export(obj3, **kw)
        except Exception as e:  # noqa
            o.v("config-roundtrip", f"{kind}{disc_extra}:load-raises:{_exc_kind(e)}" + (spec_tag(st["facts"]) if tag == "base" else ""), f"{iid} {what}: loading the configuration of the {label} object raised {type(e).__name__}: {str(e)[:300]}")
            continue
        if kind == "fuses":
            same = fuses_same(st, img, img3)
        else:
            same = img3 == img
        if not same:
            d = f"{kind}{disc_extra}"
            if _only_inverse_at_reset(st, img, img3):
                # a computed field that holds its reset value is not part of get_config(); loading recomputes it
                d = f"{kind.split('.')[0]}:computed-field-at-reset-dropped-from-config"
            o.v("config-roundtrip", d, f"{iid} {what}: load(get_config(x)).export() differs ({label} object): " + _diff(st, img, img3))


class _Proxy:
    """An Out whose `v` goes through a filter."""

    def __init__(self, o: Out, v):
        self._o = o
        self.v = v

    def __getattr__(self, k):
        return getattr(self._o, k)


def AR_markers_ok(kind: str, img: bytes) -> bool:
    if kind == "xmcd":
        return AR.xmcd_markers(img) is None
    return True


def _only_inverse_at_reset(st: dict, a: bytes, b: bytes) -> bool:
    """a -> b differ only in INVERSE fields that are at reset (0) in a and at the computed value in b."""
    model = st["mdl"].get("model")
    kind = st["inst"]["kind"]
    if model is None or not (kind.startswith("pfr.") or kind.startswith("ifr.")) or len(a) != len(b):
        return False
    x = bytearray(a)
    hit = False
    for r, f in AR.inverse_rules(model.regs):
        va, vb = model.get(a, r), model.get(b, r)
        if va != vb and (va & ~f.mask) == (vb & ~f.mask) and (va & f.mask) == (f.reset << f.off) and \
                ((vb >> f.off) & ((1 << f.width) - 1)) == AR.inverse_expected(vb, f):
            model.put(x, r, vb)
            hit = True
    return hit and bytes(x) == b


def fuses_same(st: dict, a: bytes, b: bytes) -> bool:
    """The configuration of a fuse object names every fuse, the original only those of its configuration: the
    commands of the original must re-appear with equal values."""
    tool = st["facts"].get("tool", "blhost")
    ca, cb = fuse_script_cmds(a.decode(), tool), fuse_script_cmds(b.decode(), tool)
    if ca is None or cb is None:
        return False
    pool = list(cb)
    for c in ca:
        if c in pool:
            pool.remove(c)
        else:
            return False
    return True


def _diff(st: dict, a: bytes, b: bytes) -> str:
    model = st["mdl"].get("model")
    kind = st["inst"]["kind"]
    if kind == "fuses":
        tool = st["facts"].get("tool", "blhost")
        try:
            ca, cb = fuse_script_cmds(a.decode(), tool) or [], fuse_script_cmds(b.decode(), tool) or []
            miss = [c for c in ca if c not in cb]
            if miss:
                other = [c for c in cb if c[0] == miss[0][0]]
                return f"write command (index, value) {miss[0]} became {other[:2]}"
        except Exception:  # noqa
            pass
    if model is None or kind in ("fuses", "memcfg"):
        if len(a) != len(b):
            return f"length {len(a)} vs {len(b)}"
        i = next((k for k in range(len(a)) if a[k] != b[k]), -1)
        return f"first difference at byte {i:#x}: {a[i:i+8].hex()} vs {b[i:i+8].hex()}"
    return AR.diff_regs(model, a, b)


# ---------------------------------------------------------------------------------------------
# base case


def entry_hashes(st: dict) -> dict[str, str]:
    """Per target register of the template: hash of everything the description data says about it."""
    inst = st["inst"]
    kind = inst["kind"]
    facts = st["facts"]
    settings = st["cfg"][A.AREAS[kind].settings_key]
    out = {}
    if kind == "tz":
        flat = dict(st["mdl"]["flat"])
        for i, name in enumerate(settings):
            out[name] = hashlib.sha1(f"tz|{name}".encode()).hexdigest()[:12] + "/tzword"  # every TZ word is a plain 32-bit value
        return out
    with open(facts["spec"], "r", encoding="utf-8") as f:
        raw = json.load(f)
    by_name, by_uid = {}, {}
    for g in raw.get("groups", []):
        for r in g.get("registers", []):
            by_name.setdefault(r.get("name"), r)
            by_uid.setdefault(r.get("id"), r)
    if kind == "xmcd":
        with open(facts["header_spec"], "r", encoding="utf-8") as f:
            for g in json.load(f).get("groups", []):
                for r in g.get("registers", []):
                    by_name.setdefault(r.get("name"), r)
    grp = groups_of(facts)
    comp = facts.get("computed", {})
    for name in settings:
        if name in grp:
            ent: Any = [grp[name], [by_uid.get(s) for s in grp[name]["sub_regs"]]]
            g = {k: v for k, v in grp[name].items() if k not in ("name", "uid", "description", "sub_regs")}
            stru = core.jdump([g, [AR.structure_key(AR.SpecReg(by_uid[s])) for s in grp[name]["sub_regs"] if s in by_uid]])
        else:
            r = by_name.get(name)
            ent = [r, comp.get(r.get("id")) if r else None]
            stru = core.jdump([AR.structure_key(AR.SpecReg(r)) if r else None, bool(r and comp.get(r.get("id")))])
        out[name] = hashlib.sha1((kind + "|" + core.jdump(ent)).encode()).hexdigest()[:12] + "/" + \
            hashlib.sha1(stru.encode()).hexdigest()[:10]
    return out


def base_case(inst: dict) -> dict:
    from spsdk.exceptions import SPSDKError  # noqa

    o = Out()
    kind = inst["kind"]
    area = A.AREAS[kind]
    iid = A.inst_id(inst)
    log: list = []
    with A.db_recorder(log):
        st = base_state(inst, o, log)
        if st is not None and st.get("ok"):
            base_clauses(st, o)
    o.extra["class_key"] = A.class_key(kind, log)
    if st is not None and st.get("ok"):
        o.extra["targets"] = entry_hashes(st)
        o.distinct.append(o.extra["class_key"])
    o.c("base_instances")
    o.c(f"base:{kind}")
    return o.result()


def base_clauses(st: dict, o: Out) -> None:
    inst = st["inst"]
    kind = inst["kind"]
    area = A.AREAS[kind]
    iid = A.inst_id(inst)
    facts, mdl, cfg, obj, img = st["facts"], st["mdl"], st["cfg"], st["obj"], st["img"]
    settings = cfg[area.settings_key]
    model: Optional[AR.AreaModel] = mdl.get("model")

    # -- every register of the description file is there (template and live object) ---------------------------
    if kind == "tz":
        names = [n for n, _ in mdl["flat"]]
        if list(settings) != names:
            miss = [n for n in names if n not in settings]
            o.v("spec-loaded", f"{kind}:template-registers", f"{iid}: template lists {len(settings)} of {len(names)} preset words; missing {miss[:5]}")
    else:
        grp = groups_of(facts)
        s2g = sub_uid_to_group(facts)
        want = []
        regs_for_names = mdl.get("block_regs") and (model.regs) or mdl["spec_regs"]
        for r in regs_for_names:
            if r.reserved:
                continue
            want.append(s2g.get(r.uid, r.name))
        want = list(dict.fromkeys(want))
        miss = [n for n in want if n not in settings]
        if miss:
            why = ""
            odd = [r.name for r in mdl["spec_regs"] if r.width % 8]
            if odd:
                why = ":register-width-not-multiple-of-8"
            o.v("spec-loaded", f"{kind}:template-registers{why}{spec_tag(facts)}",
                f"{iid}: the template has {len(settings)} registers, the description file {len(want)} non-reserved ones; missing {miss[:6]}"
                + (f"; registers of width not a multiple of 8 bits: {odd[:6]}" if odd else ""))
        extra = [n for n in settings if n not in want]
        if extra:
            o.v("spec-loaded", f"{kind}:template-extra-registers", f"{iid}: template registers not in the description file: {extra[:6]}")
        # bit-fields of every register in the template
        for r in regs_for_names:
            if r.reserved or r.uid in s2g or r.name not in settings:
                continue
            tv = settings[r.name]
            named = [f.name for f in r.fields if f.name]
            hidden = set()
            for ruid, fl in (facts.get("computed") or {}).items():
                if ruid == r.uid:
                    hidden = {f.name for f in r.fields if f.uid in fl}
            if named and isinstance(tv, dict):
                missf = [n for n in named if n not in tv and n not in hidden]
                if missf:
                    o.v("spec-loaded", f"{kind}:template-bitfields", f"{iid}: register {r.name}: bit-fields missing in the template: {missf[:6]}")
            elif named and not isinstance(tv, dict):
                o.v("spec-loaded", f"{kind}:template-bitfields", f"{iid}: register {r.name} has bit-fields but the template gives a scalar")

    if model is not None:
        for g in facts.get("grouped", []) or []:
            gone = [u for u in g["sub_regs"] if u not in model.by_uid]
            if gone:
                # the group is narrower than its declared width: a value of that width is cut down without a word
                o.v("spec-loaded", f"{kind}:group-members-missing{spec_tag(facts)}",
                    f"{iid}: group {g['name']} ({group_width(g, model)} bits) names sub-registers the description file does not have: {gone[:4]}... ({len(gone)} of {len(g['sub_regs'])})")
    if model is not None and kind != "fuses" and model.overlapping:
        o.v("spec-loaded", f"{kind}:overlapping-registers{spec_tag(facts)}", f"{iid}: registers of the description file share bytes: {sorted(model.overlapping)[:6]}")

    # -- documented size ------------------------------------------------------------------------------------------
    exp_img: Optional[bytes] = None
    if kind == "tz":
        exp_img = b"".join(v.to_bytes(4, "little") for _, v in mdl["flat"])
        want_size = 4 * len(mdl["flat"])
    elif kind == "fuses":
        want_size = None
    else:
        full = full_reset(st)
        exp_img = finish_image(st, full, settings)
        if kind in ("xmcd", "memcfg"):
            want_size = len(exp_img) if exp_img is not None else None
        else:
            want_size = facts.get("size") or None
            ext = AR.extent(model.regs)
            if want_size and ext > want_size:
                o.v("size", f"{kind}:registers-exceed-size", f"{iid}: registers extend to {ext} bytes, documented size is {want_size}")
            if want_size and kind in ("bca", "fcf", "fcb") and ext != want_size:
                o.v("size", f"{kind}:description-extent", f"{iid}: description file covers {ext} bytes, documented size is {want_size}")
    if want_size is not None and len(img) != want_size:
        o.v("size", f"{kind}", f"{iid}: export has {len(img)} bytes, documented size is {want_size}")

    # -- image of the base configuration ------------------------------------------------------------------------
    if kind == "fuses":
        mdl["values"] = {}
        cmds = fuse_script_cmds(img.decode(), facts.get("tool", "blhost"))
        expc, _ = fuses_expected(mdl, facts, settings, b"")
        if cmds is None:
            o.v("image", f"{kind}:script-syntax", f"{iid}: fuse script has lines that are not '{facts.get('tool')}' write commands")
        else:
            if len(cmds) != len(expc):
                o.v("size", f"{kind}:command-count", f"{iid}: script has {len(cmds)} write commands, the configuration names {len(expc)} fuses")
            else:
                bad = [(i, c, e) for i, (c, e) in enumerate(zip(cmds, expc)) if c[0] != e[0] or (e[1] is not None and c[1] != e[1])]
                if bad:
                    amb = any(r.ambiguous_reset for r in model.regs)
                    o.v("image", f"{kind}:base" + (":ambiguous-reset" if amb else ""), f"{iid}: command #{bad[0][0]} is (index, value) {bad[0][1]}, description file says {bad[0][2]}")
    elif exp_img is not None:
        if img != exp_img:
            amb = model is not None and any(r.ambiguous_reset for r in model.regs)
            inv = model is not None and AR.check_inverse(model, img, demanded_inverse(st, settings))
            if inv:
                o.v("computed-field", f"{kind}:inverse:base", f"{iid}: {inv[0][1]}")
            else:
                o.v("image", f"{kind}:base" + (":ambiguous-reset" if amb else ""), f"{iid}: export of the template differs from the description file's reset image: " + _diff(st, exp_img, img))
    st["exp_base_ok"] = exp_img is None or img == exp_img

    # -- markers ---------------------------------------------------------------------------------------------------
    bad = {"fcb": AR.fcb_markers, "bca": AR.bca_markers, "xmcd": AR.xmcd_markers}.get(kind, lambda b: None)(img)
    if bad:
        o.v("marker", f"{kind}:base{spec_tag(facts)}", f"{iid}: {bad}")
    if kind == "xmcd":
        try:
            c = area.crc(obj)
            if c != AR.xmcd_crc(img):
                o.v("computed-field", "xmcd:crc", f"{iid}: XMCD CRC {c.hex()} but CRC-32/MPEG-2 of the block is {AR.xmcd_crc(img).hex()}")
        except Exception as e:  # noqa
            o.v("computed-field", f"xmcd:crc:raises:{_exc_kind(e)}", f"{iid}: crc raised {e}")
    if model is not None and kind != "fuses":
        for n in AR.other_calculated(model.regs):
            o.c("calculated_markers_without_rule")
        for r in model.regs:
            nm = [f.name for f in r.fields if f.name]
            if len(nm) != len(set(nm)):
                o.c("registers_with_duplicate_bitfield_names")

    # -- round trips ------------------------------------------------------------------------------------------------
    round_trips(st, o, obj, img, "base", "", fast=False, what="base")

    # -- PFR extras: seal and ROTKH -----------------------------------------------------------------------------------
    if kind.startswith("pfr.") or kind.startswith("ifr."):
        pfr_extras(st, o)


def _keys_for(rot_type: Optional[str], width: int):
    """-> list of variants (label, [spsdk PublicKey], expected hash bytes)."""
    from spsdk.crypto.keys import PublicKey
    from vf import fixtures as FX

    idx = FX.key_index()
    out = []
    if rot_type == "cert_block_1":
        for label, names in (("rsa2048x4", ["rsa2048_0", "rsa2048_1", "rsa2048_2", "rsa2048_3"]), ("rsa2048x1", ["rsa2048_0"]),
                             ("rsa4096x2", ["rsa4096_0", "rsa4096_1"])):
            keys = [PublicKey.load(FX.key_path(n, private=False)) for n in names]
            out.append((label, keys, AR.rkth_v1([(AR.num(idx[n]["n"]), AR.num(idx[n]["e"])) for n in names])))
    elif rot_type == "cert_block_21":
        variants = [("p256x4", ["p256_0", "p256_1", "p256_2", "p256_3"]), ("p256x1", ["p256_x0"])]
        if width >= 384:
            variants += [("p384x4", ["p384_0", "p384_1", "p384_2", "p384_3"]), ("p384x1", ["p384_y0"])]
        for label, names in variants:
            keys = [PublicKey.load(FX.key_path(n, private=False)) for n in names]
            out.append((label, keys, AR.rkth_v21([(idx[n]["bits"], AR.num(idx[n]["x"]), AR.num(idx[n]["y"])) for n in names])))
    return out


def pfr_extras(st: dict, o: Out) -> None:
    from spsdk.exceptions import SPSDKError

    inst = st["inst"]
    kind = inst["kind"]
    area = A.AREAS[kind]
    iid = A.inst_id(inst)
    facts, mdl, cfg, img = st["facts"], st["mdl"], st["cfg"], st["img"]
    model: AR.AreaModel = mdl["model"]
    # seal
    seal_off = None
    if facts.get("seal_start"):
        r = model.by_uid.get(facts["seal_start"])
        seal_off = r.offset if r is not None else None
        if r is None:
            o.v("computed-field", f"{kind}:seal:start-register-unknown", f"{iid}: seal_start {facts['seal_start']} is not in the description file")
    try:
        obj = area.load(inst, copy.deepcopy(cfg))
        sealed = area.export(obj, add_seal=True)
        bad = AR.check_seal(sealed, img, seal_off, facts.get("seal_count"))
        if bad:
            o.v("computed-field", f"{kind}:seal", f"{iid}: {bad}")
        if len(sealed) != len(img):
            o.v("size", f"{kind}:sealed", f"{iid}: sealed export has {len(sealed)} bytes")
        o.c("seal_checked")
        # the sealed binary goes through the parser as well
        p = area.parse(inst, sealed)
        again = area.export(p, add_seal=True)
        if again != sealed:
            o.v("binary-roundtrip", f"{kind}:sealed", f"{iid}: parse(sealed).export(add_seal) differs: " + _diff(st, sealed, again))
    except Exception as e:  # noqa
        o.v("export", f"{kind}:seal:{_exc_kind(e)}", f"{iid}: export(add_seal=True) raised {type(e).__name__}: {str(e)[:300]}")
    # ROTKH
    grp = groups_of(facts)
    g = grp.get("ROTKH")
    if g is None:
        return
    width = group_width(g, model)
    gb = sorted(group_bytes(g, model))
    lo, hi = gb[0], gb[-1] + 1
    for label, keys, want in _keys_for(facts.get("rot_type"), width):
        for how in ("keys", "rotkh"):
            try:
                obj = area.load(inst, copy.deepcopy(cfg))
                b = area.export(obj, keys=keys) if how == "keys" else area.export(obj, rotkh=want)
            except SPSDKError as e:
                if len(want) * 8 > width:
                    o.c("rotkh_rejected_too_wide")
                    continue
                o.v("computed-field", f"{kind}:rotkh:{how}:rejected", f"{iid} {label}: export({how}) rejected: {str(e)[:300]}")
                continue
            except Exception as e:  # noqa
                o.v("computed-field", f"{kind}:rotkh:{how}:raises:{type(e).__name__}", f"{iid} {label}: export({how}) raised {type(e).__name__}: {str(e)[:300]}")
                continue
            o.c("rotkh_checked")
            wantb = want.ljust(hi - lo, b"\0")
            alt = ":alt-width" if g.get("alternative_widths") else ""
            if b[lo:hi] != wantb:
                o.v("computed-field", f"{kind}:rotkh:{how}{alt}", f"{iid} {label}: ROTKH bytes {b[lo:hi].hex()} but the key table hash is {wantb.hex()}")
            if b[:lo] != img[:lo] or b[hi:] != img[hi:]:
                o.v("image", f"{kind}:rotkh-export-touches-other-registers", f"{iid} {label}: " + _diff(st, img[:lo] + b[lo:hi] + img[hi:], b))
            # round trips of the binary with a key hash in it
            try:
                p = area.parse(inst, b)
                b2 = area.export(p)
                if b2 != b:
                    o.v("binary-roundtrip", f"{kind}:rotkh{alt}", f"{iid} {label}: " + _diff(st, b, b2))
                b3 = area.export(area.load(inst, copy.deepcopy(area.config(p))))
                if b3 != b:
                    o.v("config-roundtrip", f"{kind}:rotkh{alt}", f"{iid} {label}: " + _diff(st, b, b3))
            except Exception as e:  # noqa
                o.v("binary-roundtrip", f"{kind}:rotkh:raises:{_exc_kind(e)}", f"{iid} {label}: {type(e).__name__}: {str(e)[:300]}")


# ---------------------------------------------------------------------------------------------
# departures


def _hexstr(v: int, width: int, plain: bool) -> str:
    s = f"{v:0{width // 4}X}"
    return s if plain else "0x" + s


def _seeded(seed: int, regname: str, width: int) -> int:
    """One more whole-register value whose *content* comes from VERIF_SEED (what is enumerated stays the same)."""
    return int.from_bytes(core.seeded_bytes(seed, "c12|" + regname, (width + 7) // 8), "big") & ((1 << width) - 1)


def targets_of(st: dict, regname: str, tier: str, seed: int = 0) -> list[dict]:
    """Departure list for one register of the template: bit-field values, whole-register values."""
    kind = st["inst"]["kind"]
    area = A.AREAS[kind]
    settings = st["cfg"][area.settings_key]
    tv = settings[regname]
    mdl = st["mdl"]
    out: list[dict] = []
    thin = tier == "quick"  # quick: {0, 1, max, 0x55..}; of more than four enum names the first two and the last two
    # quick, areas whose load re-validates / deep-copies everything (fuses 20 ms, XMCD 0.1-1 s per evaluation):
    # bit-fields {1, max} and the first and last enum name; whole-register values as above
    xthin = thin and kind in ("fuses", "xmcd")
    if kind == "tz":
        for v in AR.alphabet(32, thin) + [_seeded(seed, regname, 32)]:
            out.append({"form": "reg", "value": _hexstr(v, 32, False), "raw": v, "width": 32})
        for v in AR.zero_byte_patterns(32):
            out.append({"form": "reg", "value": _hexstr(v, 32, False), "raw": v, "width": 32, "zero_byte": True})
        out.append({"form": "reg", "value": "0x100000000", "raw": 0, "width": 32, "oor": True})
        return out
    model: AR.AreaModel = mdl["model"]
    grp = groups_of(st["facts"])
    if regname in grp:
        g = grp[regname]
        w = group_width(g, model)
        plain = bool(g.get("config_as_hexstring"))
        vals = AR.alphabet(w, thin)
        for alt in g.get("alternative_widths") or []:
            vals += [v for v in AR.alphabet(AR.num(alt), thin) if v not in vals]
        vals.append(_seeded(seed, regname, w))
        for v in vals:
            out.append({"form": "group", "value": _hexstr(v, w, plain), "raw": v, "width": w})
        # values with a zero last / first byte (both tiers, always with the round trips), at the full and at every
        # alternative width; the shorter ones are written with the number of digits of their width
        for ww in [w] + [AR.num(a) for a in g.get("alternative_widths") or []]:
            for v in AR.zero_byte_patterns(ww):
                out.append({"form": "group", "value": _hexstr(v, ww, plain), "raw": v, "width": w, "zero_byte": True})
        out.append({"form": "group", "value": ("" if plain else "0x") + "1" + "0" * (w // 4), "raw": 0, "width": w, "oor": True})
        return out
    r = model.reg(regname)
    if r is None:
        return out
    if isinstance(tv, dict):
        for fname in tv:
            f = r.field(fname)
            if f is None:
                continue
            for v in AR.alphabet(f.width, thin):
                if xthin and v not in (1, (1 << f.width) - 1):
                    continue
                out.append({"form": "field", "field": fname, "value": v << f.shift, "raw": v})
            if f.shift:
                # a bit-field with a configuration pre-processor is written in the configuration domain (width + shift
                # bits, "use full 32b address"): its top bit and its largest value, both tiers
                for v in (1 << (f.width - 1), (1 << f.width) - 1):
                    if not any(x.get("field") == fname and x["raw"] == v for x in out):
                        out.append({"form": "field", "field": fname, "value": v << f.shift, "raw": v})
            if f.shift or not thin:
                # ... and the first value outside: the area must refuse it (quick: pre-processed fields only)
                out.append({"form": "field", "field": fname, "value": 1 << (f.width + f.shift), "raw": 0, "oor": True})
            enames = [en for en in f.enums if en not in f.dup_enum_names]
            if xthin and len(enames) > 2:
                enames = enames[:1] + enames[-1:]
            elif thin and len(enames) > 4:
                enames = enames[:2] + enames[-2:]
            for en, ev in f.enums.items():
                if en not in enames:
                    continue
                if en in f.dup_enum_names:
                    continue  # the description file gives this name to several values
                if 0 <= (ev >> f.shift) < (1 << f.width):
                    out.append({"form": "field", "field": fname, "value": en, "raw": ev >> f.shift, "enum": True})
        # computed (hidden) fields given explicitly: the user's word
        for rr, f in AR.inverse_rules([r]):
            if f.name not in tv:
                for v in (0, (1 << f.width) - 1, 0x5555 & ((1 << f.width) - 1)):
                    out.append({"form": "field", "field": f.name, "value": v, "raw": v, "explicit_computed": True})
            else:
                # the description file calls the field calculated, the template shows it: leave it out
                src = next((x for x in r.fields if x.name and x.off == f.off - f.width), None) or next((x for x in r.fields if x.name and x.off < f.off), None)
                if src is not None:
                    for v in (1, (1 << src.width) - 1):
                        out.append({"form": "field", "field": src.name, "value": v << src.shift, "raw": v, "omit": f.name})
    # bits of a register with bit-fields that no bit-field entry (named or gap) declares cannot be written down in
    # the bit-field form get_config() produces: whole-register values stay inside the declared bits (as in C11)
    # ... and outside bit-fields that share their name with another field of the register ("reserved", "Restricted"):
    # a configuration cannot address those one by one
    covered = (1 << r.width) - 1
    if r.fields:
        covered = 0
        names = [f.name for f in r.fields if f.name]
        for f in r.fields:
            if f.name is None or names.count(f.name) == 1:
                covered |= f.mask
        covered &= (1 << r.width) - 1
    seen_v: set[int] = set()
    for v in AR.alphabet(r.width, thin) + [_seeded(seed, regname, r.width)]:
        if xthin and v in (1, AR.alphabet(r.width, thin)[-1]) and r.width > 1:
            continue  # fuses / XMCD, quick: whole-register values {0, max, seeded}
        v &= covered
        if v in seen_v:
            continue
        seen_v.add(v)
        out.append({"form": "reg", "value": _hexstr(v, r.width, False), "raw": v, "width": r.width})
    out.append({"form": "reg", "value": "0x1" + "0" * ((r.width + 3) // 4), "raw": 0, "width": r.width, "oor": True})
    for v in AR.zero_byte_patterns(r.width):
        v &= covered
        if v not in seen_v:
            seen_v.add(v)
            out.append({"form": "reg", "value": _hexstr(v, r.width, False), "raw": v, "width": r.width, "zero_byte": True})
    return out


def pair_targets(st: dict, regname: str) -> list[dict]:
    """Neighbouring bit-fields of one register, both moved away from the base value."""
    kind = st["inst"]["kind"]
    if kind == "tz":
        return []
    area = A.AREAS[kind]
    tv = st["cfg"][area.settings_key][regname]
    model: AR.AreaModel = st["mdl"]["model"]
    r = model.reg(regname)
    if r is None or not isinstance(tv, dict):
        return []
    fs = sorted([f for f in (r.field(n) for n in tv) if f is not None], key=lambda f: f.off)
    out = []
    pairs = list(zip(fs, fs[1:]))
    if len(fs) > 2:
        pairs.append((fs[0], fs[-1]))
    for a, b in pairs:
        ma, mb = (1 << a.width) - 1, (1 << b.width) - 1
        for va, vb in ((ma, mb), (ma, 0), (0, mb), (AR.alphabet(a.width)[-1], AR.alphabet(b.width)[-2] if b.width > 1 else 1)):
            out.append({"form": "pair", "field": a.name, "value": va << a.shift, "raw": va,
                        "field2": b.name, "value2": vb << b.shift, "raw2": vb})
    return out


def _as_int(v: Any) -> Optional[int]:
    if isinstance(v, bool):
        return int(v)
    if isinstance(v, int):
        return v
    try:
        return AR.num(v)
    except (ValueError, TypeError):
        return None


def make_cfg(st: dict, regname: str, t: dict, quick: bool = False) -> dict:
    kind = st["inst"]["kind"]
    area = A.AREAS[kind]
    base = st["cfg"]
    cfg = dict(base)
    pfr = kind.startswith("pfr.") or kind.startswith("ifr.")
    full = (pfr and not quick) or kind in ("xmcd", "memcfg", "tz", "bca", "fcf")
    # PFR (thorough): the whole template with one entry changed (computed fields are then demanded for every register);
    # PFR (quick): the register under test plus every register with a computed field, in bit-field form;
    # the big areas (FCB, fuses): only the register under test - everything else stays at its reset value either way
    settings = dict(base[area.settings_key]) if full else {}
    if pfr and quick:
        model: AR.AreaModel = st["mdl"]["model"]
        for r, _f in AR.inverse_rules(model.regs):
            if r.name in base[area.settings_key]:
                settings[r.name] = base[area.settings_key][r.name]
    if t["form"] in ("reg", "group"):
        settings[regname] = t["value"]
    else:
        d = dict(base[area.settings_key][regname])
        d[t["field"]] = t["value"]
        if t["form"] == "pair":
            d[t["field2"]] = t["value2"]
        if t.get("omit"):
            d.pop(t["omit"], None)
        settings[regname] = d
    cfg[area.settings_key] = settings
    return cfg


def expected_dep_image(st: dict, regname: str, t: dict, settings: dict) -> tuple[Optional[bytes], Optional[set]]:
    """-> (expected artefact | None, byte positions not modelled)."""
    kind = st["inst"]["kind"]
    mdl = st["mdl"]
    if kind == "tz":
        words = [v for _, v in mdl["flat"]]
        names = [n for n, _ in mdl["flat"]]
        if regname not in names:
            return None, None
        words[names.index(regname)] = t["raw"]
        return b"".join(w.to_bytes(4, "little") for w in words), set()
    model: AR.AreaModel = mdl["model"]
    full = full_reset(st)
    if t["form"] == "group":
        g = groups_of(st["facts"])[regname]
        return finish_image(st, full, settings), group_bytes(g, model)
    r = model.reg(regname)
    if r is None:
        return None, None
    if t["form"] == "reg":
        full = model.with_reg(full, r, t["raw"])
    else:
        full = model.with_field(full, r, r.field(t["field"]), t["raw"])
        if t["form"] == "pair":
            full = model.with_field(full, r, r.field(t["field2"]), t["raw2"])
    return finish_image(st, full, settings), set()


def area_validator(st: dict):
    """The validator the area's own validation entry point compiles for this instance (taken from the real call:
    area.validate -> check_config -> fastjsonschema.compile), so that thousands of values cost a millisecond each."""
    if "validator" not in st:
        st["validator"] = None
        try:
            _LAST_VALIDATOR[0] = None
            A.AREAS[st["inst"]["kind"]].validate(st["inst"], copy.deepcopy(st["cfg"]))
            st["validator"] = _LAST_VALIDATOR[0]
        except Exception:  # noqa  (a template that fails its own schema is a base finding)
            pass
    return st["validator"]


def schema_refuses(st: dict, cfg: dict) -> Optional[str]:
    """-> "" accepted, text = refused, None = no validator."""
    import fastjsonschema

    v = area_validator(st)
    if v is None:
        return None
    try:
        v(copy.deepcopy(cfg))
        return ""
    except fastjsonschema.JsonSchemaValueException as e:
        return str(e.message) or "refused"


def schema_forms(st: dict, regname: str, t: dict, cfg: dict) -> list:
    """The configuration as given and with the value written the other way (integer <-> the hex string get_config /
    the template writes)."""
    area = A.AREAS[st["inst"]["kind"]]
    val = t["value"]
    if t["form"] == "pair" or t.get("enum"):
        return [("given", cfg)]
    if isinstance(val, int):
        other: Any = f"0x{val:X}"
        labels = ("integer", "hex-string")
    else:
        try:
            other = int(val, 16)
        except ValueError:
            return [("given", cfg)]
        labels = ("hex-string", "integer")
    c2 = dict(cfg)
    s2 = dict(cfg[area.settings_key])
    if t["form"] == "field":
        d = dict(s2[regname])
        d[t["field"]] = other
        s2[regname] = d
    else:
        s2[regname] = other
    c2[area.settings_key] = s2
    return [(labels[0], cfg), (labels[1], c2)]


def dep_case(case: dict) -> dict:
    from spsdk.exceptions import SPSDKError

    o = Out()
    inst = {k: case[k] for k in ("kind", "family", "rev", "sub")}
    kind = inst["kind"]
    area = A.AREAS[kind]
    iid = A.inst_id(inst)
    st = base_state(inst)
    if st is None or not st.get("ok"):
        o.c("dep_skipped_no_base")
        return o.result()
    st["masked"] = set(case.get("base_fail", ()))
    regname = case["reg"]
    tier = case.get("tier", "quick")
    rt_all = bool(case.get("rt_all"))
    ts = case.get("only") or (targets_of(st, regname, tier, int(case.get("seed", 0))) + (pair_targets(st, regname) if case.get("pairs") else []))
    per_field_rt: dict[str, int] = {}
    loaded_real: set[str] = set()
    mdl0 = st["mdl"].get("model")
    r0 = mdl0.reg(regname) if mdl0 is not None else None
    dup_names = bool(r0 is not None and any(f.dup_enum_names for f in r0.fields))
    g0 = groups_of(st["facts"]).get(regname)
    # a group with members the description file lacks is reported at base (spec-loaded): its value cannot come back
    group_incomplete = bool(g0 is not None and mdl0 is not None and any(u not in mdl0.by_uid for u in g0["sub_regs"]))
    if case.get("slice"):
        k, n = case["slice"]
        ts = ts[(len(ts) * k) // n:(len(ts) * (k + 1)) // n]
    tv0 = st["cfg"][area.settings_key].get(regname)
    for t in ts:
        if t["form"] == "field" and isinstance(tv0, dict) and not t.get("omit") and t["field"] in tv0:
            b0 = tv0[t["field"]]
            same = (b0 == t["value"]) if isinstance(t["value"], str) else (_as_int(b0) == t["value"])
            if same:
                o.c("values_equal_to_template_skipped")  # that is the base configuration again
                continue
        what = f"{regname}" + (f".{t['field']}" if "field" in t else "") + f"={t['value']}" + (f",{t['field2']}={t['value2']}" if t["form"] == "pair" else "") + (f" (without {t['omit']})" if t.get("omit") else "")
        form = t["form"] + (":enum" if t.get("enum") else "") + (":computed-given" if t.get("explicit_computed") else "") + (":calculated-omitted" if t.get("omit") else "")
        rt_disc = f":{form}"
        if dup_names:
            rt_disc = ":duplicate-enum-name" + spec_tag(st["facts"])  # get_config() writes a name that load() resolves to another value
        cfg = make_cfg(st, regname, t, quick=not rt_all)
        settings = cfg[area.settings_key]
        o.c("evaluations_dep")
        o.c(f"dep:{kind}")
        fkey = t.get("field", "") + "|" + t["form"]
        if t.get("oor"):
            # the first value that does not fit: load (or, at the latest, export) has to refuse it
            try:
                ob = fuses_fast_load(cfg) if (kind == "fuses" and not rt_all) else area.load(inst, copy.deepcopy(cfg))
            except SPSDKError:
                o.c("out_of_range_rejected")
                continue
            except Exception as e:  # noqa
                o.c(f"out_of_range_rejected_by:{type(e).__name__}")
                continue
            try:
                area.export(ob)
            except Exception as e:  # noqa
                o.c(f"out_of_range_rejected_at_export_by:{type(e).__name__}")
                continue
            o.v("out-of-range-accepted", f"{kind}:{form}", f"{iid} {what}: a value of {('%d' % (t['width'] + 1)) if 'width' in t else 'width+1'} bits is loaded and exported")
            continue
        try:
            if kind == "fuses" and not rt_all:
                obj = fuses_fast_load(cfg)  # quick: Fuses.load_from_config itself runs at base for every instance
            else:
                obj = area.load(inst, copy.deepcopy(cfg) if kind == "xmcd" else cfg)
                loaded_real.add(fkey)
            if kind == "tz":
                obj._c12_rev = inst["rev"]
        except SPSDKError as e:
            o.c("rejected")
            o.c(f"rejected:{kind}:{form}")
            if kind != "xmcd":
                # an in-range value of a register / bit-field, given the way the template gives it
                o.v("in-range-rejected", f"{kind}:{form}", f"{iid} {what}: rejected: {str(e)[:300]}")
            continue
        except Exception as e:  # noqa
            o.c(f"undocumented-exception:{kind}:{type(e).__name__}")
            o.extra.setdefault("observations", []).append(f"{iid} {what}: load raised {type(e).__name__}: {str(e)[:200]}")
            continue
        try:
            img = area.export(obj)
        except SPSDKError as e:
            o.v("export", f"{kind}:{form}:spsdk", f"{iid} {what}: accepted by load, export raised: {str(e)[:300]}")
            continue
        except Exception as e:  # noqa
            o.v("export", f"{kind}:{form}:{type(e).__name__}", f"{iid} {what}: export raised {type(e).__name__}: {str(e)[:300]}")
            continue
        o.distinct.append(hashlib.sha1(img).hexdigest()[:12])
        # ---- expected artefact -----------------------------------------------------------------------------------
        if kind == "fuses":
            fuses_dep_clauses(st, o, regname, t, settings, img, what, form)
        else:
            exp, unmodelled = expected_dep_image(st, regname, t, settings)
            mdl_ = st["mdl"].get("model")
            if mdl_ is not None and regname in mdl_.overlapping:
                exp = None  # the description file puts two registers on the same bytes (reported at base)
            if exp is not None and not ({"C12.image", "C12.size"} & st.get("masked", set())):
                if len(img) != len(exp):
                    o.v("size", f"{kind}:{form}", f"{iid} {what}: export has {len(img)} bytes, expected {len(exp)}")
                else:
                    a = bytearray(img)
                    b = bytearray(exp)
                    for i in unmodelled or ():
                        if i < len(a):
                            a[i] = b[i] = 0
                    if a != b:
                        model = st["mdl"].get("model")
                        inv = model is not None and (kind.startswith("pfr.") or kind.startswith("ifr.")) and AR.check_inverse(model, img, demanded_inverse(st, settings))
                        if inv:
                            why = (":db-lacks-computed_fields" + spec_tag(st["facts"])) if t.get("omit") else ""
                            o.v("computed-field", f"{kind}:inverse{why}", f"{iid} {what}: {inv[0][1]}")
                        else:
                            o.v("image", f"{kind}:{form}", f"{iid} {what}: " + _diff(st, bytes(b), bytes(a)))
            elif exp is None:
                o.c("image_not_modelled")
            if kind == "xmcd" and AR.xmcd_markers(img) is None:
                try:
                    if area.crc(obj) != AR.xmcd_crc(img):
                        o.v("computed-field", "xmcd:crc", f"{iid} {what}: crc {area.crc(obj).hex()} vs {AR.xmcd_crc(img).hex()}")
                except Exception as e:  # noqa
                    o.v("computed-field", f"xmcd:crc:raises:{_exc_kind(e)}", f"{iid} {what}: {e}")
        # ---- the area's own schema must not refuse what the area loads and exports ----------------------------------
        # quick: the values where a range or a type in the schema can bite: all ones, the top bit, the zero-byte patterns
        _w = t.get("width") or (r0.field(t["field"]).width if (r0 is not None and t.get("field") and r0.field(t["field"])) else 0)
        schema_now = rt_all or t.get("zero_byte") or t.get("enum") and per_field_rt.get("enum|" + fkey, 0) < 1 or \
            (_w and t["form"] in ("field", "reg", "group") and t["raw"] in ((1 << _w) - 1, 1 << (_w - 1)))
        if t.get("enum"):
            per_field_rt["enum|" + fkey] = 1
        if not t.get("omit") and schema_now:
            for label, c2 in schema_forms(st, regname, t, cfg):
                bad = schema_refuses(st, c2)
                if bad:
                    o.v("schema-refuses-loadable-value", f"{kind}:{t['form']}:{label}", f"{iid} {what} written as {label}: loaded and exported, but the area's schema says: {bad[:300]}")
                elif bad is not None:
                    o.c("schema_validations")
        # ---- round trips --------------------------------------------------------------------------------------------
        fkey = t.get("field", "") + "|" + t["form"]
        n = per_field_rt.get(fkey, 0)
        # quick: the two round trips run for the first non-zero value of every bit-field and for the whole-register values
        # 0 and max; pairs, groups, computed-field cases always
        if rt_all or t["form"] in ("pair", "group") or t.get("omit") or t.get("explicit_computed") or t.get("zero_byte") or \
                (t["form"] == "field" and n < 1 and t["raw"] != 0) or \
                (t["form"] == "reg" and (t["raw"] == 0 or n < 2 and t["raw"] not in (0, 1))):
            per_field_rt[fkey] = n + 1
            o.c("roundtrips_dep")
            round_trips(st, o, obj, img, "dep", rt_disc, fast=True, what=what, only_reg=None if rt_all else regname,
                        given=(regname, t) if t["form"] in ("reg", "group") and not group_incomplete else None)
    return o.result()


def fuses_fast_load(cfg: dict):
    """Fuses.load_from_config minus the two schema validations of the whole fuse map (25 ms each): what load_config
    does after check_config.  Quick tier only (the real entry point runs at base for every instance and, in the thorough
    tier, for every value)."""
    from spsdk.fuses.fuses import Fuses

    f = Fuses(cfg["family"], cfg.get("revision", "latest"))
    f.fuse_regs.load_yml_config(cfg["registers"])
    f.fuse_context = [f.fuse_regs.find_reg(n, include_group_regs=True) for n in cfg["registers"]]
    return f


def fuses_dep_clauses(st: dict, o: Out, regname: str, t: dict, settings: dict, img: bytes, what: str, form: str) -> None:
    inst = st["inst"]
    iid = A.inst_id(inst)
    mdl, facts = st["mdl"], st["facts"]
    model: AR.AreaModel = mdl["model"]
    cmds = fuse_script_cmds(img.decode(), facts.get("tool", "blhost"))
    if cmds is None:
        o.v("image", "fuses:script-syntax", f"{iid} {what}: script has lines that are not write commands")
        return
    mdl["values"] = {}
    r = model.reg(regname)
    if r is not None and t["form"] != "group":
        v = r.reset
        if t["form"] == "reg":
            v = t["raw"]
        else:
            f = r.field(t["field"])
            v = (v & ~f.mask) | (t["raw"] << f.off)
            if t["form"] == "pair":
                f2 = r.field(t["field2"])
                v = (v & ~f2.mask) | (t["raw2"] << f2.off)
        mdl["values"][r.uid] = v
    expc, _ = fuses_expected(mdl, facts, settings, b"")
    mdl["values"] = {}
    if len(cmds) != len(expc):
        o.v("size", f"fuses:command-count:{form}", f"{iid} {what}: {len(cmds)} write commands for {len(expc)} fuses")
        return
    bad = [(c, e) for c, e in zip(cmds, expc) if c[0] != e[0] or (e[1] is not None and c[1] != e[1])]
    if bad and not ({"C12.image", "C12.size"} & st.get("masked", set())):
        o.v("image", f"fuses:{form}", f"{iid} {what}: command (index, value) {bad[0][0]}, expected {bad[0][1]}")


# ---------------------------------------------------------------------------------------------
# object histories: what one object exports must not depend on the objects built before it in the process


def _flip(raw: int) -> int:
    return raw ^ 1  # a value that differs from the default in every field and is in range for every width


def hist_configs(st: dict) -> tuple[Optional[dict], Optional[dict], Optional[tuple]]:
    """-> (partial configuration: one register / its first bit-field at a non-default value,
           full configuration: every register of the template at a non-default value,
           (register, target) of the partial one for the image model)."""
    kind = st["inst"]["kind"]
    area = A.AREAS[kind]
    base = st["cfg"]
    tset = base[area.settings_key]
    mdl = st["mdl"]
    model: Optional[AR.AreaModel] = mdl.get("model")
    grp = groups_of(st["facts"])
    flat = dict(mdl.get("flat") or [])
    full_set: dict[str, Any] = {}
    partial: Optional[tuple] = None
    for name, tv in tset.items():
        if kind == "xmcd" and name == "header":
            full_set[name] = tv  # interface / block type / size are selectors, not values
            continue
        if kind == "tz":
            if name not in flat:
                full_set[name] = tv
                continue
            v = _flip(flat[name])
            full_set[name] = _hexstr(v, 32, False)
            if partial is None:
                partial = (name, {"form": "reg", "value": _hexstr(v, 32, False), "raw": v, "width": 32})
            continue
        if name in grp:
            w = group_width(grp[name], model)
            v = AR.alphabet(w)[4]
            full_set[name] = _hexstr(v, w, bool(grp[name].get("config_as_hexstring")))
            continue
        r = model.reg(name) if model is not None else None
        if r is None:
            full_set[name] = tv
            continue
        if isinstance(tv, dict):
            d = dict(tv)
            for fname in tv:
                f = r.field(fname)
                if f is None or f.calculated is not None:
                    continue
                raw = _flip((r.reset >> f.off) & ((1 << f.width) - 1))
                d[fname] = raw << f.shift
                if partial is None:
                    partial = (name, {"form": "field", "field": fname, "value": raw << f.shift, "raw": raw})
            full_set[name] = d
        else:
            v = _flip(r.reset) & ((1 << r.width) - 1)
            full_set[name] = _hexstr(v, r.width, False)
            if partial is None:
                partial = (name, {"form": "reg", "value": _hexstr(v, r.width, False), "raw": v, "width": r.width})
    if partial is None:
        return None, None, None
    pname, pt = partial
    pset: dict[str, Any] = {}
    if kind == "xmcd" and "header" in tset:
        pset["header"] = tset["header"]  # XMCD.load_from_config takes the header out of the settings unconditionally
    pset[pname] = pt["value"] if pt["form"] == "reg" else {pt["field"]: pt["value"]}
    return dict(base, **{area.settings_key: pset}), dict(base, **{area.settings_key: full_set}), partial


def _dict_change(before: Any, after: Any, path: str = "") -> str:
    if isinstance(before, dict) and isinstance(after, dict):
        for k in before:
            if k not in after:
                return f"{path}/{k} is gone"
            d = _dict_change(before[k], after[k], f"{path}/{k}")
            if d:
                return d
        extra = [k for k in after if k not in before]
        return f"{path}/{extra[0]} was added" if extra else ""
    return "" if before == after else f"{path}: {before!r} became {after!r}"[:200]


def config_object_clauses(st: dict, o: Out) -> None:
    """The configuration dictionary belongs to the caller: (a) the same dict object loads twice, to the same bytes, and is
    unchanged afterwards; (b) a configuration without a key that the area's own schema lets go must load or be refused
    with SPSDKError - no other exception type."""
    from spsdk.exceptions import SPSDKError

    inst = st["inst"]
    kind = inst["kind"]
    area = A.AREAS[kind]
    iid = A.inst_id(inst)
    # (a)
    cfg = copy.deepcopy(st["cfg"])
    snap = copy.deepcopy(cfg)
    try:
        e1 = area.export(area.load_raw(inst, cfg))
    except Exception as e:  # noqa
        o.c("hist_template_copy_not_loadable")
        e1 = None
    if e1 is not None:
        o.c("hist_same_dict_twice")
        if cfg != snap:
            o.v("object-history", f"{kind}:config-consumed-by-load", f"{iid}: load changed the caller's configuration dictionary: " + _dict_change(snap, cfg))
        try:
            e2 = area.export(area.load_raw(inst, cfg))
            if e2 != e1:
                o.v("object-history", f"{kind}:same-config-loaded-twice-differs", f"{iid}: the same dictionary object exports differently the second time: " + _diff(st, e1, e2))
        except Exception as e:  # noqa
            o.v("object-history", f"{kind}:config-consumed-by-load", f"{iid}: loading the same dictionary object a second time raised {type(e).__name__}: {str(e)[:200]}")
    # (b)
    if area_validator(st) is None:
        o.c("hist_optional_keys_skipped_no_validator")
        return
    base = st["cfg"]
    sk = area.settings_key
    variants: list = [((k,), {kk: vv for kk, vv in base.items() if kk != k}) for k in base]
    sett = base.get(sk)
    if isinstance(sett, dict):
        names = list(sett)
        pick = names if len(names) <= 12 else names[:1] + names[-1:] + [n for n in names if n == "header"]
        for n in dict.fromkeys(pick):
            variants.append(((sk, n), dict(base, **{sk: {kk: vv for kk, vv in sett.items() if kk != n}})))
        variants.append(((sk, "*"), dict(base, **{sk: {}})))
    for path, c in variants:
        if schema_refuses(st, c) != "":
            o.c("hist_key_required_by_schema")
            continue
        o.c("hist_optional_key_omitted")
        keylabel = path[0] if len(path) == 1 else (f"{sk}.{path[1]}" if path[1] in ("header", "*") else f"{sk}.<register>")
        obj = None
        try:
            obj = area.load_raw(inst, copy.deepcopy(c))
        except SPSDKError:
            o.c("hist_optional_key_omitted_rejected")
        except Exception as e:  # noqa
            o.v("object-history", f"{kind.split('.')[0]}:optional-key-omitted:{keylabel}:{type(e).__name__}",
                f"{iid}: the area's schema accepts the configuration without {'.'.join(path)}, loading it raises {type(e).__name__}: {str(e)[:200]}")
        # what was accepted has to export to a binary the area's own parser (and verifier) takes and reproduces; for the
        # XMCD header (sizes and selectors the builder has to work out itself when it is left out) also with every bit-field
        # of the first register of the block at each of its values
        # (only for keys inside the settings: leaving out family / revision / type selects another instance, which the
        # parser of THIS instance need not take)
        todo = [("", c, obj)] if (obj is not None and path[0] == sk) else []
        if obj is not None and kind == "xmcd" and path == (sk, "header") and isinstance(c.get(sk), dict):
            mdl: Optional[AR.AreaModel] = st["mdl"].get("model")
            regs = [n for n in c[sk] if isinstance(c[sk][n], dict)]
            r = mdl.reg(regs[0]) if (mdl is not None and regs) else None
            if r is not None:
                for fname in c[sk][regs[0]]:
                    f = r.field(fname)
                    if f is None or f.calculated is not None:
                        continue
                    for v in AR.alphabet(f.width, True):
                        c2 = copy.deepcopy(c)
                        c2[sk][regs[0]][fname] = v << f.shift
                        todo.append((f"+{regs[0]}.{fname}={v}", c2, None))
        for label, cc, ob in todo:
            try:
                ob = ob if ob is not None else area.load_raw(inst, copy.deepcopy(cc))
                data = area.export(ob)
            except SPSDKError:
                o.c("hist_optional_key_omitted_rejected")
                continue
            except Exception as e:  # noqa
                o.v("object-history", f"{kind.split('.')[0]}:optional-key-omitted:{keylabel}:export-{type(e).__name__}",
                    f"{iid}{label}: without {'.'.join(path)}: {type(e).__name__}: {str(e)[:200]}")
                continue
            o.c("hist_optional_key_omitted_exported")
            try:
                back = area.parse(inst, data)
                bad = area.verify(back)
                again = area.export(back)
            except NotImplementedError:
                o.c("hist_optional_key_omitted_area_has_no_parser")
                continue
            except Exception as e:  # noqa
                o.v("object-history", f"{kind.split('.')[0]}:optional-key-omitted:{keylabel}:own-parser-refuses",
                    f"{iid}{label}: the binary exported from the configuration without {'.'.join(path)} ({len(data)} bytes) is refused by the area's parser: {type(e).__name__}: {str(e)[:160]}")
                continue
            if bad:
                o.v("object-history", f"{kind.split('.')[0]}:optional-key-omitted:{keylabel}:own-verifier-refuses",
                    f"{iid}{label}: the binary exported from the configuration without {'.'.join(path)} ({len(data)} bytes): {str(bad)[-300:]}")
            elif again != data:
                o.v("object-history", f"{kind.split('.')[0]}:optional-key-omitted:{keylabel}:parse-export-differs",
                    f"{iid}{label}: parse + export of the binary built without {'.'.join(path)} gives {len(again)} bytes / other content ({len(data)} exported)")


def hist_case(case: dict) -> dict:
    """(a) P0 = load(partial), b0 = export; (b) load + export a configuration with every register changed;
    (c) P1 = load(partial) again: export == b0; (d) P0 exported again == b0; (e) a fresh template object / template text
    after (b) equal the ones before."""
    from spsdk.exceptions import SPSDKError

    o = Out()
    inst = {k: case[k] for k in ("kind", "family", "rev", "sub")}
    kind = inst["kind"]
    area = A.AREAS[kind]
    iid = A.inst_id(inst)
    st = base_state(inst)
    if st is None or not st.get("ok"):
        o.c("hist_skipped_no_base")
        return o.result()
    pcfg, fcfg, partial = hist_configs(st)
    if pcfg is None:
        o.c("hist_skipped_no_target")
        return o.result()
    masked = set(case.get("base_fail", ()))

    def load(cfg: dict):
        ob = area.load(inst, copy.deepcopy(cfg))
        if kind == "tz":
            ob._c12_rev = inst["rev"]
        return ob

    def cfg_of(ob) -> str:
        if kind == "xmcd":
            return ""  # its configuration is a function of the registers it exports; every look costs a deep copy (0.3 s)
        return core.jdump(fast_config(area, kind, ob))

    def same(a: bytes, b: bytes) -> bool:
        return a == b

    try:
        fresh0 = load(st["cfg"])
        e0, g0 = area.export(fresh0), cfg_of(fresh0)
        p0 = load(pcfg)
        b0 = area.export(p0)
    except SPSDKError as e:
        o.c("hist_partial_rejected")
        o.extra.setdefault("observations", []).append(f"{iid}: partial configuration rejected: {str(e)[:200]}")
        return o.result()
    except Exception as e:  # noqa
        o.v("object-history", f"{kind}:partial-config-raises:{type(e).__name__}", f"{iid}: partial configuration {core.jdump(pcfg[area.settings_key])[:200]} raised {type(e).__name__}: {str(e)[:300]}")
        return o.result()
    o.c("histories")
    o.distinct.append("hist:" + hashlib.sha1(b0).hexdigest()[:12])
    # the partial configuration against the model: everything it does not name is at its reset value (this process may
    # have built other objects of the family before)
    if kind != "fuses" and not ({"C12.image", "C12.size"} & masked):
        exp, unmod = expected_dep_image(st, partial[0], partial[1], pcfg[area.settings_key])
        if exp is not None and not unmod and exp != b0:
            o.v("object-history", f"{kind}:partial-config-image", f"{iid}: a configuration naming only {partial[0]} exports: " + _diff(st, exp, b0))
    # (b)
    try:
        full = load(fcfg)
        bf = area.export(full)
        o.distinct.append("hist:" + hashlib.sha1(bf).hexdigest()[:12])
        if bf == e0:
            o.c("hist_full_config_equals_base")
    except SPSDKError as e:
        o.c("hist_full_rejected")
        o.extra.setdefault("observations", []).append(f"{iid}: all-registers-changed configuration rejected: {str(e)[:200]}")
    except Exception as e:  # noqa
        o.v("object-history", f"{kind}:full-config-raises:{type(e).__name__}", f"{iid}: configuration with every register changed raised {type(e).__name__}: {str(e)[:300]}")
    # queries: after an object holds non-default content, no read-only looking call may change what it exports / names
    try:
        subject_cfg = fcfg if "full" in locals() else pcfg
        subj = load(subject_cfg)
        if area.has_parse:
            sb = area.export(subj)
            if parse_demanded(kind, inst, sb):
                subj = area.parse(inst, sb)  # the parsed object is the more exposed one (nothing but the binary behind it)
                if kind == "tz":
                    subj._c12_rev = inst["rev"]
        q_e, q_g = area.export(subj), cfg_of(subj)
        for qname, thunk in area.queries(subj, inst):
            try:
                thunk()
                o.c("hist_queries")
            except SPSDKError:
                o.c("hist_query_rejected")
            except Exception as e:  # noqa
                o.c("hist_query_raised_other")
                o.extra.setdefault("observations", []).append(f"{iid}: {qname} raised {type(e).__name__}: {str(e)[:120]}")
            e2, g2 = area.export(subj), cfg_of(subj)
            if e2 != q_e or g2 != q_g:
                o.v("object-history", f"{kind.split('.')[0]}:query-changes-object:{qname}",
                    f"{iid}: after {qname}() the object exports / names something else: " + (_diff(st, q_e, e2) if e2 != q_e else "get_config differs"))
                q_e, q_g = e2, g2
    except SPSDKError:
        o.c("hist_query_subject_rejected")
    except Exception as e:  # noqa
        o.v("object-history", f"{kind}:query-phase-raises:{_exc_kind(e)}", f"{iid}: {type(e).__name__}: {str(e)[:300]}")
    config_object_clauses(st, o)
    # (c), (d), (e)
    try:
        b1 = area.export(load(pcfg))
        if not same(b1, b0):
            o.v("object-history", f"{kind}:partial-config-after-full-config",
                f"{iid}: the same configuration (only {partial[0]}) exports differently after an object with every register changed was exported: " + _diff(st, b0, b1))
        b0again = area.export(p0)
        if not same(b0again, b0):
            o.v("object-history", f"{kind}:first-object-re-exported", f"{iid}: the first object exports differently the second time: " + _diff(st, b0, b0again))
        fresh1 = load(st["cfg"])
        e1, g1 = area.export(fresh1), cfg_of(fresh1)
        if not same(e1, e0) or g1 != g0:
            o.v("object-history", f"{kind}:fresh-object-after-full-config", f"{iid}: an object loaded from the template differs from the one loaded before: "
                + (_diff(st, e0, e1) if e1 != e0 else "configuration differs"))
        t1 = area.template(inst)
        if t1 != st["tpl"]:
            o.v("object-history", f"{kind}:template-after-full-config", f"{iid}: the generated template changed after objects were built and exported")
    except Exception as e:  # noqa
        o.v("object-history", f"{kind}:second-pass-raises:{_exc_kind(e)}", f"{iid}: {type(e).__name__}: {str(e)[:300]}")
    return o.result()


# ---------------------------------------------------------------------------------------------
# CLI


def cli_pfr_options(st: dict, o: Out, s: dict, d: str) -> None:
    """`pfr generate-binary --add-seal` and `--secret-file ...` (ROTKH from keys) against the independent rules."""
    from vf import fixtures as FX

    inst = st["inst"]
    kind = inst["kind"]
    iid = A.inst_id(inst)
    facts, mdl, img = st["facts"], st["mdl"], st["img"]
    model: AR.AreaModel = mdl["model"]
    out2 = os.path.join(d, "out2.bin")
    rc, outp, exc = A.cli_run("pfr", ["generate-binary", "-c", s["template_file"], "-o", out2, "-a"])
    o.c("cli_invocations")
    if rc != 0 or not os.path.exists(out2):
        o.v("cli", f"pfr:{kind}:generate-binary--add-seal", f"{iid}: rc {rc} {type(exc).__name__ if exc else ''}: {(str(exc) if exc else outp)[-300:]}")
    else:
        r = model.by_uid.get(facts.get("seal_start") or "")
        bad = AR.check_seal(open(out2, "rb").read(), img, r.offset if r is not None else None, facts.get("seal_count"))
        if bad:
            o.v("cli", f"pfr:{kind}:seal", f"{iid}: pfr generate-binary -a: {bad}")
    g = groups_of(facts).get("ROTKH")
    if kind != "pfr.cmpa" or g is None:
        return
    names = {"cert_block_1": ["rsa2048_0", "rsa2048_1", "rsa2048_2"], "cert_block_21": ["p256_0", "p256_1"]}.get(facts.get("rot_type") or "")
    if not names:
        return
    idx = FX.key_index()
    if facts["rot_type"] == "cert_block_1":
        want = AR.rkth_v1([(AR.num(idx[n]["n"]), AR.num(idx[n]["e"])) for n in names])
    else:
        want = AR.rkth_v21([(idx[n]["bits"], AR.num(idx[n]["x"]), AR.num(idx[n]["y"])) for n in names])
    out3 = os.path.join(d, "out3.bin")
    args = ["generate-binary", "-c", s["template_file"], "-o", out3]
    for n in names:
        args += ["-sf", FX.key_path(n, private=False)]
    rc, outp, exc = A.cli_run("pfr", args)
    o.c("cli_invocations")
    if rc != 0 or not os.path.exists(out3):
        o.v("cli", f"pfr:{kind}:generate-binary--secret-file", f"{iid}: rc {rc} {type(exc).__name__ if exc else ''}: {(str(exc) if exc else outp)[-300:]}")
        return
    gb = sorted(group_bytes(g, model))
    lo, hi = gb[0], gb[-1] + 1
    b = open(out3, "rb").read()
    if b[lo:hi] != want.ljust(hi - lo, b"\0") or b[:lo] != img[:lo] or b[hi:] != img[hi:]:
        o.v("cli", f"pfr:{kind}:rotkh", f"{iid}: pfr generate-binary -sf ...: ROTKH bytes {b[lo:hi].hex()}, key table hash {want.hex()}")


def cli_case(case: dict) -> dict:
    o = Out()
    if case.get("base_fail"):
        # the base case of this instance already fails a clause; what the CLI adds would be the same defect again
        _v = o.v

        def v(clause: str, disc: str, detail: str) -> None:
            o.c("cli_finding_masked_by_base_failure")

        o.v = v  # type: ignore[method-assign]
    inst = {k: case[k] for k in ("kind", "family", "rev", "sub")}
    kind = inst["kind"]
    area = A.AREAS[kind]
    iid = A.inst_id(inst)
    st = base_state(inst)
    d = tempfile.mkdtemp(prefix="c12cli-", dir=os.environ.get("VERIF_WORKDIR") or None)
    cwd = os.getcwd()
    _v0 = o.v

    def v_clean(clause: str, disc: str, detail: str) -> None:
        _v0(clause, disc, detail.replace(d, "<tmp>"))  # results must not depend on the name of the scratch directory

    o.v = v_clean  # type: ignore[method-assign]
    try:
        os.chdir(d)
        s = A.cli_script(inst, d)
        tool = s["tool"]
        rc, outp, exc = A.cli_run(tool, s["template"])
        o.c("cli_invocations")
        if rc != 0 or not os.path.exists(s["template_file"]):
            o.v("cli", f"{tool}:{kind}:get-template", f"{iid}: {tool} {' '.join(s['template'])} -> rc {rc} {type(exc).__name__ if exc else ''}: {outp[-300:]}")
            return o.result()
        text = open(s["template_file"], encoding="utf-8").read()
        _, cfg, bad = _yaml_both(text)
        if bad:
            o.v("cli", f"{tool}:{kind}:template-yaml:{bad.split('|')[0]}", f"{iid}: {bad}")
            return o.result()
        rev_ok = (not s["latest_only"]) or A._db(inst).is_latest
        if st and st.get("ok") and rev_ok:
            want = dict(st["cfg"])
            if core.jdump(cfg.get(area.settings_key)) != core.jdump(want.get(area.settings_key)):
                o.v("cli", f"{tool}:{kind}:template-differs-from-api", f"{iid}: the CLI template and the API template hold different settings")
        if not s["export"]:
            return o.result()
        if not rev_ok:
            o.c("cli_export_skipped_tool_has_no_revision_option")
            return o.result()
        rc, outp, exc = A.cli_run(tool, s["export"])
        o.c("cli_invocations")
        if rc != 0:
            o.v("cli", f"{tool}:{kind}:export", f"{iid}: {tool} {' '.join(s['export'])} -> rc {rc} {type(exc).__name__ if exc else ''}: {(str(exc) if exc else outp)[-400:]}")
            return o.result()
        img = st["img"] if st and st.get("ok") else None
        if kind == "tz":
            binp = os.path.join(d, cfg.get("tzpOutputFile", "tz.bin"))
        else:
            binp = s["binary"]
        if kind == "memcfg":
            m = re.search(r"Exported config options:\s*(.*)", outp)
            words = [AR.num(w) for w in m.group(1).split(",")] if m else None
            got = b"".join(w.to_bytes(4, "little") for w in words) if words else None
        else:
            got = open(binp, "rb").read() if binp and os.path.exists(binp) else None
        if got is None:
            o.v("cli", f"{tool}:{kind}:export-output", f"{iid}: no output from {' '.join(s['export'])}: {outp[-200:]}")
            return o.result()
        if img is not None:
            same = fuses_same(st, img, got) and fuses_same(st, got, img) if kind == "fuses" else got == img
            if not same:
                o.v("cli", f"{tool}:{kind}:binary-differs-from-api", f"{iid}: CLI export differs from the API export of the same template: " + _diff(st, img, got))
        if kind.startswith("pfr.") and st and st.get("ok"):
            cli_pfr_options(st, o, s, d)
        if kind in ("fcb", "xmcd") and st and st.get("ok"):
            round_trips(st, o, st["obj"], st["img"], "class", ":rendered", fast=False, what="base (create_config text)")
        if not s["parse"]:
            return o.result()
        rc, outp, exc = A.cli_run(tool, s["parse"])
        o.c("cli_invocations")
        if rc != 0 or not os.path.exists(s["parsed"]):
            o.v("cli", f"{tool}:{kind.split('.')[0]}:parse" + ("" if A._db(inst).is_latest else ":non-latest-revision"), f"{iid}: {tool} {' '.join(s['parse'])} -> rc {rc} {type(exc).__name__ if exc else ''}: {(str(exc) if exc else outp)[-400:]}")
            return o.result()
        _, pcfg, bad = _yaml_both(open(s["parsed"], encoding="utf-8").read())
        if bad:
            o.v("cli", f"{tool}:{kind}:parsed-yaml", f"{iid}: {bad}")
            return o.result()
        try:
            if "revision" in pcfg and str(pcfg["revision"]) == "latest" and not A._db(inst).is_latest:
                pcfg["revision"] = inst["rev"]
            img2 = area.export(area.load(inst, pcfg))
            if img2 != got:
                o.v("cli", f"{tool}:{kind}:parsed-config-roundtrip", f"{iid}: the configuration written by the CLI parser exports differently: " + _diff(st, got, img2))
        except Exception as e:  # noqa
            o.v("cli", f"{tool}:{kind}:parsed-config-loads:{_exc_kind(e)}", f"{iid}: configuration written by the CLI parser does not load: {type(e).__name__}: {str(e)[:300]}")
    finally:
        os.chdir(cwd)
        shutil.rmtree(d, ignore_errors=True)
    return o.result()


# ---------------------------------------------------------------------------------------------


def _log_cpu(case: dict, cpu: float, res: dict) -> None:
    """Side channel (not part of the result, which must be deterministic): CPU seconds per kind and case type."""
    wd = os.environ.get("VERIF_WORKDIR")
    if not wd:
        return
    try:
        with open(os.path.join(wd, f"c12-cpu-{os.getpid()}.txt"), "a") as f:
            f.write(f"{case.get('t')} {case.get('kind')} {cpu:.3f} {res.get('count', {}).get('evaluations_dep', 0)}\n")
    except OSError:
        pass


def run_case(case: dict) -> dict:
    _worker_init()
    t0 = core.time.process_time()
    res = _run_case(case)
    if case.get("t") != "multi":
        _log_cpu(case, core.time.process_time() - t0, res)
    return res


def _run_case(case: dict) -> dict:
    t = case.get("t")
    if t == "base":
        return base_case({k: case[k] for k in ("kind", "family", "rev", "sub")})
    if t == "dep":
        return dep_case(case)
    if t == "cli":
        return cli_case(case)
    if t == "hist":
        return hist_case(case)
    if t == "multi":  # several cases of one instance: its base state is built once
        return {"multi": [run_case(c) for c in case["cases"]]}
    raise AssertionError(t)


def pool_unordered(ctx: core.Ctx, tasks: list, timeout: int, check_det: int, margin: float, det_key=None):
    """Like ctx.pool_map (forked workers, watchdog per task, determinism double-run of the first tasks in two separate
    processes), but results are taken as they complete: with the ordered imap of core.pool_map one slow task (an XMCD
    'full' block under load: 30 s) holds back the results behind it and the time budget is judged on stale information.
    -> (results by task index, complete?)   Results are handed back by index so that they are absorbed in task order."""
    import multiprocessing as mp

    if check_det and tasks:
        # the double run is serial: take the cheapest tasks for it (the expensive ones are scheduled first)
        head = sorted(tasks, key=det_key)[:check_det] if det_key else tasks[:check_det]
        r = []
        for _ in range(2):
            with mp.get_context("fork").Pool(1, core._worker_init, (run_case, timeout, None)) as p:
                r.append([core.jdump(x) for x in p.map(core._worker_call, head)])
        for a, b, c in zip(r[0], r[1], head):
            if a != b:
                raise core.HarnessError(f"nondeterministic result for case {core.jdump(c)[:300]}:\n{a[:600]}\n{b[:600]}")
        ctx.count("determinism_double_runs", len(head))
    out: dict[int, Any] = {}
    if not tasks:
        return out, True
    global _TIMEOUT
    _TIMEOUT = timeout
    with mp.get_context("fork").Pool(core.NPROC, core._worker_init, (run_case, timeout, None)) as p:
        for i, res in p.imap_unordered(_indexed_call, list(enumerate(tasks)), chunksize=1):
            out[i] = res
            if ctx.time_left() < margin and len(out) < len(tasks):
                return out, False
    return out, True


_TIMEOUT = 600


def _indexed_call(it: tuple) -> tuple:
    """core._worker_call that keeps the task index also for a watchdog / crash record."""
    import signal
    import traceback

    signal.alarm(_TIMEOUT)
    try:
        res = run_case(it[1])
    except core.Watchdog:
        res = {"__watchdog__": True}
    except BaseException as e:  # noqa
        res = {"__crash__": f"{type(e).__name__}: {e}", "tb": traceback.format_exc()[-2000:]}
    finally:
        signal.alarm(0)
    return it[0], res


COST = {"xmcd": 0, "fcb": 1, "fuses": 2, "pfr.cmpa": 3}  # most expensive first: the long tasks start early


def _sort_key(inst: dict):
    return (KINDS.index(inst["kind"]), inst["family"], inst["rev"], inst["sub"])


def run(ctx: core.Ctx) -> None:
    core.bind_repo()
    import logging

    logging.disable(logging.CRITICAL)
    kinds = [k for k in os.environ.get("VERIF_C12_KINDS", "").split(",") if k] or None
    # The instances are enumerated in a child process: enumerating loads the complete device database, and every
    # Registers object points at it (Registers.db -> Features -> Device -> Database), so the areas that deep-copy their
    # registers (XMCD: on every access) would copy all 140 devices each time in every worker forked from this process.
    import multiprocessing as mp

    with mp.get_context("fork").Pool(1) as p0:
        enumerated = p0.apply(_enumerate, (kinds,))
    latest = {A.inst_id(i): l for i, l in enumerated}
    insts = sorted((i for i, _ in enumerated), key=_sort_key)
    thorough = ctx.tier == "thorough"
    # ---- k = 0: every instance ----------------------------------------------------------------------------------
    classes: dict[str, list[dict]] = {}
    targets: dict[str, dict] = {}
    per_kind: dict[str, dict] = {}
    base_cases = [dict(i, t="base") for i in insts]
    # interleave kinds so that the expensive areas spread over the workers
    where: dict[str, list] = {}
    base_fail: dict[str, list] = {}

    def note(case: dict, res: Any) -> None:
        for v in (res.get("viol", ()) if isinstance(res, dict) else ()):
            lst = where.setdefault(f"{v[0]} [{v[1]}]", [])
            tag = A.inst_id(case) + (f"/{case['reg']}" if case.get("reg") else "") + (f"/{case['t']}" if case.get("t") in ("cli", "hist") else "")
            if len(lst) < 400:
                lst.append(tag)

    margin = 20 if ctx.tier == "quick" else 90
    base_cases.sort(key=lambda c: (COST.get(c["kind"], 9), c["kind"] == "xmcd" and c["sub"][1] != "full"))
    got, complete = pool_unordered(ctx, base_cases, timeout=120, check_det=3, margin=margin, det_key=_sort_key)
    base_done = len(got) if not complete else len(base_cases)
    order_back = sorted(range(len(base_cases)), key=lambda i: _sort_key(base_cases[i]))
    for i in order_back:
        if i not in got:
            continue
        case, res = base_cases[i], got[i]
        if not ctx.absorb(case, res):
            continue
        note(case, res)
        base_fail[A.inst_id(case)] = sorted({v[0] for v in res.get("viol", ())})
        pk = per_kind.setdefault(case["kind"], {"instances": 0, "classes": set(), "departures": 0, "rejected": 0})
        pk["instances"] += 1
        ck = res.get("class_key")
        if ck and "targets" in res:
            classes.setdefault(ck, []).append({k: case[k] for k in ("kind", "family", "rev", "sub")})
            targets.setdefault(ck, res["targets"])
            pk["classes"].add(ck)
        if len(ctx.samples) < 3:
            ctx.sample({"base": A.inst_id(case), "class": ck})
    if base_done < len(base_cases):
        ctx.exhaustive = False
        ctx.cov["bound_completed"] = f"k=0 INCOMPLETE: {base_done} of {len(base_cases)} instances (time budget)"
        ctx.cov["instances_base"] = base_done
        return
    ctx.cov["instances_base"] = len(base_cases)
    ctx.cov["wall_base_s"] = round(core.time.time() - ctx.t0, 1)
    ctx.cov["classes"] = {k: len(v["classes"]) for k, v in per_kind.items()}
    ctx.cov["class_sizes"] = {ck: len(v) for ck, v in sorted(classes.items())}
    ctx.cov["instances_without_class"] = len(base_cases) - sum(len(v) for v in classes.values())  # base pipeline broke off
    # ---- k = 1 (, 2): representatives ------------------------------------------------------------------------------
    dep_cases: list[dict] = []
    cli_cases: list[dict] = []
    seen_entries: set[str] = set()
    nrep = 1
    skipped_entries = 0
    skipped_struct = 0
    order = ["pfr.cmpa", "pfr.cfpa", "ifr.romcfg", "ifr.cmactable", "bca", "fcf", "memcfg", "tz", "xmcd", "fuses", "fcb"]
    def class_order(c: str):
        first = classes[c][0]
        # XMCD: the blocks with few registers first, so that the shared header register is explored on a cheap one
        return (order.index(c.split(":")[0]), first["kind"] == "xmcd" and first["sub"][1] != "simplified", c)

    for ck in sorted(classes, key=class_order):
        members = classes[ck]
        # representative: prefer the latest revision (the CLI tools of several areas know no other)
        reps = sorted(members, key=lambda i: (not latest.get(A.inst_id(i), False), i["family"], i["rev"]))[:nrep]
        cli_cases.append(dict(reps[0], t="cli", base_fail=base_fail.get(A.inst_id(reps[0]), [])))
        cli_cases.append(dict(reps[0], t="hist", base_fail=base_fail.get(A.inst_id(reps[0]), [])))
        for rep in reps:
            regs = list(targets[ck].items())
            xm = rep["kind"] == "xmcd"  # > 0.5 s per evaluation (the object deep-copies its registers on every access)
            fb = rep["kind"] == "fcb"  # 12 files x 128 look-up-table words of one structure, 80 ms per evaluation
            if not thorough or xm or fb:
                # (1) of the registers of one file that have the same structure (width, reset, bit-field layout,
                # enumerations, group / computed-field data; only name and offset differ):
                #   quick: the first two and the last one; thorough: all, except XMCD (first two + last) and FCB (first
                #   four, every 16th, last two)
                by_struct: dict[str, list[str]] = {}
                for reg, eh in regs:
                    by_struct.setdefault(eh.split("/")[1], []).append(reg)
                if thorough and fb:
                    keep = {r for lst in by_struct.values() for r in lst[:4] + lst[4::16] + lst[-2:]}
                elif thorough:
                    keep = {r for lst in by_struct.values() for r in lst[:2] + lst[-1:]}
                else:
                    keep = {r for lst in by_struct.values() for r in lst[:1] + lst[-1:]}
                if xm and rep["sub"][1] == "full" and not thorough:
                    # quick: a "full" block is a plain array of 50-130 registers (the code that is particular to XMCD sits in
                    # the header and in configOption0/1 of the simplified blocks): the header (unless an earlier class
                    # explored it), the first and the last register of the block; thorough explores the block
                    names = [n for n, _ in regs]
                    keep = {n for n in names if n == "header"} | set(names[1:2]) | set(names[-1:])
                skipped_struct += len(regs) - len(keep)
                regs = [(r, e) for r, e in regs if r in keep]
            for reg, eh in regs:
                if not thorough:
                    # quick (2): a register entry (its whole description incl. group / computed-field data) that an
                    # earlier class already covered is not repeated
                    if eh in seen_entries:
                        skipped_entries += 1
                        continue
                    seen_entries.add(eh)
                # thorough: > 0.5 s per XMCD evaluation, keep the cases far below the watchdog; the thinned quick tier has few
                # evaluations per register, and every task rebuilds the base state of its instance (1-3 s for XMCD)
                nsl = 4 if (rep["kind"] == "xmcd" and thorough) else 1
                for k in range(nsl):
                    dep_cases.append(dict(rep, t="dep", reg=reg, tier=ctx.tier, rt_all=thorough, pairs=thorough, seed=ctx.seed,
                                          base_fail=base_fail.get(A.inst_id(rep), []), **({"slice": [k, nsl]} if nsl > 1 else {})))
    ctx.cov["register_entries_skipped_as_duplicates"] = skipped_entries
    ctx.cov["registers_skipped_same_structure"] = skipped_struct
    done = 0
    cut = False
    phases = os.environ.get("VERIF_C12_PHASES", "cli,dep").split(",")  # development switch; the registered command runs all
    allcases = (cli_cases if "cli" in phases else []) + (dep_cases if "dep" in phases else [])
    if len(allcases) != len(cli_cases) + len(dep_cases):
        ctx.exhaustive = False
    # one pool task = the cases of one instance, cut into pieces of roughly equal cost
    # (every task builds the base state and compiles the schema of its instance once: 0.5-1.5 s)
    per_task = {"fcb": 6, "xmcd": 1, "fuses": 16, "pfr.cmpa": 20, "pfr.cfpa": 20}
    tasks: list[dict] = []
    cur: list[dict] = []
    for c in allcases:
        lim = per_task.get(c["kind"], 24)
        if cur and (A.inst_id(cur[0]) != A.inst_id(c) or len(cur) >= lim or (cur[0]["t"] == "dep") != (c["t"] == "dep")):
            tasks.append({"t": "multi", "cases": cur})
            cur = []
        cur.append(c)
    if cur:
        tasks.append({"t": "multi", "cases": cur})
    # the long tasks first (XMCD departures, then the CLI + object-history cases of every class)
    # ... then PFR / IFR and the small areas; the bulk (fuses: 600 registers, FCB) last: that is what a time cut on a loaded
    # machine leaves unexplored
    late = {"fcb": 8, "fuses": 9}
    tasks.sort(key=lambda t: (0 if (t["cases"][0]["t"] == "dep" and t["cases"][0]["kind"] == "xmcd") else
                              1 if t["cases"][0]["t"] in ("cli", "hist") else 2 + late.get(t["cases"][0]["kind"], 0)))
    got2, complete2 = pool_unordered(ctx, tasks, timeout=600, check_det=2, margin=margin,
                                     det_key=lambda t: (t["cases"][0]["t"] != "dep", _sort_key(t["cases"][0]), t["cases"][0].get("reg", "")))
    cut = not complete2
    for ti in sorted(got2):
        task, mres = tasks[ti], got2[ti]
        if isinstance(mres, dict) and "multi" in mres:
            pairs = list(zip(task["cases"], mres["multi"]))
        else:
            pairs = [(task, mres)]  # watchdog / crash record of the whole task
        for case, res in pairs:
            if not ctx.absorb(case, res):
                continue
            note(case, res)
            done += 1
            if case["t"] == "dep":
                pk = per_kind.setdefault(case["kind"], {"instances": 0, "classes": set(), "departures": 0, "rejected": 0})
                pk["departures"] += res["count"].get("evaluations_dep", 0)
                pk["rejected"] += res["count"].get("rejected", 0)
                if len(ctx.samples) < 8 and res["count"].get("evaluations_dep"):
                    ctx.sample({"departure": A.inst_id(case), "register": case["reg"], "values": res["count"].get("evaluations_dep")})
            for ob in res.get("observations", [])[:2]:
                ctx.cov.setdefault("observations", [])
                if len(ctx.cov["observations"]) < 20:
                    ctx.cov["observations"].append(ob)
    if cut:
        ctx.exhaustive = False
        ctx.cov["bound_completed"] = f"k=0 complete ({len(base_cases)} instances); k=1: {done} of {len(allcases)} register cases"
    else:
        ctx.cov["bound_completed"] = ("k=0: all instances; k=1: every register x bit-field x value on one representative per class"
                                      + ("; k=2: neighbouring bit-field pairs" if thorough else " (thinned: first+last register per structure, entries deduplicated across classes, values {0,1,max,0x55..}, <=4 enum names, round trips on one value per field)"))
    cpu: dict[str, list] = {}
    try:
        for fn in os.listdir(ctx.workdir):
            if fn.startswith("c12-cpu-"):
                for line in open(os.path.join(ctx.workdir, fn)):
                    t_, k_, c_, n_ = line.split()
                    e = cpu.setdefault(f"{t_}:{k_}", [0.0, 0, 0])
                    e[0] += float(c_)
                    e[1] += 1
                    e[2] += int(n_)
    except OSError:
        pass
    ctx.cov["cpu_s"] = {k: {"cpu_s": round(v[0], 1), "cases": v[1], "evaluations": v[2]} for k, v in sorted(cpu.items())}
    ctx.cov["cpu_s_total"] = round(sum(v[0] for v in cpu.values()), 1)
    ctx.cov["findings_where"] = {k: {"count": len(v), "first": v[:25]} for k, v in sorted(where.items())}
    ctx.cov["per_kind"] = {k: {"instances": v["instances"], "classes": len(v["classes"]), "departures": v["departures"],
                               "rejected": v["rejected"]} for k, v in per_kind.items()}
    ctx.cov["rejected"] = ctx.counters.get("rejected", 0)
    ctx.cov["evaluations"] = ctx.counters.get("base_instances", 0) + ctx.counters.get("evaluations_dep", 0) + ctx.counters.get("cli_invocations", 0)
    ctx.rule = ("k=0: every (area, family, revision, sub-feature) of the database: template -> YAML (ruamel + PyYAML) -> schema -> load -> "
                "export -> size / reset image / markers -> parse -> export, get_config -> load -> export, PFR seal and ROTKH from 3-4 key sets; "
                "k=1: per register-file class one representative, every register and bit-field of the template set to "
                "{0,1,max,max-1,0x55..,0xAA..,each enum name}, whole-register form (+1 seeded value), computed fields given/omitted; "
                "thorough: k=2 neighbouring bit-field pairs, all round trips for all values; CLIs at base per class; "
                "distinct = class keys + distinct exported binaries")
    ctx.assumptions += [
        "two instances with the same class key (area kind, every database value read, SHA-1 of every file read) differ only in the family string",
        "quick tier: of the registers of one file with the same structure (only name and offset differ) the first and the last are explored; "
        "a register whose complete description entry equals one already explored in another class is not explored again; "
        "values {0, 1, max, 0x55..} (+ the seeded whole-register value), of more than four enum names the first two and the last two "
        "(fuses and XMCD bit-fields: {1, max}, first and last enum name); "
        "the two round trips run for the first non-zero value of every bit-field and for the whole-register values 0 and max; "
        "thorough lifts all of these: full alphabet {0,1,max,max-1,0x55..,0xAA..}, every enum name, every register, all round trips "
        "(except: XMCD first two + last per structure, FCB first four + every 16th + last two per structure)",
        "fastjsonschema.compile is memoised per worker on the JSON text of the schema (third-party, pure); every distinct schema is compiled for real",
        "FCB / fuses departures load a configuration holding only the register under test (all others stay at reset, as in the template); "
        "quick tier: fuse departures skip the two whole-map schema validations of Fuses.load_from_config (which runs at base for every instance, and for every value in the thorough tier); "
        "XMCD 'full' blocks in the quick tier: header, first and last register; fuses / XMCD whole-register values {0, max, seeded}",
        "whole-register values stay inside the bits that the description file declares (named fields or gaps) and outside bit-fields that share "
        "their name with another field of the same register: other bits cannot be written in the bit-field form get_config() produces",
        "an enum name that the description file gives to several values is not used as an input (ambiguous); the numeric values are",
        "alternative-width register groups (PFR ROTKH): for whole-group values only the bytes outside the group are modelled (C11 known findings); "
        "the hash placement is checked through export(keys=/rotkh=) and the pfr CLI",
        "fuse maps: the artefact is the programming script (one write command per leaf fuse, read back by the documented command syntax); "
        "`calculated` CRC / inverse markers of fuse files are not demanded (the fuse tool has no computed-field mechanism)",
        "XMCD: a departure that makes the header name another interface / block type is not parsed back (the binary is then another area's)",
        "one representative per class in both tiers (DESIGN allowed up to three in thorough; the time goes into all values x all round trips instead)",
    ]


def _enumerate(kinds: Optional[list]) -> list:
    core.bind_repo()
    import logging

    logging.disable(logging.CRITICAL)
    return [(i, _is_latest(i)) for i in A.enum_all(kinds)]


def _is_latest(inst: dict) -> bool:
    try:
        return bool(A._db(inst).is_latest)
    except Exception:  # noqa
        return False


def replay(ctx: core.Ctx, rec: dict) -> bool:
    core.bind_repo()
    case = rec["case"]
    if case.get("t") == "multi" and rec.get("clause", "").endswith(".terminates"):
        # a task of several cases ran into the watchdog: run them one by one under the same limit
        for c in case["cases"]:
            r = core.run_with_watchdog(run_case, c, timeout=600)
            if isinstance(r, dict) and r.get("__watchdog__"):
                print("does not terminate:", core.jdump(c)[:300])
                return True
        return False
    res = run_case(case)
    flat = res["multi"] if "multi" in res else [res]
    hits = [v for r in flat for v in r.get("viol", ()) if v[0] == rec["clause"] and v[1] == rec["disc"]]
    for h in hits[:3]:
        print(h)
    return bool(hits)
