"""C10 — bootloader protocols against a reference device model (DESIGN §11).

Closed system: real `McuBoot(MbootSerialProtocol(SerialDevice))` / `McuBoot(MbootBulkProtocol(
UsbDevice))` whose third-party handle (`pyserial.Serial` / libusbsio `HID_DEVICE`) is replaced by
a fake with the library's semantics; behind the fake sits vf/ref/mboot_dev.py.  Time is virtual.

E2 (fault-free): BFS over all operation sequences up to a depth, per device configuration
(max packet size, status script, cmd_exception), state = canonical (device memory, properties,
program-once words, host status code, cached packet size); oracle = the device model.
E3 (faults): for every single-operation history and EVERY index of the device->host byte stream
(serial) / every report (HID) x every fault kind, one fault per execution (two in thorough for a
subset): the call must end within the horizon and must never claim success with a result or a
device effect that differs from the fault-free run.
"""
from __future__ import annotations

import os
import struct
from typing import Any, Optional

from vf import core
from vf.ref import mboot_dev as md

LEVEL = "model_checking"


class Horizon(BaseException):
    pass


class Clock:
    def __init__(self):
        self.t = 1_000_000.0
        self.calls = 0

    def tick(self, dt: float) -> None:
        self.t += dt
        self.calls += 1
        if self.calls > 20000 or self.t > 1_000_000.0 + 600:
            raise Horizon()


CLOCK = Clock()


def install_clock() -> None:
    import time

    time.time = lambda: CLOCK.t
    time.sleep = lambda x: CLOCK.tick(x)
    import logging

    logging.disable(logging.CRITICAL)


# ---------------------------------------------------------------------------------------------
# fakes at the third-party library boundary


class Fault:
    """One fault on the device->host stream.  kind/pos/arg; pos = absolute byte offset (serial)
    or report index (HID)."""

    def __init__(self, spec: Optional[list]):
        self.spec = spec
        self.cut = False
        self.applied = False


class FakeSerial:
    """pyserial.Serial semantics: read(n) returns <= n bytes, b"" on timeout; reset_input_buffer
    discards pending input."""

    def __init__(self, link: md.SerialLink, faults: list):
        self.link = link
        self.is_open = False
        self.timeout = 0.05
        self.write_timeout = 0.05
        self.port = "fake"
        self.inbuf = bytearray()
        self.taken = 0          # bytes of link.out already moved through the fault filter
        self.faults = [Fault(f) for f in faults]
        self.cut = False
        self.pause_at: Optional[int] = None
        self.delivered = 0      # absolute offset of the next byte the host will read (in filtered numbering)

    def open(self):
        self.is_open = True

    def close(self):
        self.is_open = False

    def reset_input_buffer(self):
        self.inbuf.clear()

    def reset_output_buffer(self):
        pass

    def flush(self):
        pass

    def _pump(self) -> None:
        out = self.link.out
        frames = {o: (k, ln) for o, k, ln in self.link.frames_sent}
        i = self.taken
        while i < len(out):
            b = out[i]
            skip = 0
            emit = bytes([b])
            for f in self.faults:
                if f.spec is None or f.applied or f.spec[1] != i:
                    continue
                kind = f.spec[0]
                f.applied = True
                if kind == "flip":
                    emit = bytes([b ^ (1 << f.spec[2])])
                elif kind == "drop":
                    emit = b""
                elif kind == "truncate":
                    self.cut = True
                elif kind == "insert00":
                    emit = b"\x00" + emit
                elif kind == "pause":
                    self.pause_at = len(self.inbuf)  # a read reaching this point returns short once
                elif kind in ("nak", "abort", "dup") and i in frames:
                    ln = frames[i][1]
                    raw = bytes(out[i:i + ln])
                    if len(raw) < ln:
                        f.applied = False
                        break
                    emit = {"nak": b"\x5a\xa2", "abort": b"\x5a\xa3", "dup": raw + raw}[kind]
                    skip = ln - 1
            if self.cut:
                self.taken = len(out)
                return
            self.inbuf += emit
            i += 1 + skip
        self.taken = max(self.taken, i)

    def write(self, data):
        CLOCK.tick(len(data) * 1e-4)
        self.link.host_write(bytes(data))
        self._pump()
        return len(data)

    def read(self, n=1):
        self._pump()
        avail = len(self.inbuf)
        if self.pause_at is not None and self.pause_at < n and self.pause_at <= avail:
            k = self.pause_at
            self.pause_at = None
            CLOCK.tick(self.timeout or 0.05)
            data = bytes(self.inbuf[:k])
            del self.inbuf[:k]
            return data
        if avail >= n:
            data = bytes(self.inbuf[:n])
            del self.inbuf[:n]
            if self.pause_at is not None:
                self.pause_at -= n
            CLOCK.tick(n * 1e-4)
            return data
        CLOCK.tick(self.timeout or 0.05)
        data = bytes(self.inbuf)
        self.inbuf.clear()
        self.pause_at = None
        return data


class FakeHid:
    """libusbsio HID_DEVICE semantics: Read -> (one report, n) or (b"", err); Write -> bytes written."""

    def __init__(self, link: md.HidLink, faults: list):
        self.link = link
        self.faults = [Fault(f) for f in faults]
        self.idx = 0   # index of the next report of link.out to look at
        self.pending: list[bytes] = []
        self.cut = False

    def Open(self, path):
        return None

    def Close(self):
        return None

    def Write(self, data, timeout_ms=0):
        CLOCK.tick(1e-3)
        return self.link.host_write(bytes(data))

    def _pump(self) -> None:
        while self.idx < len(self.link.out):
            rep = self.link.out[self.idx]
            outs = [rep]
            for f in self.faults:
                if f.spec is None or f.applied or f.spec[1] != self.idx:
                    continue
                f.applied = True
                kind = f.spec[0]
                if kind == "drop":
                    outs = []
                elif kind == "truncate":
                    self.cut = True
                elif kind == "abort":
                    outs = [struct.pack("<2BH", rep[0], 0, 0)]
                elif kind == "dup":
                    outs = [rep, rep]
                elif kind == "hdrflip":
                    b = bytearray(rep)
                    b[f.spec[2]] ^= 1 << f.spec[3]
                    outs = [bytes(b)]
                elif kind == "short":
                    outs = [rep[: max(4 if len(rep) > 8 else 1, len(rep) - f.spec[2])]]
                elif kind == "empty":
                    outs = [b""]
            self.idx += 1
            if self.cut:
                self.idx = 10 ** 9
                return
            self.pending += outs

    def Read(self, length, timeout_ms=0):
        if not self.cut:
            self._pump()
        if self.pending:
            CLOCK.tick(1e-3)
            r = self.pending.pop(0)
            return (r[:length], len(r))
        CLOCK.tick((timeout_ms or 50) / 1000.0)
        return (b"", -1)


# ---------------------------------------------------------------------------------------------
# system under exploration


def make_system(transport: str, cfg: dict, faults: list):
    """cfg: max_packet (int|None), cmd_status, final_status, cmd_exception."""
    from spsdk.mboot.mcuboot import McuBoot

    dev = md.Core(cfg["max_packet"], cfg.get("cmd_status", 0), cfg.get("final_status", 0))
    if transport == "serial":
        from spsdk.mboot.interfaces.uart import MbootUARTInterface as MbootSerialProtocol
        from spsdk.utils.interfaces.device.serial_device import SerialDevice

        link = md.SerialLink(dev)
        link.reject = {f[1] for f in faults if f and f[0] == "reject"}
        sd = SerialDevice(port=None, timeout=50)
        fake = FakeSerial(link, [f for f in faults if not (f and f[0] == "reject")])
        sd._device = fake
        proto = MbootSerialProtocol(sd)
    else:
        from spsdk.mboot.interfaces.usb import MbootUSBInterface as MbootBulkProtocol
        from spsdk.utils.interfaces.device.usb_device import UsbDevice

        link = md.HidLink(dev)
        ud = UsbDevice(timeout=50)
        fake = FakeHid(link, faults)
        ud._device = fake
        proto = MbootBulkProtocol(ud)
    mb = McuBoot(proto, cmd_exception=cfg.get("cmd_exception", False))
    return dev, link, fake, mb


def make_sdp_system(transport: str, cfg: dict, faults: list):
    from spsdk.sdp.sdp import SDP
    from vf.ref import sdp_dev as sd

    dev = sd.SdpCore(cfg.get("locked", False), cfg.get("fail_writes", False))
    if transport == "sdp-serial":
        from spsdk.sdp.interfaces.uart import SdpUARTInterface
        from spsdk.utils.interfaces.device.serial_device import SerialDevice

        link = sd.SdpSerialLink(dev)
        ser = SerialDevice(port=None, timeout=50)
        fake = FakeSerial(link, faults)
        ser._device = fake
        proto = SdpUARTInterface(ser)
    else:
        from spsdk.sdp.interfaces.usb import SdpUSBInterface
        from spsdk.utils.interfaces.device.usb_device import UsbDevice

        link = sd.SdpHidLink(dev)
        ud = UsbDevice(timeout=50)
        fake = FakeHid(link, faults)
        ud._device = fake
        proto = SdpUSBInterface(ud)
    host = SDP(proto, cmd_exception=cfg.get("cmd_exception", False))
    return dev, link, fake, host


def is_sdp(transport: str) -> bool:
    return transport.startswith("sdp")


def make_any(transport: str, cfg: dict, faults: list):
    return make_sdp_system(transport, cfg, faults) if is_sdp(transport) else make_system(transport, cfg, faults)


SDP_OPS: list[tuple] = [
    ("sread", 0, 1), ("sread", 4, 4), ("sread", 0x10, 63), ("sread", 0, 64), ("sread", 8, 65), ("sread", 0x100, 200),
    ("sread_safe", 0x20, 6, 32), ("sread_safe", 0x21, 4, 32),
    ("swrite", 0x40, 0x11223344, 4, 32), ("swrite", 0x44, 0xAB, 1, 8), ("swrite_safe", 0x48, 0x1234, 3, 16), ("swrite_safe", 0x49, 1, 4, 32),
    ("swrite_file", 0x100, 1), ("swrite_file", 0x200, 64), ("swrite_file", 0x300, 1024), ("swrite_file", 0x400, 1500),
    ("swrite_dcd", 0x80, 40), ("swrite_csf", 0xC0, 24), ("sskip_dcd",), ("sjump", 0x1000), ("sread_status",),
]


def sdp_apply(host, op: tuple) -> Any:
    k = op[0]
    if k == "sread":
        return host.read(op[1], op[2])
    if k == "sread_safe":
        return host.read_safe(op[1], op[2], op[3], align_count=True)
    if k == "swrite":
        return host.write(op[1], op[2], op[3], op[4])
    if k == "swrite_safe":
        return host.write_safe(op[1], op[2], op[3], op[4])
    if k == "swrite_file":
        return host.write_file(op[1], pat(op[2], op[1] & 0xFF))
    if k == "swrite_dcd":
        return host.write_dcd(op[1], pat(op[2], 1))
    if k == "swrite_csf":
        return host.write_csf(op[1], pat(op[2], 2))
    if k == "sskip_dcd":
        return host.skip_dcd()
    if k == "sjump":
        return host.jump_and_run(op[1])
    if k == "sread_status":
        return host.read_status()
    raise AssertionError(op)


def sdp_expected(dev, op: tuple, mem_before: bytes, cfg: dict) -> dict:
    """What the SDP definition prescribes. status: 0 success, 2 HAB locked, or the failure code of the command."""
    k = op[0]
    fw = cfg.get("fail_writes", False)
    hab = 2 if cfg.get("locked") else 0
    if k == "sread":
        return {"status": hab, "ret": mem_before[op[1]:op[1] + op[2]], "effects": [], "ok": True}
    if k == "sread_safe":
        if op[1] % (op[3] // 8):
            return {"status": None, "ret": None, "effects": [], "ok": False, "raises": "SdpError"}
        n = -(-op[2] // (op[3] // 8)) * (op[3] // 8)
        return {"status": hab, "ret": mem_before[op[1]:op[1] + n], "effects": [], "ok": True}
    if k in ("swrite", "swrite_safe"):
        addr, val, cnt, fmt = op[1], op[2], op[3], op[4]
        if k == "swrite_safe":
            if addr % (fmt // 8):
                return {"status": None, "ret": None, "effects": [], "ok": False, "raises": "SdpError"}
            if cnt % (fmt // 8):
                cnt += (fmt // 8) - cnt % (fmt // 8)
            cnt = min(cnt, 4)
        if fw:
            return {"status": 11, "ret": False, "effects": [], "ok": False}
        return {"status": hab, "ret": True, "effects": [("write_reg", addr, val, cnt)], "ok": True}
    if k in ("swrite_file", "swrite_dcd", "swrite_csf"):
        salt = {"swrite_file": op[1] & 0xFF, "swrite_dcd": 1, "swrite_csf": 2}[k]
        if fw:
            return {"status": {"swrite_file": 12, "swrite_dcd": 13, "swrite_csf": 14}[k], "ret": False, "effects": [], "ok": False}
        return {"status": 0, "ret": True, "effects": [("write_" + k[7:], op[1], pat(op[2], salt))], "ok": True}
    if k == "sskip_dcd":
        return {"status": hab, "ret": True, "effects": [("skip_dcd",)], "ok": True}
    if k == "sjump":
        return {"status": hab, "ret": True, "effects": [("jump", op[1])], "ok": True}
    if k == "sread_status":
        return {"status": hab, "ret": 0, "effects": [], "ok": True}
    raise AssertionError(op)


def pat(n: int, salt: int = 0) -> bytes:
    return bytes(((i * 7 + 3 + salt) & 0xFF) for i in range(n))


OPS: list[tuple] = [
    ("get_property", 1), ("get_property", 11), ("get_property", 99),
    ("set_property", 10, 0), ("set_property", 5, 1),
    ("read", 0, 1), ("read", 0x10, 31), ("read", 0, 32), ("read", 0x20, 33), ("read", 4, 64), ("read", 0x1FFF, 2), ("read", 0, 0),
    ("write", 0, 1), ("write", 0x10, 31), ("write", 0, 32), ("write", 0x21, 33), ("write", 8, 100), ("write", 0x1FFF, 2),
    ("fill", 0x40, 8, 0xA5A5A5A5), ("fill", 0x41, 8, 1),
    ("erase", 0x100, 0x20), ("erase_all",),
    ("program_once", 3, 4), ("read_once", 3), ("efuse_verify", 4, 0xF0),
    ("sb", 70), ("reset",),
    ("kp_enroll",), ("kp_set_user_key", 3, 40), ("kp_write_key_store", 70), ("kp_read_key_store",), ("load_image", 137),
]


def apply_op(mb, op: tuple) -> Any:
    k = op[0]
    if k == "get_property":
        return mb.get_property(op[1])
    if k == "set_property":
        return mb.set_property(op[1], op[2])
    if k == "read":
        return mb.read_memory(op[1], op[2])
    if k == "write":
        return mb.write_memory(op[1], pat(op[2], op[1]))
    if k == "fill":
        return mb.fill_memory(op[1], op[2], op[3])
    if k == "erase":
        return mb.flash_erase_region(op[1], op[2])
    if k == "erase_all":
        return mb.flash_erase_all()
    if k == "program_once":
        return mb.flash_program_once(op[1], pat(op[2], 9))
    if k == "read_once":
        return mb.flash_read_once(op[1], 4)
    if k == "efuse_verify":
        return mb.efuse_program_once(op[1], op[2], verify=True)
    if k == "sb":
        return mb.receive_sb_file(pat(op[1], 5))
    if k == "reset":
        return mb.reset(reopen=True)
    if k == "kp_enroll":
        return mb.kp_enroll()
    if k == "kp_set_user_key":
        return mb.kp_set_user_key(op[1], pat(op[2], 6))
    if k == "kp_write_key_store":
        return mb.kp_write_key_store(pat(op[1], 7))
    if k == "kp_read_key_store":
        return mb.kp_read_key_store()
    if k == "load_image":
        return mb.load_image(pat(op[1], 8))
    raise AssertionError(op)


def expected(dev: md.Core, op: tuple, mem_before: bytes, once_before: dict, cfg: dict) -> dict:
    """What the protocol definition prescribes for `op` on a device in the given state: device status,
    exact return value on success, expected effects."""
    k = op[0]
    cs, fs = cfg.get("cmd_status", 0), cfg.get("final_status", 0)
    M = md.MEM_SIZE
    if k == "get_property":
        st = cs if cs else (0 if op[1] in (1, 4, 10, 11, 14) and (op[1] != 11 or cfg["max_packet"] is not None) else md.UNKNOWN_PROPERTY)
        val = {1: [0x4B030100], 11: [cfg["max_packet"]]}.get(op[1])
        return {"status": st, "ret": val, "effects": []}
    if k == "set_property":
        st = cs if cs else (0 if op[1] == 10 else md.UNKNOWN_PROPERTY)
        return {"status": st, "ret": True, "effects": [("set_property", op[1], op[2])]}
    if k == "read":
        st = cs if cs else (md.MEM_RANGE_INVALID if op[1] + op[2] > M else fs)
        return {"status": st, "ret": bytes(mem_before[op[1]:op[1] + op[2]]), "effects": None}
    if k == "write":
        st = cs if cs else (md.MEM_RANGE_INVALID if op[1] + op[2] > M else fs)
        return {"status": st, "ret": True, "effects": [("write", op[1], pat(op[2], op[1]))]}
    if k == "fill":
        st = cs if cs else (md.MEM_RANGE_INVALID if (op[1] % 4 or op[2] % 4 or op[1] + op[2] > M) else 0)
        return {"status": st, "ret": True, "effects": [("fill", op[1], op[2], op[3])]}
    if k == "erase":
        return {"status": cs, "ret": True, "effects": [("erase", op[1], op[2])]}
    if k == "erase_all":
        return {"status": cs, "ret": True, "effects": [("erase_all", 0)]}
    if k == "program_once":
        w = struct.unpack("<I", pat(4, 9))[0]
        return {"status": cs, "ret": True, "effects": [("program_once", op[1], (w,))]}
    if k == "read_once":
        return {"status": cs, "ret": struct.pack("<I", once_before.get(op[1], 0)), "effects": []}
    if k == "efuse_verify":
        return {"status": cs, "ret": True, "effects": [("program_once", op[1], (op[2],))]}
    if k == "sb":
        st = cs if cs else fs
        return {"status": st, "ret": True, "effects": [("sb", pat(op[1], 5))]}
    if k == "reset":
        return {"status": cs, "ret": True, "effects": [("control", md.CMD_RESET, ())]}
    if k == "kp_enroll":
        return {"status": cs, "ret": True, "effects": [("key_prov", 0, ())]}
    if k == "kp_set_user_key":
        return {"status": cs if cs else fs, "ret": True, "effects": [("set_user_key", op[1], pat(op[2], 6))]}
    if k == "kp_write_key_store":
        return {"status": cs if cs else fs, "ret": True, "effects": [("write_key_store", pat(op[1], 7))]}
    if k == "kp_read_key_store":
        return {"status": cs if cs else fs, "ret": bytes(dev.key_store), "effects": []}
    if k == "load_image":
        # no command and no response: the data packets themselves are the whole exchange
        return {"status": 0, "ret": True, "effects": [], "image": pat(op[1], 8)}
    raise AssertionError(op)


FAILISH = (None, False, b"")


def run_op(dev, mb, op, cfg) -> dict:
    """Execute one op; observe return/exception/status/effects/model errors."""
    from spsdk.exceptions import SPSDKError

    mem_before = bytes(dev.mem)
    img_before = len(getattr(dev, "image_sink", b""))
    sdp = op[0].startswith("s") and op[0] not in ("set_property", "sb")
    once_before = dict(dev.once) if not sdp else {}
    n_eff = len(dev.effects)
    n_err = len(dev.errors)
    obs: dict[str, Any] = {}
    try:
        obs["ret"] = sdp_apply(mb, op) if sdp else apply_op(mb, op)
    except Horizon:
        obs["horizon"] = True
    except (SPSDKError, TimeoutError) as e:
        obs["exc"] = type(e).__name__
    except Exception as e:  # noqa
        import traceback

        obs["exc"] = type(e).__name__
        fr = [f for f in traceback.extract_tb(e.__traceback__) if "/spsdk/" in f.filename]
        obs["site"] = (fr[-1].name if fr else "?")
        obs["undocumented"] = f"{type(e).__name__}: {e} (at {fr[-1].filename.split('/spsdk/')[-1]}:{fr[-1].lineno} {fr[-1].name})" if fr else f"{type(e).__name__}: {e}"
    obs["status"] = mb.status_code if not sdp else int(mb.status_code.tag)
    obs["effects"] = [e for e in dev.effects[n_eff:] if e[0] != "read"]
    obs["errors"] = dev.errors[n_err:]
    obs["exp"] = sdp_expected(dev, op, mem_before, cfg) if sdp else expected(dev, op, mem_before, once_before, cfg)
    if not sdp:
        obs["image"] = dev.image_sink[img_before:]
    return obs


def judge_clean_sdp(op, obs, transport, cfg) -> list:
    v = []
    exp = obs["exp"]
    tag = f"{transport}:{op[0]}"
    if obs.get("horizon"):
        return [("C10.bounded-time", tag, f"{op}: horizon reached without faults")]
    if obs["errors"]:
        v.append(("C10.host-protocol-violation", f"{transport}:{obs['errors'][0][:50]}", f"{op}: device model saw {obs['errors'][:3]}"))
    if "undocumented" in obs:
        v.append(("C10.undocumented-exception", f"{transport}:{obs['exc']}@{obs.get('site')}", f"{op}: {obs['undocumented']}"))
        return v
    if exp.get("raises"):
        if obs.get("exc") != exp["raises"]:
            v.append(("C10.result", tag + ":unaligned-not-refused", f"{op}: expected {exp['raises']}, got {obs.get('exc')} / {obs.get('ret')!r:.40}"))
        if obs["effects"]:
            v.append(("C10.device-effect", tag + ":on-error", f"{op}: effects {obs['effects']!r:.100}"))
        return v
    if "exc" in obs:
        if exp["ok"] or not (cfg.get("cmd_exception") and obs["exc"] == "SdpCommandError"):
            v.append(("C10.clean-op-raises", tag + ":" + obs["exc"], f"{op}: raised {obs['exc']}; device outcome ok={exp['ok']}"))
        return v
    if obs["status"] != exp["status"]:
        v.append(("C10.status-mirror", tag, f"{op}: status_code {obs['status']}, the device outcome prescribes {exp['status']}"))
    if exp["ok"]:
        if (bytes(obs["ret"]) if isinstance(obs["ret"], (bytes, bytearray)) else obs["ret"]) != exp["ret"]:
            v.append(("C10.result", tag, f"{op}: returned {obs['ret']!r:.80}, expected {exp['ret']!r:.80}"))
        if obs["effects"] != exp["effects"]:
            v.append(("C10.device-effect", tag, f"{op}: effects {obs['effects']!r:.120} expected {exp['effects']!r:.120}"))
    else:
        if cfg.get("cmd_exception"):
            v.append(("C10.error-not-raised", tag, f"{op}: device refused, cmd_exception=True, but no exception; returned {obs['ret']!r:.60}"))
        if obs["ret"] not in FAILISH:
            v.append(("C10.error-reported-as-success", tag, f"{op}: device refused, returned {obs['ret']!r:.60}"))
        if obs["effects"]:
            v.append(("C10.device-effect", tag + ":on-error", f"{op}: effects {obs['effects']!r:.100}"))
    return v


def judge_clean(op, obs, transport, cfg) -> list:
    """Fault-free oracle."""
    v = []
    exp = obs["exp"]
    tag = f"{transport}:{op[0]}"
    if transport == "hid" and op[0] == "read" and op[2] == 0:
        # the USB path splits a read into per-packet commands: a zero-length read sends nothing, so there is no
        # device answer to mirror; only "returns no data" is demanded
        return [] if obs.get("ret") in (b"", None) and not obs["effects"] else [("C10.result", tag + ":len0", f"{op}: {obs.get('ret')!r}")]
    if obs.get("horizon"):
        return [("C10.bounded-time", tag, f"{op}: horizon reached without faults")]
    if obs["errors"]:
        v.append(("C10.host-protocol-violation", f"{transport}:{obs['errors'][0].split(' of ')[0][:60]}", f"{op}: device model saw {obs['errors'][:3]}"))
    if "undocumented" in obs:
        v.append(("C10.undocumented-exception", f"{transport}:{obs['exc']}@{obs.get('site')}", f"{op}: {obs['undocumented']}"))
        return v
    ok_dev = exp["status"] == 0
    if "exc" in obs:
        if ok_dev:
            v.append(("C10.clean-op-raises", tag, f"{op}: raised {obs['exc']} although the device answered success"))
        elif not (cfg.get("cmd_exception") and obs["exc"] == "McuBootCommandError"):
            v.append(("C10.clean-op-raises", tag + ":" + obs["exc"], f"{op}: raised {obs['exc']} for device status {exp['status']}"))
        return v
    if obs["status"] != exp["status"]:
        v.append(("C10.status-mirror", tag, f"{op}: status_code {obs['status']} but the device sent {exp['status']}"))
    if ok_dev:
        if "image" in exp and obs.get("image") != exp["image"]:
            v.append(("C10.device-effect", tag + ":image", f"{op}: device received {len(obs.get('image', b''))} bytes, {len(exp['image'])} were given"))
        if obs["ret"] != exp["ret"]:
            v.append(("C10.result", tag, f"{op}: returned {obs['ret']!r:.80}, expected {exp['ret']!r:.80}"))
        if exp["effects"] is not None and obs["effects"] != exp["effects"]:
            v.append(("C10.device-effect", tag, f"{op}: effects {obs['effects']!r:.120} expected {exp['effects']!r:.120}"))
    else:
        if cfg.get("cmd_exception"):
            v.append(("C10.error-not-raised", tag, f"{op}: device status {exp['status']} with cmd_exception=True but no exception; returned {obs['ret']!r:.60}"))
        if obs["ret"] not in FAILISH and obs["status"] == 0:
            v.append(("C10.error-reported-as-success", tag, f"{op}: device status {exp['status']}, returned {obs['ret']!r:.60} with status_code 0"))
        if obs["effects"]:
            v.append(("C10.device-effect", tag + ":on-error", f"{op}: effects {obs['effects']!r:.100} although the device refused"))
    return v


def canon(dev, mb) -> tuple:
    import hashlib

    if not hasattr(dev, "props"):
        return (hashlib.sha1(bytes(dev.mem)).hexdigest()[:12], int(mb.status_code.tag), mb.hab_status, mb.cmd_status, mb.is_opened)
    return (hashlib.sha1(bytes(dev.mem)).hexdigest()[:12], tuple(sorted((k, tuple(v)) for k, v in dev.props.items())),
            tuple(sorted(dev.once.items())), mb.status_code, mb.max_packet_size, mb.is_opened, len(dev.sb_sink),
            dev.key_store, tuple(sorted(dev.user_keys.items())), len(dev.image_sink))


def w_bfs(task: dict) -> dict:
    """BFS over op sequences for one (transport, cfg)."""
    transport, cfg, depth = task["transport"], task["cfg"], task["depth"]
    viol = []
    seen = {}
    frontier = [()]
    transitions = 0
    outcomes = set()

    def build(hist):
        CLOCK.__init__()
        dev, link, fake, mb = make_any(transport, cfg, [])
        mb.open()
        for h in hist:
            run_op(dev, mb, h, cfg)
        return dev, link, fake, mb

    ops = SDP_OPS if is_sdp(transport) else OPS
    judge = judge_clean_sdp if is_sdp(transport) else judge_clean
    dev, link, fake, mb = build(())
    seen[canon(dev, mb)] = ()
    for d in range(1, depth + 1):
        nxt = []
        for hist in frontier:
            for op in ops:
                dev, link, fake, mb = build(hist)
                obs = run_op(dev, mb, op, cfg)
                transitions += 1
                for x in judge(op, obs, transport, cfg):
                    viol.append((x[0], x[1], x[2] + f" | cfg={cfg} history={list(hist)}"))
                outcomes.add((op[0], obs.get("exc"), obs["status"]))
                if "horizon" in obs:
                    continue
                k = canon(dev, mb)
                if k not in seen:
                    seen[k] = hist + (op,)
                    nxt.append(hist + (op,))
        frontier = nxt
        if not frontier:
            break
    return {"viol": core.dedupe(viol), "count": {"states": len(seen), "transitions": transitions}, "outcomes": len(outcomes),
            "closed": not frontier, "sample": [list(x) for x in list(seen.values())[-2:]]}


# ---------------------------------------------------------------------------------------------
# faults


def clean_trace(transport: str, cfg: dict, pre: list, op: tuple) -> dict:
    CLOCK.__init__()
    dev, link, fake, mb = make_any(transport, cfg, [])
    mb.open()
    for h in pre:
        run_op(dev, mb, h, cfg)
    start = len(link.out)
    serial = transport.endswith("serial")
    fstart = len(link.frames_sent) if serial else 0
    hstart = getattr(link, "host_frames", 0)
    obs = run_op(dev, mb, op, cfg)
    return {"obs": obs, "start": start, "end": len(link.out), "dev": dev_state(dev), "hframes": [hstart, getattr(link, "host_frames", 0)],
            "replen": [len(r) for r in link.out[start:]] if not serial else None,
            "repid": [r[0] if r else -1 for r in link.out[start:]] if not serial else None,
            "frames": [f for f in link.frames_sent[fstart:]] if serial else None}


def dev_state(dev) -> tuple:
    if hasattr(dev, "props"):
        return (bytes(dev.mem), tuple(sorted(dev.once.items())), dev.sb_sink, tuple(sorted((k, tuple(v)) for k, v in dev.props.items())),
                dev.key_store, tuple(sorted(dev.user_keys.items())), dev.image_sink)
    return (bytes(dev.mem), tuple(e for e in dev.effects if e[0] in ("jump", "skip_dcd")))


def fault_specs(transport: str, tr: dict, second: bool = False) -> list:
    out = []
    if transport == "serial":
        for pos in range(tr["start"], tr["end"]):
            for b in range(8):
                out.append(["flip", pos, b])
            out += [["drop", pos], ["truncate", pos], ["insert00", pos], ["pause", pos]]
        for off, kind, ln in tr["frames"]:
            out += [["nak", off], ["abort", off], ["dup", off]]
        # a NAK that the DEVICE means: it refuses the k-th command/data frame of the host (and does not consume it)
        for k in range(*tr.get("hframes", [0, 0])):
            out.append(["reject", k])
    elif transport == "sdp-serial":
        # the SDP byte stream has no checksum: corruption of *data* bytes is undetectable by any host, so value
        # faults are injected into the 4-byte HAB/completion words only; loss/timing faults everywhere
        # (a duplicated word is indistinguishable from data on an unframed stream: not injected)
        status_bytes = set()
        for off, kind, ln in tr["frames"]:
            if kind == "status":
                status_bytes |= set(range(off, off + ln))
        for pos in range(tr["start"], tr["end"]):
            if pos in status_bytes:
                for b in range(8):
                    out.append(["flip", pos, b])
            out += [["drop", pos], ["truncate", pos], ["pause", pos]]
    elif transport == "sdp-hid":
        # HID reports have a fixed size: only the 5-byte HAB reports are shortened; report-id flips on every report
        for idx in range(tr["start"], tr["end"]):
            out += [["drop", idx], ["truncate", idx], ["empty", idx]]
            if tr["replen"][idx - tr["start"]] == 5:
                out += [["short", idx, 1], ["short", idx, 3]]
            for b in range(8):
                out.append(["hdrflip", idx, 0, b])
    else:
        for idx in range(tr["start"], tr["end"]):
            out += [["drop", idx], ["truncate", idx], ["abort", idx], ["empty", idx], ["short", idx, 1], ["short", idx, 4]]
            # Duplicated reports are not injected over HID: the host truncates surplus *data* to the announced length by
            # design (fixed-size reports may be padded), and a duplicated command response is byte-identical to the next
            # response of the same type (initial vs final generic response of a data phase), so neither can be told from a
            # legal exchange by any host. (Serial frames are duplicated: the ACK handshake makes that detectable.)
            for byte in range(4):
                for b in range(8):
                    out.append(["hdrflip", idx, byte, b])
    return out


def settle(dev, link, fake) -> None:
    """Let the LINK settle before the follow-up: everything in flight is gone (the device gave up its pending frames,
    the host side of the OS driver was drained), so that only state kept inside the host OBJECT can still matter.  A
    link that stays out of step (stale USB reports, half a frame) is the fault continuing, not a new call."""
    for attr in ("inbuf", "pending"):
        if hasattr(fake, attr):
            getattr(fake, attr).clear()
    if hasattr(fake, "taken"):
        fake.taken = len(link.out)
        fake.pause_at = None
        fake.cut = False
    if hasattr(fake, "idx"):
        fake.idx = len(link.out)
        fake.cut = False
    for f in fake.faults:
        f.applied = True
    if hasattr(link, "queue"):
        link.queue.clear()
        link.await_ack = False
    if hasattr(link, "rx"):
        link.rx.clear()
    dev.din = None
    if hasattr(dev, "dout"):
        dev.dout = None


def base_follow_status(transport: str, cfg: dict) -> int:
    """Status a healthy follow-up read reports on this configuration (SDP: 2 = HAB locked is not a failure)."""
    if is_sdp(transport):
        return 2 if cfg.get("locked") else 0
    return 0


def _reduced_kind(transport: str, sp: list) -> bool:
    k = sp[0]
    if k == "flip":
        return sp[2] in (0, 7)
    if k == "hdrflip":
        return sp[3] == 0 and sp[2] in (0, 2)
    if k == "short":
        return sp[2] == 1
    return k in ("drop", "pause", "nak", "abort", "dup", "truncate", "empty", "reject")


def _trace_with(transport: str, cfg: dict, pre: list, op: tuple, faults: list) -> Optional[dict]:
    """Trace (stream extent, frames / report lengths) of the operation run WITH the given faults; None if it does not end."""
    CLOCK.__init__()
    dev, link, fake, mb = make_any(transport, cfg, faults)
    mb.open()
    for h in pre:
        run_op(dev, mb, h, cfg)
    start = len(link.out)
    serial = transport.endswith("serial")
    fstart = len(link.frames_sent) if serial else 0
    hstart = getattr(link, "host_frames", 0)
    try:
        obs = run_op(dev, mb, op, cfg)
    except Horizon:
        return None
    if obs.get("horizon"):
        return None
    return {"start": start, "end": len(link.out), "hframes": [hstart, getattr(link, "host_frames", 0)],
            "replen": [len(r) for r in link.out[start:]] if not serial else None,
            "repid": [r[0] if r else -1 for r in link.out[start:]] if not serial else None,
            "frames": [f for f in link.frames_sent[fstart:]] if serial else None}


def w_fault(task: dict) -> dict:
    transport, cfg, pre, op = task["transport"], task["cfg"], task["pre"], tuple(task["op"])
    base = clean_trace(transport, cfg, pre, op)
    if base["obs"].get("horizon") or "exc" in base["obs"]:
        # the fault-free run itself fails: that is the BFS's finding, there is no baseline to compare faults with
        return {"viol": [], "count": {"fault_executions": 0, "fault_tasks_without_baseline": 1}}
    specs = task.get("specs") or fault_specs(transport, base)
    viol = []
    outcomes: dict[str, int] = {}
    n = 0
    # two faults per execution (thorough, selected operations): the second fault ranges over the stream AS IT IS AFTER the
    # first one (retries, re-sent frames), positions strictly behind the first; both from a reduced kind alphabet
    if task.get("double"):
        singles = [sp for sp in specs if _reduced_kind(transport, sp)]
        i, k = task["double"]
        specs = []
        for f1 in singles[i::k]:
            t1 = _trace_with(transport, cfg, pre, op, [f1])
            if t1 is None:
                continue
            p1 = f1[1]
            for f2 in fault_specs(transport, t1):
                if f2[1] > p1 and _reduced_kind(transport, f2):
                    specs.append([f1, f2])
    for spec in specs:
        faults = spec if spec and isinstance(spec[0], list) else [spec]
        CLOCK.__init__()
        dev, link, fake, mb = make_any(transport, cfg, faults)
        mb.open()
        for h in pre:
            run_op(dev, mb, h, cfg)
        obs = run_op(dev, mb, op, cfg)
        n += 1
        tag = f"{transport}:{op[0]}:{faults[0][0]}" + ("+" + faults[1][0] if len(faults) > 1 else "")
        dev_after = dev_state(dev)
        # follow-up on the SAME host object, no further fault: state left behind by the failed/disturbed call (a buffer
        # that is only emptied on the normal exit, a stale cached value) must not turn a later healthy read into
        # "success with wrong data".  The link itself may be out of step after a fault: failing is fine, lying is not.
        if not obs.get("horizon"):
            fol = ("sread", 4, 8) if is_sdp(transport) else ("read", 0x10, 31)
            settle(dev, link, fake)
            try:
                o2 = run_op(dev, mb, fol, cfg)
            except Horizon:
                o2 = {"horizon": True}
            n += 1
            if not o2.get("horizon") and "exc" not in o2 and o2.get("status") == base_follow_status(transport, cfg) \
                    and o2.get("ret") not in FAILISH and bytes(o2["ret"]) != o2["exp"]["ret"]:
                viol.append(("C10.stale-state-after-fault", f"{transport}:{op[0]}:{faults[0][0]}",
                             f"{op} with fault {spec}, then a healthy {fol}: returned {bytes(o2['ret'])!r:.60} with success status, "
                             f"device memory holds {o2['exp']['ret']!r:.60} | cfg={cfg} pre={pre}"))
        if obs.get("horizon"):
            viol.append(("C10.bounded-time", tag, f"{op} with fault {spec}: no termination within the horizon | cfg={cfg} pre={pre}"))
            outcomes["horizon"] = outcomes.get("horizon", 0) + 1
            continue
        if "undocumented" in obs:
            viol.append(("C10.undocumented-exception", f"{transport}:{obs['exc']}@{obs.get('site')}", f"{op} with fault {spec}: {obs['undocumented']} | cfg={cfg} pre={pre}"))
            outcomes["undocumented"] = outcomes.get("undocumented", 0) + 1
            continue
        if "exc" in obs:
            outcomes["raised"] = outcomes.get("raised", 0) + 1
            continue
        same_ret = obs["ret"] == base["obs"]["ret"]
        same_result = same_ret and obs["status"] == base["obs"]["status"]
        same_device = dev_after == base["dev"]
        # SDP: status 2 ("HAB is locked") is information, not failure, when the fault-free run reports it too
        # a boolean True is a claim of success whatever status_code says ("False in case of any problem; True otherwise");
        # data results claim success together with a success status
        claims_success = obs["ret"] is True or \
            ((obs["status"] == 0 or (is_sdp(transport) and obs["status"] == base["obs"]["status"])) and obs["ret"] not in FAILISH)
        if same_result and same_device:
            outcomes["benign"] = outcomes.get("benign", 0) + 1
        elif same_ret and same_device:
            # right result, right device state, only status_code differs (e.g. a corrupted HAB word read as "locked")
            outcomes["status-only"] = outcomes.get("status-only", 0) + 1
        elif not claims_success:
            outcomes["failure-reported"] = outcomes.get("failure-reported", 0) + 1
        else:
            what = "wrong-result" if not same_result else "wrong-device-effect"
            viol.append(("C10.success-with-wrong-data", tag + ":" + what,
                         f"{op} with fault {spec}: returned {obs['ret']!r:.70} status {obs['status']}; fault-free run returns {base['obs']['ret']!r:.70}; "
                         f"device state equal: {same_device} | cfg={cfg} pre={pre}"))
            outcomes[what] = outcomes.get(what, 0) + 1
    return {"viol": core.dedupe(viol), "count": {"fault_executions": n, "stream_bytes": base["end"] - base["start"]}, "outcomes": outcomes}


# ---------------------------------------------------------------------------------------------



# ---------------------------------------------------------------------------------------------
# SDPS: one-way firmware download; the report size is negotiated per ROM and kept in a module-level table of the
# SDP bulk protocol, so the histories mix SDPS transfers to different ROM classes with SDP-over-HID transfers in one process


_SDPS_PARAMS: dict = {}
_HID_REPORT_AT_IMPORT: dict = {}


def _fresh_process_state() -> None:
    """Every history is meant to start in a fresh interpreter; the workers are long-lived, so the one piece of module-level
    state the SDP bulk protocol keeps (the report-size table) is put back to its value at import before and after a history."""
    from spsdk.sdp.protocol import bulk_protocol as bp

    if not _HID_REPORT_AT_IMPORT:
        _HID_REPORT_AT_IMPORT.update(dict(bp.HID_REPORT))
    bp.HID_REPORT.clear()
    bp.HID_REPORT.update(_HID_REPORT_AT_IMPORT)


def sdps_rom_params() -> dict:
    if not _SDPS_PARAMS:
        _SDPS_PARAMS.update(_sdps_rom_params())
        try:   # former device names are accepted as well; the name mapping (only that) is taken from SPSDK
            from spsdk.utils.database import DatabaseManager

            for old, new in DatabaseManager().quick_info.devices.get_predecessors(list(_SDPS_PARAMS)).items():
                if new in _SDPS_PARAMS and old not in _SDPS_PARAMS:
                    _SDPS_PARAMS[old] = _SDPS_PARAMS[new]
        except Exception:  # noqa
            pass
    return _SDPS_PARAMS


def _sdps_rom_params() -> dict:
    """family -> (no_cmd, hid_ep1, pack_size), read from the device description files with a plain YAML reader (not through
    the SPSDK database code); families without the parameters fall under the documented defaults (no command, 1020)."""
    import glob

    import yaml

    out = {}
    for f in sorted(glob.glob(os.path.join(core.REPO, "spsdk/data/devices/*/database.yaml"))):
        fam = os.path.basename(os.path.dirname(f))
        try:
            d = yaml.safe_load(open(f, encoding="utf-8"))
        except Exception:  # noqa
            continue
        isp = ((d.get("info") or {}).get("isp") or {})
        rom = isp.get("rom") or {}
        if "sdps" not in str(rom.get("protocol", "")).lower():
            continue
        pp = rom.get("protocol_params") or {}
        out[fam] = (bool(pp.get("no_cmd", True)), bool(pp.get("hid_ep1", True)), int(pp.get("hid_pack_size", 1020)))
    return out


def sdps_exec(hist: list, fault: Optional[list]) -> list:
    """Run a history of ("sdps", family, length, salt) / ("sdp_wf", addr, length) operations in this process; fault =
    [op index, report index, kind] makes the USB stack refuse one report of that operation. Returns per-op observations."""
    from spsdk.exceptions import SPSDKError
    from spsdk.sdp.interfaces.usb import SdpUSBInterface
    from spsdk.sdp.sdps import SDPS
    from spsdk.utils.interfaces.device.usb_device import UsbDevice
    from vf.ref import sdp_dev as sd

    params = sdps_rom_params()
    obs = []
    seen_sdps = False
    for i, op in enumerate(hist):
        o: dict[str, Any] = {"op": list(op)}
        if op[0] == "sdps":
            fam, n, salt = op[1], op[2], op[3]
            no_cmd, _ep1, ps = params[fam]
            dev = sd.SdpsDev(no_cmd, ps)
            if fault and fault[0] == i:
                dev.fail_at = (fault[1], fault[2])

            class _H:
                def Open(self, path):
                    return None

                def Close(self):
                    return None

                def Write(self, data, timeout_ms=0, _d=dev):
                    CLOCK.tick(1e-3)
                    return _d.host_write(bytes(data))

                def Read(self, length, timeout_ms=0):
                    CLOCK.tick((timeout_ms or 50) / 1000.0)
                    return (b"", -1)

            ud = UsbDevice(timeout=50)
            ud._device = _H()
            data = pat(n, salt)
            try:
                host = SDPS(SdpUSBInterface(ud), fam)
                host.open()
                o["ret"] = host.write_file(data)
                host.close()
            except Horizon:
                o["horizon"] = True
            except SPSDKError as e:
                o["exc"] = type(e).__name__
            except Exception as e:  # noqa
                o["exc"] = type(e).__name__
                o["undocumented"] = f"{type(e).__name__}: {e}"
            o.update({"errors": dev.errors[:3], "cbw": dev.cbw, "got": bytes(dev.data), "reports": dev.reports[:6], "nrep": len(dev.reports),
                      "want": data, "no_cmd": no_cmd, "ps": ps, "faulted": bool(fault and fault[0] == i and dev.n > fault[1])})
            seen_sdps = True
        else:
            dev, link, fake, host = make_sdp_system("sdp-hid", {}, [])
            link.lenient = seen_sdps
            host.open()
            r = run_op(dev, host, ("swrite_file", op[1], op[2]), {})
            o.update({"sdp": True, "judge": judge_clean_sdp(("swrite_file", op[1], op[2]), r, "sdp-hid", {})})
        obs.append(o)
    return obs


def sdps_judge(o: dict, pos: str) -> list:
    v = []
    if o.get("sdp"):
        return [(c, d + ":after-sdps" if pos != "first" else d, m) for c, d, m in o["judge"]]
    tag = f"sdps:{'cmd' if not o['no_cmd'] else 'nocmd'}-{o['ps']}:{pos}"
    op = o["op"]
    if o.get("horizon"):
        return [("C10.bounded-time", tag, f"{op}: horizon")]
    if "undocumented" in o:
        return [("C10.undocumented-exception", tag + ":" + o["exc"], f"{op}: {o['undocumented']}")]
    if o["faulted"]:
        if "exc" not in o:
            v.append(("C10.success-with-wrong-data", tag + ":refused-report-ignored", f"{op}: the USB stack refused a report, write_file returned normally; "
                      f"device holds {len(o['got'])} of {len(o['want'])} bytes"))
        elif o["exc"] != "SdpConnectionError":
            v.append(("C10.undocumented-exception", tag + ":" + o["exc"], f"{op}: documented exception is SdpConnectionError"))
        return v
    if "exc" in o:
        return [("C10.clean-op-raises", tag + ":" + o["exc"], f"{op}: raised {o['exc']} on a healthy link")]
    if o["errors"]:
        v.append(("C10.host-protocol-violation", tag + ":" + o["errors"][0][:40], f"{op}: ROM model saw {o['errors']}"))
    want, got = o["want"], o["got"]
    if got[:len(want)] != want or any(got[len(want):]) or len(got) - len(want) >= o["ps"]:
        v.append(("C10.data-integrity", tag, f"{op}: ROM received {len(got)} bytes, first difference at "
                  f"{next((k for k in range(min(len(got), len(want))) if got[k] != want[k]), min(len(got), len(want)))}; sent {len(want)}"))
    if not o["no_cmd"]:
        c = o["cbw"]
        if c is None:
            v.append(("C10.host-protocol-violation", tag + ":no-command-block", f"{op}: ROM with command phase got no command block"))
        elif (c["sig"], c["xfer"], c["flags"], c["cmd"], c["belen"]) != (sd_BLTC(), len(want), 0, 2, len(want)):
            v.append(("C10.command-fields", tag, f"{op}: command block {c}, length {len(want)}"))
    return v


def sd_BLTC() -> int:
    from vf.ref import sdp_dev as sd

    return sd.BLTC


def w_sdps(task: dict) -> dict:
    CLOCK.__init__()
    hist, fault = [tuple(h) for h in task["hist"]], task.get("fault")
    _fresh_process_state()
    try:
        obs = sdps_exec(hist, fault)
    finally:
        _fresh_process_state()
    viol = []
    for i, o in enumerate(obs):
        pos = "first" if i == 0 else "after:" + "+".join(sorted({("sdp" if h[0] == "sdp_wf" else "sdps") for h in hist[:i]}))
        for c, d, m in sdps_judge(o, pos):
            viol.append((c, d, m + f" | history={hist} fault={fault}"))
    outs = [("sdp" if o.get("sdp") else (o.get("exc"), o.get("nrep"), bool(o.get("cbw")))) for o in obs]
    return {"viol": core.dedupe(viol), "count": {"sdps_executions": 1, "sdps_fault_executions": 1 if fault else 0}, "distinct": [core.jdump(outs)],
            "nrep": [o.get("nrep", 0) for o in obs]}


def sdps_tasks(tier: str) -> list:
    params = sdps_rom_params()
    classes: dict[tuple, list] = {}
    for fam, p in params.items():
        classes.setdefault((p[0], p[2]), []).append(fam)
    reps = [sorted(v)[0] for _, v in sorted(classes.items())]
    tasks = [{"hist": [["sdps", fam, params[fam][2] + 1, 0]]} for fam in sorted(params)]     # every family at the base transfer
    alpha = []
    for fam in reps:
        ps = params[fam][2]
        lens = [1, ps - 1, ps, ps + 1, 2 * ps + 5] if tier == "quick" else [0, 1, 30, 31, 32, ps - 1, ps, ps + 1, 2 * ps - 1, 2 * ps, 2 * ps + 5, 3 * ps + 1]
        alpha += [["sdps", fam, n, k & 0xFF] for k, n in enumerate(lens)]
    alpha += [["sdp_wf", 0x300, 1024], ["sdp_wf", 0x400, 1500]] if tier != "quick" else [["sdp_wf", 0x400, 1500]]
    depth = 2 if tier == "quick" else 3
    hists = [[a] for a in alpha]
    level = hists
    for _ in range(depth - 1):
        if tier != "quick" and len(level[0]) == 2:
            heads = [a for a in alpha if a[0] == "sdp_wf" or a[2] in (1, params[a[1]][2] + 1)]   # depth 3: reduced first two positions
            level = [[a, b] for a in heads for b in heads]
        level = [h + [a] for h in level for a in alpha]
        hists += level
    tasks += [{"hist": h} for h in hists]
    # refused report at every position of every single transfer and of the second transfer of a pair
    for fam in reps:
        ps = params[fam][2]
        for n in ([1, ps + 1, 2 * ps + 5] if tier == "quick" else [1, ps, ps + 1, 2 * ps + 5, 3 * ps + 1]):
            nrep = (0 if params[fam][0] else 1) + -(-n // ps)
            for k in range(nrep):
                for kind in ("short", "neg", "raise"):
                    tasks.append({"hist": [["sdps", fam, n, 9]], "fault": [0, k, kind]})
                    tasks.append({"hist": [["sdp_wf", 0x400, 1500], ["sdps", fam, n, 9]], "fault": [1, k, kind]})
    return tasks


def configs(tier: str) -> list:
    out = []
    for mp in (32, 56, None) + ((1016,) if tier == "thorough" else ()):
        out.append({"max_packet": mp})
    out.append({"max_packet": 32, "cmd_status": md.FAIL})
    out.append({"max_packet": 32, "final_status": md.FAIL})
    out.append({"max_packet": 32, "cmd_exception": True})
    out.append({"max_packet": 32, "cmd_status": md.FAIL, "cmd_exception": True})
    out.append({"max_packet": 32, "final_status": md.FAIL, "cmd_exception": True})
    return out


def run(ctx: core.Ctx) -> None:
    depth = 2 if ctx.tier == "quick" else 3
    tasks = [{"transport": t, "cfg": c, "depth": depth} for t in ("serial", "hid") for c in configs(ctx.tier)]
    sdp_cfgs = [{}, {"locked": True}, {"fail_writes": True}, {"cmd_exception": True}, {"fail_writes": True, "cmd_exception": True}]
    tasks += [{"transport": t, "cfg": c, "depth": depth} for t in ("sdp-serial", "sdp-hid") for c in sdp_cfgs]
    per = {}
    for case, res in ctx.pool_map(w_bfs, tasks, timeout=1500, chunksize=1, initfn=install_clock, check_det=1):
        if ctx.absorb(case, res):
            per[f"{case['transport']}|{core.jdump(case['cfg'])}"] = {"states": res["count"]["states"], "transitions": res["count"]["transitions"],
                                                                   "distinct_outcomes": res["outcomes"], "state_space_closed": res["closed"]}
            if len(ctx.samples) < 3:
                ctx.sample({"system": case, "histories": res["sample"]})
    # fault injection
    ftasks = []
    fault_ops = [op for op in OPS if op not in (("read", 0, 0), ("write", 0x1FFF, 2), ("read", 0x1FFF, 2), ("set_property", 5, 1), ("fill", 0x41, 8, 1))]
    if ctx.tier == "quick":
        fault_ops = [("get_property", 1), ("get_property", 99), ("set_property", 10, 0), ("read", 0x10, 31), ("read", 0x20, 33), ("write", 0x10, 31),
                     ("write", 0x21, 33), ("fill", 0x40, 8, 0xA5A5A5A5), ("erase", 0x100, 0x20), ("program_once", 3, 4), ("read_once", 3),
                     ("efuse_verify", 4, 0xF0), ("sb", 70), ("reset",), ("kp_write_key_store", 70), ("kp_read_key_store",), ("load_image", 137)]
    fcfgs = [{"max_packet": 32}, {"max_packet": 32, "cmd_exception": True}]
    if ctx.tier == "thorough":
        fcfgs += [{"max_packet": None}, {"max_packet": 56}, {"max_packet": 32, "final_status": md.FAIL}]
    pres = [[], [("write", 0, 32)]] if ctx.tier == "quick" else [[], [("write", 0, 32)], [("get_property", 11)], [("read", 0, 32), ("write", 8, 100)]]
    for t in ("serial", "hid"):
        for c in fcfgs:
            for pre in pres:
                for op in fault_ops:
                    ftasks.append({"transport": t, "cfg": c, "pre": [list(p) for p in pre], "op": list(op)})
    sdp_fault_ops = [op for op in SDP_OPS if op not in (("sread_safe", 0x21, 4, 32), ("swrite_safe", 0x49, 1, 4, 32))]
    if ctx.tier == "quick":
        sdp_fault_ops = [("sread", 4, 4), ("sread", 8, 65), ("swrite", 0x40, 0x11223344, 4, 32), ("swrite_file", 0x200, 64), ("swrite_file", 0x400, 1500),
                         ("swrite_dcd", 0x80, 40), ("sskip_dcd",), ("sjump", 0x1000), ("sread_status",)]
    for t in ("sdp-serial", "sdp-hid"):
        for c in ([{}, {"cmd_exception": True}] + ([{"locked": True}] if ctx.tier == "thorough" else [])):
            for pre in ([[]] if ctx.tier == "quick" else [[], [("swrite_file", 0x100, 1)]]):
                for op in sdp_fault_ops:
                    ftasks.append({"transport": t, "cfg": c, "pre": [list(p) for p in pre], "op": list(op)})
    if ctx.tier == "thorough":
        dbl_ops = [("get_property", 1), ("read", 0x10, 31), ("write", 0x10, 31), ("fill", 0x40, 8, 0xA5A5A5A5), ("sb", 70), ("read_once", 3)]
        for t in ("serial", "hid"):
            for op in dbl_ops:
                for i in range(16):
                    ftasks.append({"transport": t, "cfg": {"max_packet": 32}, "pre": [], "op": list(op), "double": [i, 16]})
        for t in ("sdp-serial", "sdp-hid"):
            for op in (("sread", 4, 4), ("swrite", 0x40, 0x11223344, 4, 32), ("swrite_file", 0x200, 64)):
                for i in range(8):
                    ftasks.append({"transport": t, "cfg": {}, "pre": [], "op": list(op), "double": [i, 8]})
    fo: dict[str, int] = {}
    for case, res in ctx.pool_map(w_fault, ftasks, timeout=1500, chunksize=1, initfn=install_clock, check_det=1):
        if ctx.out_of_budget():
            break
        if ctx.absorb(case, res):
            for k, n in res.get("outcomes", {}).items():
                fo[k] = fo.get(k, 0) + n
    # SDPS
    stasks = sdps_tasks(ctx.tier)
    sdps_n = sdps_f = 0
    sdps_out = set()
    for case, res in ctx.pool_map(w_sdps, stasks, timeout=60, chunksize=8, initfn=install_clock, check_det=2):
        if ctx.out_of_budget():
            break
        if ctx.absorb(case, res):
            sdps_n += 1
            sdps_f += 1 if case.get("fault") else 0
            sdps_out.update(res.get("distinct", ()))
    if sdps_n and not any(n > 1 for n in [0]) and len(sdps_out) < 4:
        raise core.HarnessError("SDPS exploration is vacuous: fewer than 4 distinct observation shapes")
    ctx.cov["sdps"] = {"histories": sdps_n - sdps_f, "refused_report_executions": sdps_f, "distinct_observation_shapes": len(sdps_out),
                       "rom_classes": sorted({f"{'cmd' if not p[0] else 'nocmd'}-{p[2]}" for p in sdps_rom_params().values()}),
                       "families_at_base": len(sdps_rom_params())}
    ctx.sample({"sdps_history": stasks[-1]})
    ctx.sample({"fault_task": ftasks[0], "fault_kinds_serial": ["flip(bit)", "drop", "truncate", "insert00", "pause(short read)", "nak", "abort", "dup", "reject(device NAKs and discards the k-th host frame)"],
                "fault_kinds_hid": ["drop", "truncate", "abort(zero-length)", "dup", "empty", "short", "hdrflip(byte,bit)"]})
    ctx.cov["states"] = ctx.counters.get("states", 0)
    ctx.cov["transitions"] = ctx.counters.get("transitions", 0)
    ctx.cov["traces_validated_against_impl"] = ctx.counters.get("transitions", 0) + ctx.counters.get("fault_executions", 0) + ctx.counters.get("sdps_executions", 0)
    ctx.cov["evaluations"] = ctx.cov["traces_validated_against_impl"]
    ctx.cov["distinct_nontrivial"] = ctx.counters.get("states", 0)
    ctx.cov["fault_executions"] = ctx.counters.get("fault_executions", 0)
    ctx.cov["fault_outcomes"] = fo
    ctx.cov["per_system"] = per
    ctx.cov["depth"] = depth
    ctx.rule = ("fault-free: BFS over all sequences of 32 operations (boundary addresses/lengths) up to the depth per (transport, device "
                "configuration), canonical state = (device memory digest, properties, program-once words, host status code, cached packet "
                "size, open flag, SB sink length); faults: for every listed single operation (from 2-4 pre-histories) every byte offset of "
                "the device->host stream x {8 bit flips, drop, truncate, insert 0x00, short read} and every frame x {NAK, ABORT, duplicate} "
                "(serial) / every report x {drop, truncate, zero-length, duplicate, empty, short, 32 header bit flips} (HID); every execution "
                "runs the real McuBoot stack; thorough adds two faults per execution for 6 McuBoot and 3 SDP operations: first fault from a "
                "reduced kind alphabet at every position, second fault at every later position of the stream as it is after the first; "
                "distinct_nontrivial = canonical states reached")
    ctx.assumptions += ["the reference bootloader in vf/ref/mboot_dev.py is the protocol definition (written from the documented framing and packet layouts)",
                        "USB-HID payload corruption is undetectable by any host (no checksum in the report) and is not injected; header/length/"
                        "sequence faults are", "SDP has no checksum at all: value faults are injected into HAB/completion words only, duplicated words/reports are not injected (indistinguishable from data)", "SDPS: firmware download over USB-HID only (every family at a base transfer; histories of transfers to the three ROM classes mixed with SDP-over-HID "
                        "transfers in one process; every report refused by the USB stack in three ways); the buspal/usbsio/CAN/SDIO device classes are not explored"]


def replay(ctx: core.Ctx, rec: dict) -> bool:
    install_clock()
    case = rec["case"]
    res = w_bfs(case) if "depth" in case else (w_sdps(case) if "hist" in case else w_fault(case))
    hits = [v for v in res["viol"] if v[0] == rec["clause"] and v[1] == rec["disc"]]
    for h in hits[:3]:
        print(h)
    return bool(hits)
