"""C09 - ciphers, MACs, hashes, CRCs, KDFs (engine E6: exhaustive sweeps against vf.ref.*).

A *task* (= case, = replay unit) is a small dict naming one wrapper family, one key size and one
key pattern; the worker sweeps the full product of the remaining dimensions (IV argument incl.
"left at its default", message pattern, every message length) and compares every call of the
real spsdk function with the independent pure-Python reference.

Clauses (per function <fn>):
  C09.<fn>-value            accepted legal input, output differs from the reference
  C09.<fn>-rejects-legal    legal input (per the standard and the documented signature) raises
  C09.<fn>-accepts-illegal  input outside the standard's domain is not refused
  C09.<pair>-roundtrip      decrypt(encrypt(m)) != m (CBC: m zero-padded to the block size)
  C09.<fn>-repeatable       the same call twice gives different answers (hidden state)
  ... plus named clauses for Counter, CCM/key-wrap tampering, validators.
Discriminator = failure kind + the *dimensions in which the failing set is smaller than the
tried set* (e.g. "raises-SPSDKError;iv=default"), never the concrete message.
"""
from __future__ import annotations

import os
from typing import Any, Callable

from vf import core

LEVEL = "exploration"

BIG_LENS = [255, 256, 257, 4095, 4096, 4097]


# ---------------------------------------------------------------------------------------------
# helpers


def P(name: str, n: int, seed: int, tag: str) -> bytes:
    """Byte pattern `name` of length n (only 'seeded*' depends on VERIF_SEED)."""
    if name == "zeros":
        return bytes(n)
    if name == "ones":
        return b"\xff" * n
    if name == "counter":
        return bytes(i & 0xFF for i in range(n))
    if name == "msgctr":
        return bytes((i * 7 + 1) & 0xFF for i in range(n))
    if name == "zeros+ones":
        return bytes(n // 2) + b"\xff" * (n - n // 2)
    if name == "ones+zeros":
        return b"\xff" * (n // 2) + bytes(n - n // 2)
    if name == "low32-ones":
        return core.seeded_bytes(seed, "l32|" + tag, n - 4) + b"\xff" * 4
    if name == "low64-ones":
        return core.seeded_bytes(seed, "l64|" + tag, n - 8) + b"\xff" * 8
    if name.startswith("seeded"):
        return core.seeded_bytes(seed, name + "|" + tag, n)
    raise core.HarnessError(f"unknown pattern {name}")


def lenclass(n: int) -> str:
    if n == 0:
        return "empty"
    if n < 16:
        return "partial"
    if n == 16:
        return "one-block"
    return "aligned" if n % 16 == 0 else "unaligned"


def _h(v: Any) -> str:
    if isinstance(v, (bytes, bytearray)):
        v = bytes(v)
        if not v:
            return "b''"
        return v.hex() if len(v) <= 40 else f"{v[:32].hex()}..({len(v)}B)"
    return repr(v)


def call(fn: Callable, *a, **kw):
    from spsdk.exceptions import SPSDKError

    try:
        return ("ok", fn(*a, **kw))
    except SPSDKError as e:
        return ("SPSDKError", str(e)[:120])
    except Exception as e:  # noqa  (Watchdog is a BaseException and passes through)
        return (type(e).__name__, str(e)[:120])


class Tally:
    """Collects evaluations; computes discriminators from the shape of the failing set."""

    def __init__(self) -> None:
        self.tried: dict = {}
        self.fail: dict = {}
        self.cnt: dict = {}
        self.notes: set = set()

    def count(self, k: str, n: int = 1) -> None:
        self.cnt[k] = self.cnt.get(k, 0) + n

    def _tried(self, group: str, dims: dict) -> None:
        g = self.tried.setdefault(group, {})
        for d, v in dims.items():
            g.setdefault(d, set()).add(v)

    def _fail(self, clause: str, kind: str, group: str, dims: dict, detail: str) -> None:
        f = self.fail.setdefault((clause, kind, group), {"dims": {}, "detail": detail, "n": 0})
        f["n"] += 1
        for d, v in dims.items():
            f["dims"].setdefault(d, set()).add(v)
        if len(detail) < len(f["detail"]):
            f["detail"] = detail

    # -- evaluation kinds ------------------------------------------------------------------
    def legal(self, fn: str, dims: dict, got, exp, detail: str) -> bool:
        self._tried(fn + "/legal", dims)
        self.count("legal_evaluations")
        st, val = got
        if st == "ok":
            if isinstance(val, (bytes, bytearray)):
                val = bytes(val)
            if val == exp:
                return True
            self._fail(f"C09.{fn}-value", "wrong-output", fn + "/legal", dims,
                       f"{detail} -> {_h(val)}, reference {_h(exp)}")
        else:
            self._fail(f"C09.{fn}-rejects-legal", f"raises-{st}", fn + "/legal", dims, f"{detail} raised {st}: {val}")
        return False

    def illegal(self, fn: str, dims: dict, got, detail: str, need_spsdk: bool = False) -> None:
        self._tried(fn + "/illegal", dims)
        self.count("illegal_evaluations")
        st, val = got
        if st == "ok":
            self._fail(f"C09.{fn}-accepts-illegal", "accepted", fn + "/illegal", dims, f"{detail} -> {_h(val)}")
        else:
            self.count("rejected")
            if need_spsdk and st != "SPSDKError":
                # the docstring promises SPSDKError; the property does not speak about error types of
                # inputs outside the domain, so this is recorded, not judged
                self.count("refused_with_undocumented_error_type")
                self.notes.add(f"{detail} raised {st} (docstring: SPSDKError)")

    def either(self, fn: str, got, exp) -> None:
        """Inputs on which the standard is silent / OpenSSL applies a policy: if accepted the value must match."""
        self.count("policy_evaluations")
        if got[0] != "ok":
            self.count("rejected")

    def prop(self, clause: str, dims: dict, ok: bool, kind: str, detail: str) -> bool:
        self._tried(clause, dims)
        self.count("property_evaluations")
        if not ok:
            self._fail(clause, kind, clause, dims, detail)
        return ok

    def result(self) -> dict:
        viol = []
        for (clause, kind, group), f in sorted(self.fail.items()):
            parts = []
            tried = self.tried.get(group, {})
            for d in sorted(f["dims"]):
                if f["dims"][d] != tried.get(d, set()):
                    parts.append(f"{d}=" + "|".join(sorted(map(str, f["dims"][d]))))
            disc = kind + (";" + ",".join(parts) if parts else "")
            viol.append((clause, disc, f"{f['detail']}  [{f['n']} failing evaluations in this task]", group))
        tried = {g: {d: sorted(map(str, v)) for d, v in dd.items()} for g, dd in sorted(self.tried.items())}
        return {"viol": core.dedupe(viol), "count": dict(self.cnt), "tried": tried, "notes": sorted(self.notes)[:20]}


def _lens(case: dict) -> list:
    return list(range(0, case["maxlen"] + 1)) + list(case.get("big", []))


# ---------------------------------------------------------------------------------------------
# block cipher wrappers


def w_cbc(case: dict, t: Tally) -> None:
    import spsdk.crypto.symmetric as S
    from vf.ref import aes as R

    seed = case["seed"]
    sm4 = case["mode"] == "sm4cbc"
    ename, dname = ("sm4_cbc_encrypt", "sm4_cbc_decrypt") if sm4 else ("aes_cbc_encrypt", "aes_cbc_decrypt")
    pair = "sm4_cbc" if sm4 else "aes_cbc"
    enc, dec = getattr(S, ename), getattr(S, dname)
    key = P(case["kpat"], case["klen"], seed, "key")
    ref = R.SM4(key) if sm4 else R.AES(key)
    ivs = [(nm, P(nm, 16, seed, "iv")) for nm in case["ivpats"]] + [("default", None)]
    kd = f"key={key.hex()}"
    for mp in case["mpats"]:
        for n in _lens(case):
            if n > case["maxlen"] and not case.get("bigall") and mp != case["mpats"][-1]:
                continue
            m = P(mp, n, seed, "msg")
            padded = m + bytes(-n % 16)
            lc = lenclass(n)
            outs = {}
            for ivname, iv in ivs:
                eff = iv if iv is not None else bytes(16)
                dims = {"iv": ivname, "len": lc, "msg": mp, "klen": case["klen"], "kpat": case["kpat"]}
                exp_ct = R.cbc_encrypt(ref, eff, padded)
                a = (key, m) if iv is None else (key, m, iv)
                got = call(enc, *a)
                outs[ivname] = got
                t.legal(ename, dims, got, exp_ct, f"{ename}({kd}, data={_h(m)}, iv={_h(iv)})")
                a = (key, exp_ct) if iv is None else (key, exp_ct, iv)
                gd = call(dec, *a)
                t.legal(dname, dims, gd, padded, f"{dname}({kd}, data={_h(exp_ct)}, iv={_h(iv)})")
                if n in (0, 16, 33):
                    t.prop(f"C09.{ename}-repeatable", {"iv": ivname}, call(enc, *((key, m) if iv is None else (key, m, iv))) == got,
                           "differs", f"{ename} twice on the same input")
            # round trips: same IV argument on both sides, defaults on both, default vs explicit zeros
            combos = [(nm, iv, nm, iv) for nm, iv in ivs]
            combos += [("default", None, "zeros-explicit", bytes(16)), ("zeros-explicit", bytes(16), "default", None)]
            for en, eiv, dn, div in combos:
                ct = outs.get(en) or call(enc, key, m, eiv)
                if ct[0] != "ok":
                    continue
                a = (key, ct[1]) if div is None else (key, ct[1], div)
                back = call(dec, *a)
                dims = {"enc_iv": "default" if eiv is None else "explicit",
                        "dec_iv": "default" if div is None else "explicit", "len": lc}
                ok = back[0] == "ok" and bytes(back[1]) == padded
                t.prop(f"C09.{pair}-roundtrip", dims, ok,
                       "wrong-output" if back[0] == "ok" else f"raises-{back[0]}",
                       f"{dname}({kd}, {ename}({kd}, {_h(m)}, iv={_h(eiv)}), iv={_h(div)}) -> {back[0]}:{_h(back[1])}")
            # ciphertext that is not a whole number of blocks must be refused by decrypt
            if n % 16:
                t.illegal(dname, {"what": "unaligned-ciphertext"}, call(dec, key, m, bytes(16)),
                          f"{dname}({kd}, data={_h(m)}, iv=0^16)")
    for bad in (1, 15, 17, 32, 128):
        t.illegal(ename, {"what": f"iv-len={bad}"}, call(enc, key, bytes(16), bytes(bad)),
                  f"{ename}({kd}, 0^16, iv=bytes({bad}))", need_spsdk=True)
        t.illegal(dname, {"what": f"iv-len={bad}"}, call(dec, key, bytes(16), bytes(bad)),
                  f"{dname}({kd}, 0^16, iv=bytes({bad}))", need_spsdk=True)


def w_ecb(case: dict, t: Tally) -> None:
    import spsdk.crypto.symmetric as S
    from vf.ref import aes as R

    seed = case["seed"]
    key = P(case["kpat"], case["klen"], seed, "key")
    ref = R.AES(key)
    kd = f"key={key.hex()}"
    for mp in case["mpats"]:
        for n in _lens(case):
            m = P(mp, n, seed, "msg")
            dims = {"len": lenclass(n), "msg": mp, "klen": case["klen"], "kpat": case["kpat"]}
            if n % 16:
                t.illegal("aes_ecb_encrypt", {"what": "unaligned"}, call(S.aes_ecb_encrypt, key, m), f"aes_ecb_encrypt({kd}, {_h(m)})")
                t.illegal("aes_ecb_decrypt", {"what": "unaligned"}, call(S.aes_ecb_decrypt, key, m), f"aes_ecb_decrypt({kd}, {_h(m)})")
                continue
            exp = R.ecb_encrypt(ref, m)
            got = call(S.aes_ecb_encrypt, key, m)
            t.legal("aes_ecb_encrypt", dims, got, exp, f"aes_ecb_encrypt({kd}, {_h(m)})")
            t.legal("aes_ecb_decrypt", dims, call(S.aes_ecb_decrypt, key, m), R.ecb_decrypt(ref, m),
                    f"aes_ecb_decrypt({kd}, {_h(m)})")
            if got[0] == "ok":
                back = call(S.aes_ecb_decrypt, key, got[1])
                t.prop("C09.aes_ecb-roundtrip", {"len": lenclass(n)}, back == ("ok", m),
                       "wrong-output" if back[0] == "ok" else f"raises-{back[0]}", f"ecb round trip {kd} m={_h(m)}")
    if case.get("onehot"):
        # known-answer style: every single key bit and every single text bit
        for i in range(8 * case["klen"]):
            k1 = (1 << i).to_bytes(case["klen"], "big")
            t.legal("aes_ecb_encrypt", {"kpat": "one-hot", "klen": case["klen"], "len": "one-block", "msg": "zeros"},
                    call(S.aes_ecb_encrypt, k1, bytes(16)), R.AES(k1).encrypt_block(bytes(16)),
                    f"aes_ecb_encrypt(key={k1.hex()}, 0^16)")
        for i in range(128):
            b = (1 << i).to_bytes(16, "big")
            t.legal("aes_ecb_encrypt", {"kpat": case["kpat"], "klen": case["klen"], "len": "one-block", "msg": "one-hot"},
                    call(S.aes_ecb_encrypt, key, b), ref.encrypt_block(b), f"aes_ecb_encrypt({kd}, {b.hex()})")
            t.legal("aes_ecb_decrypt", {"kpat": case["kpat"], "klen": case["klen"], "len": "one-block", "msg": "one-hot"},
                    call(S.aes_ecb_decrypt, key, b), ref.decrypt_block(b), f"aes_ecb_decrypt({kd}, {b.hex()})")


def w_ctr(case: dict, t: Tally) -> None:
    import spsdk.crypto.symmetric as S
    from vf.ref import aes as R

    seed = case["seed"]
    key = P(case["kpat"], case["klen"], seed, "key")
    ref = R.AES(key)
    kd = f"key={key.hex()}"
    for ivname in case["ivpats"]:
        nonce = P(ivname, 16, seed, "nonce")
        for mp in case["mpats"]:
            for n in _lens(case):
                if n > case["maxlen"] and mp != case["mpats"][-1]:
                    continue
                m = P(mp, n, seed, "msg")
                dims = {"nonce": ivname, "len": lenclass(n), "msg": mp, "klen": case["klen"], "kpat": case["kpat"]}
                exp = R.ctr_crypt(ref, nonce, m)
                got = call(S.aes_ctr_encrypt, key, m, nonce)
                t.legal("aes_ctr_encrypt", dims, got, exp, f"aes_ctr_encrypt({kd}, {_h(m)}, nonce={nonce.hex()})")
                t.legal("aes_ctr_decrypt", dims, call(S.aes_ctr_decrypt, key, m, nonce), exp,
                        f"aes_ctr_decrypt({kd}, {_h(m)}, nonce={nonce.hex()})")
                if got[0] == "ok":
                    back = call(S.aes_ctr_decrypt, key, got[1], nonce)
                    t.prop("C09.aes_ctr-roundtrip", {"len": lenclass(n), "nonce": ivname}, back == ("ok", m),
                           "wrong-output" if back[0] == "ok" else f"raises-{back[0]}",
                           f"ctr round trip {kd} nonce={nonce.hex()} m={_h(m)}")
    for bad in (0, 8, 12, 15, 17):
        t.illegal("aes_ctr_encrypt", {"what": f"nonce-len={bad}"}, call(S.aes_ctr_encrypt, key, bytes(16), bytes(bad)),
                  f"aes_ctr_encrypt({kd}, 0^16, nonce=bytes({bad}))")
        t.illegal("aes_ctr_decrypt", {"what": f"nonce-len={bad}"}, call(S.aes_ctr_decrypt, key, bytes(16), bytes(bad)),
                  f"aes_ctr_decrypt({kd}, 0^16, nonce=bytes({bad}))")


def w_xts(case: dict, t: Tally) -> None:
    import spsdk.crypto.symmetric as S
    from vf.ref import aes as R

    seed = case["seed"]
    key = P(case["kpat"], case["klen"], seed, "key")
    half = case["klen"] // 2
    dup = key[:half] == key[half:]
    kd = f"key={key.hex()}"
    for twname in case["ivpats"]:
        tweak = P(twname, 16, seed, "tweak")
        for mp in case["mpats"]:
            for n in _lens(case):
                if n > case["maxlen"] and mp != case["mpats"][-1]:
                    continue
                m = P(mp, n, seed, "msg")
                det = f"({kd}, {_h(m)}, tweak={tweak.hex()})"
                if 0 < n < 16:
                    t.illegal("aes_xts_encrypt", {"what": "shorter-than-block"}, call(S.aes_xts_encrypt, key, m, tweak), "aes_xts_encrypt" + det)
                    t.illegal("aes_xts_decrypt", {"what": "shorter-than-block"}, call(S.aes_xts_decrypt, key, m, tweak), "aes_xts_decrypt" + det)
                    continue
                got = call(S.aes_xts_encrypt, key, m, tweak)
                gd = call(S.aes_xts_decrypt, key, m, tweak)
                if n == 0 or dup:
                    # IEEE 1619 does not define the empty data unit; OpenSSL refuses key1 == key2 (FIPS policy)
                    t.either("aes_xts_encrypt", got, None)
                    if n and got[0] == "ok":
                        t.legal("aes_xts_encrypt", {"kpat": case["kpat"]}, got, R.xts_encrypt(key, tweak, m), "aes_xts_encrypt" + det)
                    continue
                dims = {"tweak": twname, "len": lenclass(n), "msg": mp, "klen": case["klen"], "kpat": case["kpat"]}
                exp = R.xts_encrypt(key, tweak, m)
                t.legal("aes_xts_encrypt", dims, got, exp, "aes_xts_encrypt" + det)
                t.legal("aes_xts_decrypt", dims, gd, R.xts_decrypt(key, tweak, m), "aes_xts_decrypt" + det)
                if got[0] == "ok":
                    back = call(S.aes_xts_decrypt, key, got[1], tweak)
                    t.prop("C09.aes_xts-roundtrip", {"len": lenclass(n), "tweak": twname}, back == ("ok", m),
                           "wrong-output" if back[0] == "ok" else f"raises-{back[0]}", "xts round trip " + det)
    for bad in (0, 8, 15, 17):
        t.illegal("aes_xts_encrypt", {"what": f"tweak-len={bad}"}, call(S.aes_xts_encrypt, key, bytes(32), bytes(bad)),
                  f"aes_xts_encrypt({kd}, 0^32, tweak=bytes({bad}))")


def _flip(b: bytes, i: int) -> bytes:
    x = bytearray(b)
    x[i] ^= 1
    return bytes(x)


def w_ccm(case: dict, t: Tally) -> None:
    import spsdk.crypto.symmetric as S
    from vf.ref import aes as R

    seed = case["seed"]
    key = P(case["kpat"], case["klen"], seed, "key")
    ref = R.AES(key)
    kd = f"key={key.hex()}"
    nlen = case["nlen"]
    nonce = P(case["npat"], nlen, seed, "nonce")
    for taglen in case["tags"]:
        for alen in case["aads"]:
            aad = P("msgctr", alen, seed, "aad")
            for n in _lens(case):
                if n > case["maxlen"] and (taglen != 16 or alen not in (0, 17)):
                    continue
                if alen >= 100 and taglen == 8 and n not in (0, 16):
                    continue
                m = P(case["mpat"], n, seed, "msg")
                dims = {"nonce-len": nlen, "tag": taglen, "aad": alen if alen < 100 else "long", "len": lenclass(n),
                        "klen": case["klen"], "kpat": case["kpat"], "args": "explicit"}
                det = f"({kd}, {_h(m)}, nonce={nonce.hex()}, aad={_h(aad)}, tag_len={taglen})"
                exp = R.ccm_encrypt(ref, nonce, m, aad, taglen)
                got = call(S.aes_ccm_encrypt, key, m, nonce, aad, taglen)
                t.legal("aes_ccm_encrypt", dims, got, exp, "aes_ccm_encrypt" + det)
                t.legal("aes_ccm_decrypt", dims, call(S.aes_ccm_decrypt, key, exp, nonce, aad, taglen), m,
                        f"aes_ccm_decrypt({kd}, {_h(exp)}, nonce={nonce.hex()}, aad={_h(aad)}, tag_len={taglen})")
                # optional parameters left at their defaults (associated_data=b'', tag_len=16)
                if taglen == 16:
                    d2 = dict(dims, args="tag-default")
                    t.legal("aes_ccm_encrypt", d2, call(S.aes_ccm_encrypt, key, m, nonce, aad), exp,
                            f"aes_ccm_encrypt({kd}, {_h(m)}, nonce={nonce.hex()}, aad={_h(aad)})")
                    t.legal("aes_ccm_decrypt", d2, call(S.aes_ccm_decrypt, key, exp, nonce, aad), m,
                            f"aes_ccm_decrypt({kd}, {_h(exp)}, nonce={nonce.hex()}, aad={_h(aad)})")
                    if alen == 0:
                        d3 = dict(dims, args="all-default")
                        g3 = call(S.aes_ccm_encrypt, key, m, nonce)
                        t.legal("aes_ccm_encrypt", d3, g3, exp, f"aes_ccm_encrypt({kd}, {_h(m)}, nonce={nonce.hex()})")
                        if g3[0] == "ok":
                            back = call(S.aes_ccm_decrypt, key, g3[1], nonce, b"")
                            t.prop("C09.aes_ccm-roundtrip", {"args": "defaults", "len": lenclass(n)}, back == ("ok", m),
                                   "wrong-output" if back[0] == "ok" else f"raises-{back[0]}",
                                   f"ccm defaults round trip {kd} nonce={nonce.hex()} m={_h(m)}")
                if got[0] == "ok":
                    back = call(S.aes_ccm_decrypt, key, got[1], nonce, aad, taglen)
                    t.prop("C09.aes_ccm-roundtrip", {"args": "explicit", "len": lenclass(n)}, back == ("ok", m),
                           "wrong-output" if back[0] == "ok" else f"raises-{back[0]}", "ccm round trip " + det)
                # authenticity: one flipped bit anywhere must be refused
                if n in case["tamper_lens"]:
                    pos = sorted({0, len(exp) - taglen, len(exp) - 1} | ({len(exp) - taglen - 1} if n else set()))
                    for i in pos:
                        r = call(S.aes_ccm_decrypt, key, _flip(exp, i), nonce, aad, taglen)
                        t.prop("C09.aes_ccm_decrypt-tamper", {"where": "tag" if i >= n else "ciphertext"}, r[0] != "ok",
                               "accepted", f"aes_ccm_decrypt accepted bit flip at byte {i} of {_h(exp)} {det}")
                    if alen:
                        r = call(S.aes_ccm_decrypt, key, exp, nonce, _flip(aad, alen - 1), taglen)
                        t.prop("C09.aes_ccm_decrypt-tamper", {"where": "aad"}, r[0] != "ok", "accepted",
                               "aes_ccm_decrypt accepted modified associated data " + det)
                    r = call(S.aes_ccm_decrypt, key, exp, _flip(nonce, 0), aad, taglen)
                    t.prop("C09.aes_ccm_decrypt-tamper", {"where": "nonce"}, r[0] != "ok", "accepted",
                           "aes_ccm_decrypt accepted another nonce " + det)
                    if taglen < 16:
                        r = call(S.aes_ccm_decrypt, key, exp, nonce, aad, taglen + 2)
                        t.prop("C09.aes_ccm_decrypt-tamper", {"where": "tag-len"}, r[0] != "ok", "accepted",
                               "aes_ccm_decrypt accepted another tag length " + det)
    if case.get("edges"):
        for bad in (0, 6, 14, 16):
            t.illegal("aes_ccm_encrypt", {"what": f"nonce-len={bad}"}, call(S.aes_ccm_encrypt, key, b"abc", bytes(bad)),
                      f"aes_ccm_encrypt({kd}, b'abc', nonce=bytes({bad}))")
        for bad in (0, 2, 3, 5, 15, 17, 18):
            t.illegal("aes_ccm_encrypt", {"what": f"tag-len={bad}"}, call(S.aes_ccm_encrypt, key, b"abc", bytes(12), b"", bad),
                      f"aes_ccm_encrypt({kd}, b'abc', nonce=bytes(12), b'', tag_len={bad})")
        # length field: with a 13-byte nonce the message length has 2 bytes
        n13 = P("counter", 13, seed, "n13")
        m = P("msgctr", 65535, seed, "msg")
        t.legal("aes_ccm_encrypt", {"len": lenclass(65535), "nonce-len": 13, "tag": 16, "aad": 0, "klen": case["klen"],
                                    "kpat": case["kpat"], "args": "explicit"},
                call(S.aes_ccm_encrypt, key, m, n13, b"", 16), R.ccm_encrypt(ref, n13, m, b"", 16),
                f"aes_ccm_encrypt({kd}, msgctr*65535, nonce={n13.hex()})")
        t.illegal("aes_ccm_encrypt", {"what": "message-too-long-for-nonce"}, call(S.aes_ccm_encrypt, key, m + b"\0", n13),
                  f"aes_ccm_encrypt({kd}, 65536 bytes, nonce={n13.hex()})")


def w_wrap(case: dict, t: Tally) -> None:
    import spsdk.crypto.symmetric as S
    from vf.ref import aes as R

    seed = case["seed"]
    kek = P(case["kpat"], case["klen"], seed, "kek")
    ref = R.AES(kek)
    kd = f"kek={kek.hex()}"
    for pp in case["mpats"]:
        for n in case["lens"]:
            data = P(pp, n, seed, "keydata")
            dims = {"len": n, "data": pp, "klen": case["klen"], "kpat": case["kpat"]}
            exp = R.key_wrap(ref, data)
            got = call(S.aes_key_wrap, kek, data)
            t.legal("aes_key_wrap", dims, got, exp, f"aes_key_wrap({kd}, {_h(data)})")
            t.legal("aes_key_unwrap", dims, call(S.aes_key_unwrap, kek, exp), data, f"aes_key_unwrap({kd}, {_h(exp)})")
            if got[0] == "ok":
                back = call(S.aes_key_unwrap, kek, got[1])
                t.prop("C09.aes_key_wrap-roundtrip", {"len": n}, back == ("ok", data),
                       "wrong-output" if back[0] == "ok" else f"raises-{back[0]}", f"key wrap round trip {kd} {_h(data)}")
            for i in (0, 8, len(exp) - 1):
                r = call(S.aes_key_unwrap, kek, _flip(exp, i))
                t.prop("C09.aes_key_unwrap-tamper", {"where": "iv" if i < 8 else "body"}, r[0] != "ok", "accepted",
                       f"aes_key_unwrap({kd}, {_h(_flip(exp, i))}) accepted a modified blob")
    for bad in (0, 8, 15, 20, 33):
        t.illegal("aes_key_wrap", {"what": f"len={bad}"}, call(S.aes_key_wrap, kek, bytes(bad)), f"aes_key_wrap({kd}, bytes({bad}))")
    for bad in (0, 8, 16, 23, 25):
        t.illegal("aes_key_unwrap", {"what": f"len={bad}"}, call(S.aes_key_unwrap, kek, bytes(bad)), f"aes_key_unwrap({kd}, bytes({bad}))")


def w_cmac(case: dict, t: Tally) -> None:
    from spsdk.crypto.cmac import cmac, cmac_validate
    from vf.ref import aes as R

    seed = case["seed"]
    key = P(case["kpat"], case["klen"], seed, "key")
    ref = R.AES(key)
    kd = f"key={key.hex()}"
    for mp in case["mpats"]:
        for n in _lens(case):
            if n > case["maxlen"] and mp != case["mpats"][-1]:
                continue
            m = P(mp, n, seed, "msg")
            dims = {"len": lenclass(n), "msg": mp, "klen": case["klen"], "kpat": case["kpat"]}
            exp = R.cmac(ref, m)
            t.legal("cmac", dims, call(cmac, key, m), exp, f"cmac({kd}, {_h(m)})")
            t.legal("cmac", dict(dims, msg=mp + "/kw"), call(cmac, data=m, key=key), exp, f"cmac(data={_h(m)}, {kd})")
            t.legal("cmac_validate", dims, call(cmac_validate, key, m, exp), True, f"cmac_validate({kd}, {_h(m)}, {exp.hex()})")
            for what, sig in (("bit-flip", _flip(exp, 15)), ("first-bit", _flip(exp, 0)), ("truncated", exp[:15]), ("extended", exp + b"\0")):
                r = call(cmac_validate, key, m, sig)
                t.prop("C09.cmac_validate-tamper", {"what": what}, r == ("ok", False),
                       "accepted" if r[0] == "ok" else f"raises-{r[0]}", f"cmac_validate({kd}, {_h(m)}, {sig.hex()}) -> {r}")


HASHES = ("sha1", "sha256", "sha384", "sha512", "md5", "sm3")


def w_hash(case: dict, t: Tally) -> None:
    from spsdk.crypto.hash import EnumHashAlgorithm, Hash, get_hash, get_hash_length
    from vf.ref import kdf as K

    seed = case["seed"]
    name = case["alg"]
    alg = EnumHashAlgorithm.from_label(name)
    t.legal("get_hash_length", {"alg": name}, call(get_hash_length, alg), K.DIGEST_SIZE[name], f"get_hash_length({name})")
    for mp in case["mpats"]:
        for n in _lens(case):
            m = P(mp, n, seed, "msg")
            bs = K.BLOCK_SIZE[name]
            dims = {"alg": name, "msg": mp, "len": "empty" if n == 0 else ("<block" if n < bs else ("k*block" if n % bs == 0 else ">block")),
                    "api": "get_hash"}
            exp = K.digest(name, m)
            t.legal("get_hash", dims, call(get_hash, m, alg), exp, f"get_hash({_h(m)}, {name})")
            if name == "sha256":
                t.legal("get_hash", dict(dims, api="get_hash-default-alg"), call(get_hash, m), exp, f"get_hash({_h(m)})")
            if n <= case["maxsplit"]:
                for cut in sorted({0, 1, n // 2, max(n - 1, 0), n}):
                    if cut > n:
                        continue

                    def inc():
                        ho = Hash(alg)
                        ho.update(m[:cut])
                        ho.update(m[cut:])
                        return ho.finalize()

                    t.legal("Hash", dict(dims, api="Hash.update*2"), call(inc), exp, f"Hash({name}).update({_h(m[:cut])}).update({_h(m[cut:])})")
    if name == "sha256":
        def dflt():
            ho = Hash()
            ho.update(b"abc")
            return ho.finalize()

        t.legal("Hash", {"alg": name, "api": "Hash()-default-alg", "msg": "abc", "len": "<block"}, call(dflt), K.digest("sha256", b"abc"), "Hash().update(b'abc')")
    for v in (1, 0x7F, 0x80, 0xFF, 0x100, 0xFFFF, 0x10000, 2**32 - 1, 2**32, 2**64 - 1, 2**64, 2**255, 2**256 - 1, 2**521 - 1):
        def ui():
            ho = Hash(alg)
            ho.update_int(v)
            return ho.finalize()

        t.legal("Hash.update_int", {"alg": name, "bits": v.bit_length() % 8 == 0}, call(ui),
                K.digest(name, v.to_bytes((v.bit_length() + 7) // 8, "big")), f"Hash({name}).update_int({v:#x})")
    if name == "sha256":
        from spsdk.crypto.hash import get_hash_algorithm

        t.illegal("get_hash", {"what": "alg=NONE"}, call(get_hash, b"abc", EnumHashAlgorithm.NONE), "get_hash(b'abc', NONE)", need_spsdk=True)
        t.illegal("get_hash_algorithm", {"what": "alg=NONE"}, call(get_hash_algorithm, EnumHashAlgorithm.NONE), "get_hash_algorithm(NONE)", need_spsdk=True)


def w_hmac(case: dict, t: Tally) -> None:
    from spsdk.crypto.hash import EnumHashAlgorithm
    from spsdk.crypto.spsdk_hmac import hmac, hmac_validate
    from vf.ref import kdf as K

    seed = case["seed"]
    name = case["alg"]
    alg = EnumHashAlgorithm.from_label(name)
    bs = K.BLOCK_SIZE[name]
    for klen in case["klens"]:
        key = P(case["kpat"], klen, seed, "key")
        kc = "<block" if klen < bs else ("=block" if klen == bs else ">block")
        for n in _lens(case):
            m = P("msgctr" if n % 2 else "seeded", n, seed, "msg")
            dims = {"alg": name, "key": kc, "len": "empty" if n == 0 else ("<block" if n < bs else ">=block"), "kpat": case["kpat"],
                    "api": "explicit-alg"}
            exp = K.hmac(name, key, m)
            det = f"(key={_h(key)}, data={_h(m)}, {name})"
            t.legal("hmac", dims, call(hmac, key, m, alg), exp, "hmac" + det)
            if name == "sha256":
                t.legal("hmac", dict(dims, api="default-alg"), call(hmac, key, m), exp, f"hmac(key={_h(key)}, data={_h(m)})")
            if n in (0, 1, 64, 65) or klen == 32:
                t.legal("hmac_validate", dims, call(hmac_validate, key, m, exp, alg), True, "hmac_validate" + det)
                if name == "sha256":
                    t.legal("hmac_validate", dict(dims, api="default-alg"), call(hmac_validate, key, m, exp), True, "hmac_validate default alg")
                for what, sig in (("bit-flip", _flip(exp, len(exp) - 1)), ("first-bit", _flip(exp, 0)), ("truncated", exp[:-1]), ("extended", exp + b"\0")):
                    r = call(hmac_validate, key, m, sig, alg)
                    t.prop("C09.hmac_validate-tamper", {"what": what, "alg": name}, r == ("ok", False),
                           "accepted" if r[0] == "ok" else f"raises-{r[0]}", f"hmac_validate{det} sig={sig.hex()} -> {r}")
    t.either("hmac", call(hmac, b"", b"abc", alg), None)


def w_hkdf(case: dict, t: Tally) -> None:
    from spsdk.crypto.hkdf import hkdf
    from vf.ref import kdf as K

    seed = case["seed"]
    for slen in case["salts"]:
        salt = P(case["pat"], slen, seed, "salt")
        for ilen in case["ikms"]:
            ikm = P(case["pat"], ilen, seed, "ikm")
            prk = K.hkdf_extract(salt, ikm)
            for flen in case["infos"]:
                info = P("msgctr", flen, seed, "info")
                okm = K.hkdf_expand(prk, info, 255 * 32)
                for L in case["lengths"]:
                    dims = {"salt": "empty" if slen == 0 else ("<=block" if slen <= 64 else ">block"), "ikm": ilen, "info": flen,
                            "length": "k*32" if L % 32 == 0 else "partial", "blocks": "max" if L > 254 * 32 else ("1" if L <= 32 else "n"),
                            "pat": case["pat"]}
                    det = f"hkdf(salt={_h(salt)}, ikm={_h(ikm)}, info={_h(info)}, length={L})"
                    t.legal("hkdf", dims, call(hkdf, salt, ikm, info, L), okm[:L], det)
                    if L == 42:
                        t.legal("hkdf", dict(dims, pat=case["pat"] + "/kw"), call(hkdf, length=L, info=info, ikm=ikm, salt=salt), okm[:L], det)
    for bad in (255 * 32 + 1, 255 * 32 + 32, 1 << 16):
        t.illegal("hkdf", {"what": "length>255*32"}, call(hkdf, b"s", b"k", b"", bad), f"hkdf(b's', b'k', b'', {bad})")
    t.either("hkdf", call(hkdf, b"s", b"k", b"", 0), None)


def w_crc(case: dict, t: Tally) -> None:
    from spsdk.crypto.crc import CRC_ALGORITHMS, Crc, CrcAlg, from_crc_algorithm
    from vf.ref import crc as C

    seed = case["seed"]
    label = case["alg"]
    member = {m.label: m for m in CrcAlg}[label]
    entries = {
        "member": lambda: from_crc_algorithm(member),
        "label": lambda: from_crc_algorithm(label),
        "LABEL": lambda: from_crc_algorithm(label.upper()),
        "table": lambda: Crc(CRC_ALGORITHMS[member]),
    }
    msgs = [(mp, P(mp, n, seed, "msg")) for mp in case["mpats"] for n in range(0, case["maxlen"] + 1)]
    msgs += [("single-byte", bytes([b])) for b in range(256)]
    if case.get("pairs"):
        msgs += [("two-bytes", bytes([a, b])) for a in range(256) for b in range(256)]
    msgs += [("check", b"123456789")] + [("big", P("seeded", n, seed, "big")) for n in case.get("big", [])]
    for mp, m in msgs:
        exp = C.by_label(label, m)
        for en, mk in entries.items():
            if mp == "two-bytes" and en != "member":
                continue
            dims = {"alg": label, "entry": en, "msg": mp, "len": "empty" if not m else ("<4" if len(m) < 4 else ">=4")}

            def calc():
                return mk().calculate(m)

            t.legal("Crc.calculate", dims, call(calc), exp, f"from_crc_algorithm({label!r} via {en}).calculate({_h(m)})")
        if mp != "two-bytes":
            crc_obj = from_crc_algorithm(member)
            t.legal("Crc.verify", {"alg": label, "expect": True}, call(crc_obj.verify, m, exp), True, f"{label}.verify({_h(m)}, {exp:#x})")
            for wrong in (exp ^ 1, exp ^ (1 << (C.CATALOGUE[label]["width"] - 1)), (exp + 1) & 0xFFFF):
                if wrong != exp:
                    t.legal("Crc.verify", {"alg": label, "expect": False}, call(crc_obj.verify, m, wrong), False,
                            f"{label}.verify({_h(m)}, {wrong:#x})")
    t.illegal("from_crc_algorithm", {"what": "unknown-name"}, call(from_crc_algorithm, "crc64"), "from_crc_algorithm('crc64')")


#: catalogue parameters of further CRCs that share polynomial and bit order with a named one but differ in init / xor-out
CRC_CUSTOM = {
    "crc32-bzip2": dict(width=32, poly=0x04C11DB7, init=0xFFFFFFFF, refin=False, refout=False, xorout=0xFFFFFFFF),
    "crc32-jamcrc": dict(width=32, poly=0x04C11DB7, init=0xFFFFFFFF, refin=True, refout=True, xorout=0),
    "crc16-genibus": dict(width=16, poly=0x1021, init=0xFFFF, refin=False, refout=False, xorout=0xFFFF),
    "crc16-ccitt-false": dict(width=16, poly=0x1021, init=0xFFFF, refin=False, refout=False, xorout=0),
    "crc16-kermit": dict(width=16, poly=0x1021, init=0, refin=True, refout=True, xorout=0),
}


def w_crc_history(case: dict, t: Tally) -> None:
    """Histories of CRC computations in ONE process: every sequence (up to the depth) over the three named algorithms
    and five user-defined configurations; each result must equal the bit-by-bit reference whatever was computed
    before (a cache shared between Crc objects would make an earlier configuration leak into a later one)."""
    import itertools

    from spsdk.crypto.crc import Crc, CrcConfig, from_crc_algorithm
    from vf.ref import crc as C

    msgs = [b"123456789", b"", P("seeded", 17, case["seed"], "crch")]
    names = ["crc32", "crc32-mpeg", "crc16-xmodem"] + sorted(CRC_CUSTOM)

    def compute(name: str, m: bytes):
        if name in C.CATALOGUE:
            return from_crc_algorithm(name).calculate(m)
        p = CRC_CUSTOM[name]
        # crcmod convention used by CrcConfig: polynomial with its top bit, initial value taken before the final xor
        cfg = CrcConfig(polynomial=p["poly"] | (1 << p["width"]), initial_value=p["init"] ^ p["xorout"], final_xor=p["xorout"],
                        reverse=p["refin"])
        return Crc(cfg).calculate(m)

    def ref(name: str, m: bytes) -> int:
        if name in C.CATALOGUE:
            return C.by_label(name, m)
        return C.crc(m, **CRC_CUSTOM[name])

    for depth in range(1, case["depth"] + 1):
        for seq in itertools.product(names, repeat=depth):
            for m in msgs:
                for i, name in enumerate(seq):
                    last = i == len(seq) - 1
                    r = call(compute, name, m)
                    if last or r != ("ok", ref(name, m)):
                        kind = "named" if name in C.CATALOGUE else "custom"
                        prev = "first" if i == 0 else ("after-" + ("named" if seq[i - 1] in C.CATALOGUE else "custom"))
                        t.legal("Crc.history", {"cfg": kind, "position": prev}, r, ref(name, m),
                                f"sequence {list(seq[:i + 1])} on {_h(m)}: last result")


def w_counter(case: dict, t: Tally) -> None:
    import itertools

    import spsdk.crypto.symmetric as S
    from spsdk.utils.misc import Endianness
    from vf.ref import aes as R

    seed = case["seed"]
    M = 1 << 32
    key = P("seeded", 16, seed, "ctrkey")
    ref = R.AES(key)
    block = P("msgctr", 16, seed, "blk")
    ops = case["ops"]  # None = increment() without argument
    seqs = [s for d in range(0, case["depth"] + 1) for s in itertools.product(ops, repeat=d)]
    for order in ("little", "big"):
        en = Endianness.LITTLE if order == "little" else Endianness.BIG
        for pp in case["prefixes"]:
            prefix = P(pp, 12, seed, "prefix")
            for start in case["starts"]:
                nonce = prefix + start.to_bytes(4, order)
                for cv in case["ctr_values"]:
                    for how in ("positional", "default-order"):
                        if how == "default-order" and order != "little":
                            continue
                        for seq in seqs:
                            total = start + (cv or 0)
                            det = f"Counter({nonce.hex()}, {cv}" + (f", Endianness.{order.upper()})" if how == "positional" else ")")

                            def mk():
                                if how == "default-order":
                                    return S.Counter(nonce) if cv is None else S.Counter(nonce, cv)
                                return S.Counter(nonce, cv, en)

                            st, c = call(mk)
                            steps = [("ctor", 0)] + [("inc", o) for o in seq]
                            for kind, o in steps:
                                if st != "ok":
                                    break
                                if kind == "inc":
                                    total += 1 if o is None else o
                                    r = call(c.increment) if o is None else call(c.increment, o)
                                    det += ".increment()" if o is None else f".increment({o})"
                                    if r[0] != "ok":
                                        st, c = r
                                        break
                                wrapped = total >= M
                                dims = {"order": order if how == "positional" else "default(little)", "wrapped": wrapped,
                                        "ctr_value": "none" if cv is None else "given", "prefix": pp}
                                exp = prefix + (total % M).to_bytes(4, order)
                                got = call(lambda: c.value)
                                if wrapped and got[0] == "SPSDKError":
                                    t.count("counter_wrap_refused_with_SPSDKError")
                                    continue
                                ok = t.legal("Counter", dims, got, exp, det + ".value")
                                if ok:
                                    t.prop("C09.Counter-repeatable", {"order": order}, call(lambda: c.value) == got, "differs",
                                           det + ".value read twice")
                                    if case.get("position") and len(seq) <= 1:
                                        ks = ref.encrypt_block(exp)
                                        e = bytes(a ^ b for a, b in zip(block, ks))
                                        g = call(S.aes_ctr_encrypt, key, block, got[1])
                                        t.prop("C09.Counter-ctr-position", {"order": order, "wrapped": wrapped}, g == ("ok", e),
                                               "wrong-keystream", f"aes_ctr_encrypt(key, blk, {det}.value)")
                            if st != "ok":
                                wrapped = total >= M
                                if wrapped and st == "SPSDKError":
                                    t.count("counter_wrap_refused_with_SPSDKError")
                                else:
                                    t.legal("Counter", {"order": order, "wrapped": wrapped, "ctr_value": "none" if cv is None else "given",
                                                        "prefix": pp}, (st, c), None, det)
    for bad in (b"", bytes(12), bytes(15), bytes(17)):
        t.illegal("Counter", {"what": f"nonce-len={len(bad)}"}, call(S.Counter, bad), f"Counter(bytes({len(bad)}))")


def w_keystore(case: dict, t: Tally) -> None:
    from spsdk.image.keystore import KeyStore
    from vf.ref import kdf as K

    seed = case["seed"]
    for kp in case["kpats"]:
        key = P(kp, 32, seed, "master")
        dims = {"kpat": kp}
        t.legal("KeyStore.derive_hmac_key", dims, call(KeyStore.derive_hmac_key, key), K.ks_hmac_key(key), f"derive_hmac_key({key.hex()})")
        t.legal("KeyStore.derive_enc_image_key", dims, call(KeyStore.derive_enc_image_key, key), K.ks_enc_image_key(key),
                f"derive_enc_image_key({key.hex()})")
        t.legal("KeyStore.derive_sb_kek_key", dims, call(KeyStore.derive_sb_kek_key, key), K.ks_sb_kek(key), f"derive_sb_kek_key({key.hex()})")
        for ip in case["kpats"]:
            inp = P(ip, 16, seed, "otfad")
            t.legal("KeyStore.derive_otfad_kek_key", {"kpat": kp, "input": ip}, call(KeyStore.derive_otfad_kek_key, key, inp),
                    K.ks_otfad_kek(key, inp), f"derive_otfad_kek_key({key.hex()}, {inp.hex()})")
    for bad in (0, 16, 24, 31, 33, 64):
        for fn in ("derive_hmac_key", "derive_enc_image_key", "derive_sb_kek_key"):
            t.illegal("KeyStore." + fn, {"what": f"key-len={bad}"}, call(getattr(KeyStore, fn), bytes(bad)), f"{fn}(bytes({bad}))", need_spsdk=True)
        t.illegal("KeyStore.derive_otfad_kek_key", {"what": f"key-len={bad}"}, call(KeyStore.derive_otfad_kek_key, bytes(bad), bytes(16)),
                  f"derive_otfad_kek_key(bytes({bad}), bytes(16))", need_spsdk=True)
    for bad in (0, 15, 17, 32):
        t.illegal("KeyStore.derive_otfad_kek_key", {"what": f"input-len={bad}"}, call(KeyStore.derive_otfad_kek_key, bytes(32), bytes(bad)),
                  f"derive_otfad_kek_key(bytes(32), bytes({bad}))", need_spsdk=True)


def w_sb31(case: dict, t: Tally) -> None:
    from spsdk.sbfile.sb31.functions import KeyDerivator, derive_block_key, derive_kdk
    from vf.ref import kdf as K

    seed = case["seed"]
    for kp in case["kpats"]:
        for plen in (16, 32):
            pck = P(kp, plen, seed, "pck")
            for bits in (128, 256):
                for rights in (0, 1, 2, 3):
                    for ts in case["timestamps"]:
                        dims = {"pck-len": plen, "bits": bits, "rights": rights, "kpat": kp, "const": "<2^32" if ts < 2**32 else ">=2^32"}
                        kdk = K.sb31_derive_kdk(pck, ts, bits, rights)
                        t.legal("derive_kdk", dims, call(derive_kdk, pck, ts, bits, rights), kdk,
                                f"derive_kdk({pck.hex()}, {ts:#x}, {bits}, {rights})")
                        if ts != case["timestamps"][1]:
                            continue
                        st, kd = call(KeyDerivator, pck, ts, bits, rights)
                        t.legal("KeyDerivator", dict(dims, what="kdk"), (st, kd.kdk if st == "ok" else kd), kdk,
                                f"KeyDerivator({pck.hex()}, {ts:#x}, {bits}, {rights}).kdk")
                        for bn in case["blocks"]:
                            exp = K.sb31_derive_block_key(kdk, bn, bits, rights)
                            d2 = dict(dims, const="<2^32" if bn < 2**32 else ">=2^32")
                            t.legal("derive_block_key", d2, call(derive_block_key, kdk, bn, bits, rights), exp,
                                    f"derive_block_key({kdk.hex()}, {bn}, {bits}, {rights})")
                            if st == "ok":
                                t.legal("KeyDerivator", dict(d2, what="block-key"), call(kd.get_block_key, bn), exp,
                                        f"KeyDerivator({pck.hex()}, {ts:#x}, {bits}, {rights}).get_block_key({bn})")
    pck = bytes(32)
    for rights in (-1, 4, 64):
        t.illegal("derive_kdk", {"what": f"rights={rights}"}, call(derive_kdk, pck, 1, 256, rights), f"derive_kdk(0^32, 1, 256, {rights})", need_spsdk=True)
        t.illegal("derive_block_key", {"what": f"rights={rights}"}, call(derive_block_key, pck, 1, 256, rights),
                  f"derive_block_key(0^32, 1, 256, {rights})", need_spsdk=True)
    for bits in (0, 16, 192, 512):
        t.illegal("derive_kdk", {"what": f"bits={bits}"}, call(derive_kdk, pck, 1, bits, 0), f"derive_kdk(0^32, 1, {bits}, 0)", need_spsdk=True)
        t.illegal("derive_block_key", {"what": f"bits={bits}"}, call(derive_block_key, pck, 1, bits, 0),
                  f"derive_block_key(0^32, 1, {bits}, 0)", need_spsdk=True)


def w_badkeys(case: dict, t: Tally) -> None:
    """Key sizes outside the algorithm's domain must be refused by every wrapper."""
    import spsdk.crypto.symmetric as S
    from spsdk.crypto.cmac import cmac

    d16, iv = bytes(16), bytes(16)
    aes_bad = (0, 1, 15, 17, 23, 25, 31, 33, 48, 64)
    for n in aes_bad:
        k = bytes(range(n))
        w = {"what": f"key-len={n}"}
        t.illegal("aes_ecb_encrypt", w, call(S.aes_ecb_encrypt, k, d16), f"aes_ecb_encrypt(bytes({n}), 0^16)")
        t.illegal("aes_ecb_decrypt", w, call(S.aes_ecb_decrypt, k, d16), f"aes_ecb_decrypt(bytes({n}), 0^16)")
        t.illegal("aes_cbc_encrypt", w, call(S.aes_cbc_encrypt, k, d16, iv), f"aes_cbc_encrypt(bytes({n}), 0^16, 0^16)", need_spsdk=True)
        t.illegal("aes_cbc_decrypt", w, call(S.aes_cbc_decrypt, k, d16, iv), f"aes_cbc_decrypt(bytes({n}), 0^16, 0^16)", need_spsdk=True)
        t.illegal("aes_cbc_encrypt", w, call(S.aes_cbc_encrypt, k, d16), f"aes_cbc_encrypt(bytes({n}), 0^16)", need_spsdk=True)
        t.illegal("aes_cbc_decrypt", w, call(S.aes_cbc_decrypt, k, d16), f"aes_cbc_decrypt(bytes({n}), 0^16)", need_spsdk=True)
        t.illegal("aes_ctr_encrypt", w, call(S.aes_ctr_encrypt, k, d16, iv), f"aes_ctr_encrypt(bytes({n}), 0^16, 0^16)")
        t.illegal("aes_ctr_decrypt", w, call(S.aes_ctr_decrypt, k, d16, iv), f"aes_ctr_decrypt(bytes({n}), 0^16, 0^16)")
        t.illegal("aes_ccm_encrypt", w, call(S.aes_ccm_encrypt, k, d16, bytes(12)), f"aes_ccm_encrypt(bytes({n}), 0^16, 0^12)")
        t.illegal("aes_ccm_decrypt", w, call(S.aes_ccm_decrypt, k, bytes(32), bytes(12), b""), f"aes_ccm_decrypt(bytes({n}), 0^32, 0^12, b'')")
        t.illegal("aes_key_wrap", w, call(S.aes_key_wrap, k, d16), f"aes_key_wrap(bytes({n}), 0^16)")
        t.illegal("aes_key_unwrap", w, call(S.aes_key_unwrap, k, bytes(24)), f"aes_key_unwrap(bytes({n}), 0^24)")
        t.illegal("cmac", w, call(cmac, k, d16), f"cmac(bytes({n}), 0^16)")
    for n in (0, 15, 16, 17, 24, 31, 33, 48, 63, 65, 128):
        k = bytes(range(n))
        w = {"what": f"key-len={n}"}
        t.illegal("aes_xts_encrypt", w, call(S.aes_xts_encrypt, k, bytes(32), iv), f"aes_xts_encrypt(bytes({n}), 0^32, 0^16)")
        t.illegal("aes_xts_decrypt", w, call(S.aes_xts_decrypt, k, bytes(32), iv), f"aes_xts_decrypt(bytes({n}), 0^32, 0^16)")
    for n in (0, 1, 15, 17, 24, 32):
        k = bytes(range(n))
        w = {"what": f"key-len={n}"}
        t.illegal("sm4_cbc_encrypt", w, call(S.sm4_cbc_encrypt, k, d16, iv), f"sm4_cbc_encrypt(bytes({n}), 0^16, 0^16)", need_spsdk=True)
        t.illegal("sm4_cbc_decrypt", w, call(S.sm4_cbc_decrypt, k, d16, iv), f"sm4_cbc_decrypt(bytes({n}), 0^16, 0^16)", need_spsdk=True)
        t.illegal("sm4_cbc_encrypt", w, call(S.sm4_cbc_encrypt, k, d16), f"sm4_cbc_encrypt(bytes({n}), 0^16)", need_spsdk=True)
        t.illegal("sm4_cbc_decrypt", w, call(S.sm4_cbc_decrypt, k, d16), f"sm4_cbc_decrypt(bytes({n}), 0^16)", need_spsdk=True)


def w_golden(case: dict, t: Tally) -> None:
    """Calibration of the *oracle* on binaries NXP ships (no spsdk code involved): the key-store
    constants and RFC 3394 of vf.ref must open the golden RT5xx files.  A failure here means the
    reference is wrong -> harness error, never a violation."""
    from vf.ref import aes as R
    from vf.ref import kdf as K

    base = None
    for root in (core.REPO, "/repo"):
        d = os.path.join(root, "tests", "mcu_examples", "data", "rt5xx")
        if os.path.isdir(d):
            base = d
            break
    if base is None:
        t.count("golden_files_absent")
        return
    mk = bytes.fromhex("000102030405060708090a0b0c0d0e0f00112233445566778899aabbccddeeff")
    bad = []
    sb = open(os.path.join(base, "output", "app_ram_iar_crc_otp.sb"), "rb").read()
    try:
        if R.aes_key_unwrap(K.ks_sb_kek(mk), sb[128:200]) != b"\xa0" * 32 + b"\x0b" * 32:
            bad.append("SB KEK: golden key blob unwraps to other keys")
    except R.InvalidUnwrap:
        bad.append("SB KEK constant / RFC 3394: golden SB2.1 key blob does not unwrap")
    img = open(os.path.join(base, "output", "app_ram_iar_signed_otp.bin"), "rb").read()
    if K.hmac("sha256", K.ks_hmac_key(mk), img[:64]) != img[64:96]:
        bad.append("HMAC key constant: golden load-to-RAM image header MAC differs")
    img = open(os.path.join(base, "output", "app_ram_iar_encr_otp.bin"), "rb").read()
    app = open(os.path.join(base, "input_images", "app_ram_iar_unsigned.bin"), "rb").read()
    c = R.AES(K.ks_enc_image_key(mk))
    hit = None
    for o in range(len(img) - 16 - 4 * ((len(img) - 16) // 4), len(img) - 15, 4):
        ivv = int.from_bytes(img[o:o + 16], "big")
        ks = c.encrypt_block(((ivv + 4) % (1 << 128)).to_bytes(16, "big"))
        if bytes(a ^ b for a, b in zip(img[96:112], ks)) == app[64:80]:
            hit = o
            break
    if hit is None:
        bad.append("image encryption key constant: no CTR IV in the golden encrypted image opens it")
    t.count("golden_calibrations", 3)
    if bad:
        raise core.HarnessError("oracle calibration failed: " + "; ".join(bad))


WORKERS = {"cbc": w_cbc, "sm4cbc": w_cbc, "ecb": w_ecb, "ctr": w_ctr, "xts": w_xts, "ccm": w_ccm, "wrap": w_wrap, "cmac": w_cmac,
           "hash": w_hash, "hmac": w_hmac, "hkdf": w_hkdf, "crc": w_crc, "crc-history": w_crc_history, "counter": w_counter, "keystore": w_keystore,
           "sb31": w_sb31, "badkeys": w_badkeys, "golden": w_golden}


def worker(case: dict) -> dict:
    t = Tally()
    WORKERS[case["k"]](case, t)
    return t.result()


# ---------------------------------------------------------------------------------------------


def build_tasks(tier: str, seed: int) -> list:
    q = tier == "quick"
    maxlen = 80 if q else 272
    big = BIG_LENS if q else BIG_LENS + [65535, 65536, 65537]
    mpats = ["msgctr", "seeded"] if q else ["zeros", "ones", "msgctr", "seeded2", "seeded"]
    kpats = ["zeros", "ones", "counter", "seeded"] + ([] if q else ["seeded2"])
    ivpats = ["zeros", "ones", "counter", "seeded"]
    T: list = [{"k": "golden"}]
    for klen in (16, 24, 32):
        for kp in kpats:
            T.append({"k": "cbc", "mode": "cbc", "klen": klen, "kpat": kp, "ivpats": ivpats, "mpats": mpats, "maxlen": maxlen, "big": big})
            T.append({"k": "ecb", "klen": klen, "kpat": kp, "mpats": mpats, "maxlen": maxlen, "big": big, "onehot": kp in ("zeros", "seeded")})
            T.append({"k": "ctr", "klen": klen, "kpat": kp, "ivpats": ivpats + ["low32-ones", "low64-ones"], "mpats": mpats,
                      "maxlen": maxlen, "big": big})
            T.append({"k": "cmac", "klen": klen, "kpat": kp, "mpats": mpats, "maxlen": maxlen, "big": big})
            T.append({"k": "wrap", "klen": klen, "kpat": kp, "mpats": ["zeros", "ones", "counter", "seeded"],
                      "lens": list(range(16, 65 if q else 137, 8)) + ([] if q else [256, 4096])})
    for kp in kpats:
        T.append({"k": "sm4cbc", "mode": "sm4cbc", "klen": 16, "kpat": kp, "ivpats": ivpats, "mpats": mpats, "maxlen": maxlen, "big": big})
    for klen in (32, 64):
        for kp in ["zeros+ones", "ones+zeros", "counter", "seeded", "zeros"] + ([] if q else ["seeded2", "ones"]):
            T.append({"k": "xts", "klen": klen, "kpat": kp, "ivpats": ivpats, "mpats": mpats, "maxlen": maxlen, "big": big})
    # CCM: nonce length x tag length x AAD length x every message length
    pairs = [(p, p) for p in ("seeded", "counter", "zeros", "ones")] if q else \
        [(a, b) for a in ("zeros", "ones", "counter", "seeded") for b in ("zeros", "ones", "counter", "seeded")] + [("seeded2", "seeded2")]
    for klen in (16, 24, 32):
        for nlen in range(7, 14):
            for i, (kp, np_) in enumerate(pairs):
                T.append({"k": "ccm", "klen": klen, "kpat": kp, "nlen": nlen, "npat": np_, "mpat": "msgctr" if i % 2 else "seeded",
                          "tags": [4, 6, 8, 10, 12, 14, 16], "aads": [0, 1, 16, 17] + ([] if q else [13, 14, 15, 32, 33]),
                          "maxlen": maxlen, "big": BIG_LENS if i == 0 else [], "tamper_lens": [0, 1, 16, 33],
                          "edges": i == 0 and nlen == 13})
        # AAD length encoding boundary 0xFEFF / 0xFF00 (2-byte vs 6-byte length prefix)
        T.append({"k": "ccm", "klen": klen, "kpat": "seeded", "nlen": 12, "npat": "seeded", "mpat": "msgctr", "tags": [8, 16],
                  "aads": [0, 0xFEFF, 0xFF00, 0xFF01], "maxlen": 17 if q else 33, "big": [], "tamper_lens": [16]})
    for alg in HASHES:
        T.append({"k": "hash", "alg": alg, "mpats": ["msgctr", "seeded"] if q else ["zeros", "ones", "msgctr", "seeded"],
                  "maxlen": 300 if q else 1100, "maxsplit": 140 if q else 300, "big": big + ([] if q else [1000000])})
        for kp in (["counter", "seeded"] if q else ["zeros", "ones", "counter", "seeded"]):
            T.append({"k": "hmac", "alg": alg, "kpat": kp, "klens": [1, 16, 20, 32, 63, 64, 65, 127, 128, 129, 200],
                      "maxlen": 150 if q else 300, "big": BIG_LENS})
    for pat in (["counter", "seeded"] if q else ["zeros", "ones", "counter", "seeded"]):
        T.append({"k": "hkdf", "pat": pat, "salts": [0, 1, 31, 32, 33, 64, 65, 100], "ikms": [1, 16, 22, 32, 64, 65, 80],
                  "infos": [0, 1, 10, 32, 80], "lengths": [1, 16, 31, 32, 33, 42, 63, 64, 65, 100, 255 * 32 - 32, 255 * 32 - 31, 255 * 32 - 1, 255 * 32]})
    for alg in ("crc32", "crc32-mpeg", "crc16-xmodem"):
        T.append({"k": "crc", "alg": alg, "mpats": ["zeros", "ones", "counter", "seeded"], "maxlen": 64 if q else 300,
                  "pairs": not q, "big": BIG_LENS})
    T.append({"k": "crc-history", "depth": 2 if q else 3})
    M = 1 << 32
    T.append({"k": "counter", "starts": [0, 1, 1 << 31, M - 17, M - 2, M - 1], "ctr_values": [None, 0, 1, 2, 16, M - 1, M],
              "ops": [None, 0, 1, 2, 16, M - 1, M], "depth": 2 if q else 3, "prefixes": ["zeros", "seeded"] if q else ["zeros", "ones", "seeded"],
              "position": True})
    T.append({"k": "keystore", "kpats": kpats + ["seeded3"]})
    T.append({"k": "sb31", "kpats": kpats, "timestamps": [0, 0x27C0E97C, 1, M - 1, M, (1 << 64) - 1, (1 << 96) - 1],
              "blocks": [0, 1, 2, 255, 256, 65535, M - 1] + ([] if q else [M, (1 << 96) - 1])})
    T.append({"k": "badkeys"})
    for c in T:
        c["seed"] = seed
    return T


def run(ctx: core.Ctx) -> None:
    from vf.ref import aes as R
    from vf.ref import crc as C
    from vf.ref import kdf as K

    try:
        R.selftest()
        C.selftest()
        K.selftest()
    except AssertionError as e:
        raise core.HarnessError(f"reference implementation fails its published vectors: {e}")
    tasks = build_tasks(ctx.tier, ctx.seed)
    q = ctx.tier == "quick"
    ctx.rule = (
        "one task per (wrapper family, key size, key pattern); inside a task the full product of IV/nonce/tweak argument "
        "(4 explicit patterns + wrap patterns for CTR + 'left at its default'), message pattern and EVERY message length "
        f"0..{80 if q else 272} plus {BIG_LENS if q else BIG_LENS + [65535, 65536, 65537]}; CCM: nonce length 7..13 x tag length 4..16 x AAD "
        "length x every message length; key wrap: every payload length 16..64(136) step 8; Counter: start word x ctr_value x "
        f"all increment sequences of depth <= {2 if q else 3} over 7 increments x both byte orders; hashes/HMAC/HKDF/CRC/KDF "
        "sweeps as listed in coverage.dimensions. Every call of the real spsdk function is compared with vf.ref (pure Python, "
        "own code). distinct_nontrivial = number of distinct (function, argument tuple) evaluations on legal inputs that were "
        "compared with the reference, counted by the workers (illegal/refused inputs and policy cases are counted separately)")
    dims: dict = {}
    per_kind: dict = {}
    # longest tasks first for load balance; order is a pure function of the task list
    order = {"ccm": 0, "hkdf": 1, "hash": 2, "sm4cbc": 3, "cbc": 4, "xts": 5, "counter": 6}
    tasks.sort(key=lambda c: (order.get(c["k"], 9), core.jdump(c)))
    results = []
    notes: set = set()
    for case, res in ctx.pool_map(worker, tasks, timeout=900, chunksize=1):
        viol = res.pop("viol", []) if isinstance(res, dict) else []
        if not ctx.absorb(case, res):
            continue
        results.append((case, viol, sorted(res.get("tried", {}))))
        notes.update(res.get("notes", ()))
        per_kind[case["k"]] = per_kind.get(case["k"], 0) + 1
        for g, dd in res.get("tried", {}).items():
            for d, vals in dd.items():
                dims.setdefault(g, {}).setdefault(d, set()).update(vals)
    # task-level dimensions (key size, key pattern, hash algorithm ...) enter the discriminator only when the
    # failing tasks are a proper subset of the tasks of that family: "@klen=24"
    TASK_DIMS = ("klen", "kpat", "alg", "nlen", "pat")
    fam_vals: dict = {}
    for case, viol, groups in results:
        for g in groups:
            for d in TASK_DIMS:
                if d in case:
                    fam_vals.setdefault((g, d), set()).add(case[d])
    failing: dict = {}
    for case, viol, _ in results:
        for v in viol:
            for d in TASK_DIMS:
                if d in case:
                    failing.setdefault((v[0], v[1], v[3]), {}).setdefault(d, set()).add(case[d])
    for case, viol, _ in results:
        for v in viol:
            parts = [f"{d}=" + "|".join(map(str, sorted(vals, key=str)))
                     for d, vals in sorted(failing.get((v[0], v[1], v[3]), {}).items())
                     if vals != fam_vals.get((v[3], d), vals)]
            ctx.viol(v[0], v[1] + ("@" + ",".join(parts) if parts else ""), case, v[2])
    ctx.cov["observations_not_judged"] = sorted(notes)[:40]
    for k in ("cbc", "ccm", "counter"):
        ctx.sample(next(c for c in tasks if c["k"] == k))
    ctx.sample(tasks[-1])
    c = ctx.counters
    ctx.cov["tasks"] = len(tasks)
    ctx.cov["tasks_per_family"] = dict(sorted(per_kind.items()))
    ctx.cov["evaluations"] = sum(c.get(k, 0) for k in ("legal_evaluations", "illegal_evaluations", "policy_evaluations", "property_evaluations"))
    ctx.cov["distinct_nontrivial"] = c.get("legal_evaluations", 0)
    ctx.cov["rejected"] = c.get("rejected", 0)
    ctx.cov["dimensions"] = {g: {d: sorted(v) for d, v in dd.items()} for g, dd in sorted(dims.items())}
    ctx.cov["bounds"] = {"message_length_every": 80 if q else 272, "counter_depth": 2 if q else 3, "tier": ctx.tier}
    ctx.assumptions += [
        "legal inputs are those of the standards (FIPS-197 key sizes, 16-byte IV/nonce/tweak, ECB/CBC-decrypt/XTS length rules, "
        "RFC 3610 nonce/tag ranges, RFC 3394 n>=2 blocks, RFC 5869 L<=255*HashLen); a legal input that raises is a violation, "
        "an illegal input must raise (any type; SPSDKError where the docstring promises it)",
        "aes/sm4_cbc_encrypt pad a non-aligned message with zero bytes (align_block default); decrypt returns the padded message",
        "a default IV means 16 zero bytes on both sides",
        "Counter is a 32-bit field: value = nonce[0:12] || enc32((start + ctr_value + sum(increments)) mod 2^32); an SPSDKError at "
        "the wrap would be counted as refused, any other exception or value is a violation",
        "policy cases (XTS key1==key2, XTS/empty, HMAC empty key, HKDF length 0) may be refused by OpenSSL",
        "content patterns {zeros, ones, counter, seed-derived}: nothing is claimed for other byte values",
    ]


def replay(ctx: core.Ctx, rec: dict) -> bool:
    case = rec["case"]
    res = core.run_with_watchdog(worker, case, 900)
    if res.get("__watchdog__"):
        print("watchdog: task does not terminate")
        return rec["clause"].endswith(".terminates")
    hits = [v for v in res["viol"] if v[0] == rec["clause"] and v[1] == rec["disc"].split("@")[0]]
    for v in hits[:5]:
        print(v)
    if not hits:
        for v in res["viol"][:10]:
            print("other:", v[:2])
    return bool(hits)
