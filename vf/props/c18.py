"""C18 — database cache: crash points and concurrent first use (DESIGN §19).

Part A (crash points, fault enumeration): the ordered write history of both cache files is
recorded from real cold+warm runs under the FS seams; crash states = every generation x every
byte-length prefix (quick tier: a partition by pickle FRAME/opcode boundaries +-1, first/last
64 lengths and a stride), plus empty / stale / wrong-type files, for each file independently and
for class combinations of both.  Each state is materialised in a fresh cache directory and the
real first-use code runs on it in a child forked from the zygote.  Oracle: the child ends
normally, its observation Q equals Q_ref (same battery with the cache disabled), and every cache
file left behind is a complete, loadable pickle of the right type or absent.

Part B (schedules, stateless model checking of the implementation): N in {2,3} forked processes
run first use concurrently under the controlled scheduler of vf/engine/procsched.py; all
interleavings with <= p preemptions are explored from several initial cache states.

Seams on pure functions (validated end-to-end by real `python -c` processes on one
representative per outcome class): `load_configuration` as seen from spsdk.utils.database is
memoised in the zygote (a pure function of the read-only data folder).
"""
from __future__ import annotations

import hashlib
import io
import json
import os
import pickle
import pickletools
import shutil
import struct
import subprocess
import sys
import tempfile
import time
import traceback
from typing import Any, Optional

from vf import core
from vf.engine import procsched

LEVEL = "fault_enumeration"

_Z: dict[str, Any] = {}  # zygote state (inherited by forked workers)


def sha(o: Any) -> str:
    return hashlib.sha1(core.jdump(o).encode()).hexdigest()[:16]


# ---------------------------------------------------------------------------------------------
# the observation function Q


def battery(devs: list, light: bool = False) -> dict:
    import spsdk.utils.database as dbm

    q: dict[str, Any] = {}
    dm = dbm.DatabaseManager()
    feats = [f.label for f in dbm.FeaturesEnum]
    for f in (feats[:6] if light else feats):
        q["fam:" + f] = sha(dbm.get_families(f))
    q["devices"] = sha(sorted(dm.quick_info.devices.devices.keys()) if hasattr(dm.quick_info.devices, "devices") else None)
    for d in (devs[:1] if light else devs):
        feat = dbm.get_db(d)
        q["dev:" + d] = sha(feat.features)
        q["rev:" + d] = feat.name
    for f in (["mbi"] if light else ["mbi", "sb21", "pfr", "ahab", "cert_block"]):
        q["sch:" + f] = sha(dbm.get_schema_file(f))
    return q


def _child_env(cache_dir: str, disabled: bool = False) -> None:
    import spsdk.utils.database as dbm
    import logging

    dbm.SPSDK_CACHE_FOLDER = cache_dir
    dbm.SPSDK_CACHE_DISABLED = disabled
    dbm.DatabaseManager._instance = None
    dbm.DatabaseManager._db = None
    dbm.DatabaseManager._quick_info = None
    logging.disable(logging.CRITICAL)


def in_child(fn, *args, timeout: int = 120) -> Any:
    """Run fn(*args) in a forked child; return its (pickled) result or {'exception': ...}."""
    r, w = os.pipe()
    pid = os.fork()
    if pid == 0:
        try:
            os.close(r)
            import signal

            signal.alarm(timeout)
            try:
                out = fn(*args)
            except BaseException as e:  # noqa
                out = {"exception": f"{type(e).__name__}: {e}", "tb": traceback.format_exc()[-2500:]}
            data = pickle.dumps(out)
            with os.fdopen(w, "wb") as f:
                f.write(data)
        finally:
            os._exit(0)
    os.close(w)
    with os.fdopen(r, "rb") as f:
        data = f.read()
    _, status = os.waitpid(pid, 0)
    if not data:
        return {"exception": f"child died (status {status})"}
    return pickle.loads(data)


# ---------------------------------------------------------------------------------------------
# zygote preparation


def prepare(ctx: core.Ctx) -> None:
    import spsdk
    import spsdk.utils.database as dbm

    assert dbm.DatabaseManager._instance is None, "zygote must not instantiate the DatabaseManager"
    work = os.path.join(ctx.workdir, "c18")
    shutil.rmtree(work, ignore_errors=True)
    os.makedirs(work)
    _Z["work"] = work
    # memoise load_configuration as seen by the database module (pure function of the data folder)
    real_lc = dbm.load_configuration
    memo: dict = {}

    def lc(path, *a, **k):
        ap = os.path.abspath(path)
        root = os.path.abspath(dbm.SPSDK_DATA_FOLDER)
        st = os.stat(ap)
        # a private (hard-linked) copy of the data folder shares the entries of unchanged files; a changed file is re-read
        key = (os.path.relpath(ap, root) if ap.startswith(root + os.sep) else ap, st.st_mtime_ns, st.st_size)
        if key not in memo:
            memo[key] = real_lc(path, *a, **k)
        from copy import deepcopy

        return deepcopy(memo[key])

    # pristine private copy of the data folder (hard links when possible; per-case copies are hard links of this one)
    data0 = os.path.join(work, "data0")
    try:
        shutil.copytree(spsdk.SPSDK_DATA_FOLDER, data0, copy_function=os.link)
    except OSError:
        shutil.rmtree(data0, ignore_errors=True)
        shutil.copytree(spsdk.SPSDK_DATA_FOLDER, data0, copy_function=shutil.copy2)
    _Z["data0"] = data0
    _Z["real_lc"] = real_lc
    _Z["memo_lc"] = lc
    dbm.load_configuration = lc

    # device list: warm the memo and pick devices by index (deterministic)
    def first():
        _child_env(os.path.join(work, "ref0"), disabled=True)
        dm = dbm.DatabaseManager()
        return sorted(dm.quick_info.devices.devices.keys())

    # the memo must be filled in the zygote itself: do a complete load here without singletons
    dbm.SPSDK_CACHE_FOLDER = os.path.join(work, "zyg")
    dbm.SPSDK_CACHE_DISABLED = True
    db = dbm.Database(spsdk.SPSDK_DATA_FOLDER, None, None, complete_load=True)
    names = sorted(d.name for d in db.devices.devices) if hasattr(db.devices, "devices") else []
    del db
    dbm.SPSDK_CACHE_DISABLED = False
    for d in ("zyg", "ref0", "ref1", "ref2", "ref3", "ref4"):
        os.makedirs(os.path.join(work, d), exist_ok=True)
    devs_all = in_child(first)
    if isinstance(devs_all, dict):
        raise core.HarnessError(f"reference run failed: {devs_all}")
    if not devs_all:
        devs_all = names
    n = len(devs_all)
    _Z["devs"] = [devs_all[i] for i in sorted({0, n // 5, 2 * n // 5, 3 * n // 5, 4 * n // 5, n - 1})]

    # the source-edit family edits the database file of the first and of the last device of the battery: both must have
    # features of their own (an alias device has none) - move to the next device in the list until they do
    def own_features(d: str) -> bool:
        f = os.path.join(spsdk.SPSDK_DATA_FOLDER, "devices", d, "database.yaml")
        return os.path.exists(f) and bool((real_lc(f) or {}).get("features"))

    for pos, rng in ((0, range(0, n)), (-1, range(n - 1, -1, -1))):
        _Z["devs"][pos] = next(devs_all[i] for i in rng if own_features(devs_all[i]) and (devs_all[i] not in _Z["devs"] or devs_all[i] == _Z["devs"][pos]))
    # schema files etc. go through load_db_cfg_file -> warm the memo for them too
    def ref():
        _child_env(os.path.join(work, "ref1"), disabled=True)
        return battery(_Z["devs"])

    def warm_memo():
        _child_env(os.path.join(work, "ref2"), disabled=True)
        return battery(_Z["devs"])

    # fill memo in zygote for schema files: call loader directly
    for f in ["mbi", "sb21", "pfr", "ahab", "cert_block"]:
        lc(os.path.join(spsdk.SPSDK_DATA_FOLDER, "jsonschemas", f"sch_{f}.yaml"))
    _Z["qref"] = in_child(ref)
    if "exception" in _Z["qref"]:
        raise core.HarnessError(f"reference battery failed: {_Z['qref']}")
    q2 = in_child(warm_memo)
    if q2 != _Z["qref"]:
        raise core.HarnessError("reference battery is not deterministic")
    _Z["qref_light"] = in_child(lambda: (_child_env(os.path.join(work, "ref3"), disabled=True), battery(_Z["devs"], True))[1])
    # the reference itself: "cache disabled" must answer like a clean cold start with the cache enabled
    qcold = in_child(lambda: (_child_env(os.path.join(work, "ref4"), disabled=False), battery(_Z["devs"]))[1])
    if qcold != _Z["qref"]:
        diff = sorted(k for k in set(qcold) | set(_Z["qref"]) if qcold.get(k) != _Z["qref"].get(k))
        ctx.viol("C18.cache-disabled-reference", "disabled!=cold-enabled", {"reference": "SPSDK_CACHE_DISABLED=1 vs cold start"},
                 f"answers differ in {diff[:8]}")
        _Z["qref"] = qcold


# ---------------------------------------------------------------------------------------------
# write histories


def record_histories() -> dict:
    """Cold run, then warm runs, under the logging seam; returns per file the list of generations (bytes)."""
    work = _Z["work"]
    cdir = os.path.join(work, "hist")
    os.makedirs(cdir, exist_ok=True)

    def logged(light: bool):
        _child_env(cdir)
        seam = procsched.Seam(cdir, "log")
        seam.install()
        q = battery(_Z["devs"], light)
        return {"q": q, "log": seam.log}

    gens: dict[str, list[bytes]] = {}
    ops: list = []
    for run_i in range(2):
        r = in_child(logged, False)
        if "exception" in r:
            raise core.HarnessError(f"history run failed: {r}")
        if r["q"] != _Z["qref"]:
            raise core.HarnessError("history run: Q differs from Q_ref on a clean cache")
        cur: dict[str, Optional[bytearray]] = {}
        for kind, rel, arg in r["log"]:
            ops.append((run_i, kind, rel, len(arg) if isinstance(arg, (bytes, bytearray)) else arg))
            if kind.startswith("open:") and "w" in kind:
                cur[rel] = bytearray()
            elif kind == "write" and rel in cur and cur[rel] is not None:
                cur[rel] += arg
            elif kind == "close" and cur.get(rel) is not None:
                gens.setdefault(rel, []).append(bytes(cur[rel]))
                cur[rel] = None
    _Z["cache_after_hist"] = {f: open(os.path.join(cdir, f), "rb").read() for f in os.listdir(cdir) if f.endswith(".cache")}
    return {"gens": gens, "ops": ops}


def frame_boundaries(data: bytes) -> list[int]:
    """Offsets at which a protocol-4 FRAME starts/ends (states a kill between two write() calls leaves)."""
    out = set()
    try:
        for op, arg, pos in pickletools.genops(data):
            if op.name == "FRAME":
                out.add(pos)
                out.add(pos + 9)
                out.add(pos + 9 + arg)
    except Exception:  # noqa
        pass
    return sorted(x for x in out if 0 <= x <= len(data))


def opcode_boundaries(data: bytes) -> list[int]:
    try:
        return [pos for _, _, pos in pickletools.genops(data)]
    except Exception:  # noqa
        return []


def lengths_for(data: bytes, tier: str, write_cuts: list[int]) -> list[int]:
    n = len(data)
    if tier == "thorough":
        return list(range(0, n + 1))
    s = set(range(0, min(n, 24) + 1)) | set(range(max(0, n - 24), n + 1)) | set(range(0, n + 1, 1021))
    for b in frame_boundaries(data) + write_cuts:
        for d in (-2, -1, 0, 1, 2):
            if 0 <= b + d <= n:
                s.add(b + d)
    ob = opcode_boundaries(data)
    for b in ob[:: max(1, len(ob) // 50)]:
        for d in (-1, 0, 1):
            if 0 <= b + d <= n:
                s.add(b + d)
    return sorted(s)


# ---------------------------------------------------------------------------------------------
# crash-state execution


def file_valid(path: str) -> str:
    """'absent' | 'valid' | reason — judged independently of spsdk's loaders (plain pickle + type name)."""
    if not os.path.exists(path):
        return "absent"
    try:
        with open(path, "rb") as f:
            obj = pickle.load(f)
            rest = f.read()
        if rest:
            return "trailing-bytes"
        tn = type(obj).__name__
        if os.path.basename(path).startswith("db_quick_info") and tn != "QuickDatabase":
            return f"wrong-type:{tn}"
        if os.path.basename(path).startswith("db_data") and tn != "DatabaseData":
            return f"wrong-type:{tn}"
        return "valid"
    except Exception as e:  # noqa
        return f"unloadable:{type(e).__name__}"


def w_crash(case: dict) -> dict:
    """case: {"files": {name: spec}}, spec = ["prefix", gen, length] | ["absent"] | ["stale"] | ["wrongtype"] | ["garbage", n]
    plus optional "lock": True (stale .lock files present)."""
    work = _Z["work"]
    cdir = tempfile.mkdtemp(prefix="cs", dir=work)
    try:
        gens = _Z["gens"]
        for name, spec in case["files"].items():
            p = os.path.join(cdir, name)
            if spec[0] == "prefix":
                open(p, "wb").write(gens[name][spec[1]][: spec[2]])
            elif spec[0] == "stale":
                open(p, "wb").write(_Z["stale"][name])
            elif spec[0] == "outdated":
                open(p, "wb").write(_Z["stale"][name + "#outdated"])
            elif spec[0] == "wrongtype":
                open(p, "wb").write(pickle.dumps({"not": "a database"}))
            elif spec[0] == "garbage":
                open(p, "wb").write(bytes((i * 37 + 11) & 0xFF for i in range(spec[1])))
            if case.get("lock"):
                open(p + ".lock", "wb").close()

        def body():
            _child_env(cdir)
            return battery(_Z["devs"])

        q = in_child(body)
        viol = []
        oc = []
        for name in case["files"]:
            spec = case["files"][name]
            kind = spec[0] if spec[0] != "prefix" else _prefix_class(name, spec[1], spec[2])
            if kind != "complete":
                oc.append(f"{_short(name)}:{kind}")
        if not oc:
            oc = ["all-complete"]
        cls = "+".join(sorted(oc))
        if "exception" in q:
            exc = q["exception"].split(":")[0]
            viol.append(("C18.crash-state-fatal", f"{_loader(q.get('tb', ''))}->{exc}", f"{case} [{cls}]: {q['exception']}\n{q.get('tb', '')[-700:]}"))
            outcome = "fatal:" + exc
        elif q != _Z["qref"]:
            diff = sorted(k for k in _Z["qref"] if q.get(k) != _Z["qref"][k])
            viol.append(("C18.crash-state-skews", f"{cls}", f"{case}: differs in {diff[:6]}"))
            outcome = "skew"
        else:
            outcome = "ok"
        after = {}
        for f in sorted(os.listdir(cdir)):
            if f.endswith(".cache"):
                v = file_valid(os.path.join(cdir, f))
                after[_short(f)] = v
                if v not in ("valid", "absent") and outcome != "fatal:" + (q.get("exception", "").split(":")[0] if "exception" in q else "-"):
                    # (not reported on top of a fatal start: the dead process could not replace anything)
                    viol.append(("C18.damaged-cache-left", f"{_short(f)}:{v.split(':')[0]}", f"{case} [{cls}]: {f} is {v} after the process"))
        return {"viol": core.dedupe(viol), "distinct": [cls + "=>" + outcome + "|" + core.jdump(after)], "outcome": outcome, "cls": cls}
    finally:
        shutil.rmtree(cdir, ignore_errors=True)


def _loader(tb: str) -> str:
    """Which cache loader was running when the process died (from the traceback text)."""
    if "_get_quick_info_db" in tb and "DatabaseData" not in tb.split("_get_quick_info_db")[-1] and "get_db" not in tb.split("_get_quick_info_db")[-1]:
        return "quick-info-loader"
    if "make_cache" in tb:
        return "data-cache-writer"
    if "DatabaseData" in tb or "database.py\", line 1447" in tb or "self._data = self.DatabaseData" in tb:
        return "data-cache-loader"
    return "other"


def _short(name: str) -> str:
    return "quick" if name.startswith("db_quick_info") else ("data" if name.startswith("db_data") else name)


def _prefix_class(name: str, gen: int, ln: int) -> str:
    data = _Z["gens"][name][gen]
    if ln == 0:
        return "empty"
    if ln == len(data):
        return "complete" if gen == len(_Z["gens"][name]) - 1 else "complete-older-generation"
    if ln in _Z["fb"][name][gen]:
        return "frame-boundary"
    return "truncated"


# ---------------------------------------------------------------------------------------------
# schedules


def _init_cache(cdir: str, init: str) -> None:
    os.makedirs(cdir, exist_ok=True)
    gens = _Z["gens"]
    for name, g in gens.items():
        p = os.path.join(cdir, name)
        if init == "valid":
            open(p, "wb").write(_Z["cache_after_hist"].get(name, g[-1]))
        elif init == "empty":
            open(p, "wb").close()
        elif init == "truncated":
            open(p, "wb").write(g[-1][: len(g[-1]) // 2])
        elif init == "stale":
            open(p, "wb").write(_Z["stale"][name])
        elif init == "outdated":
            open(p, "wb").write(_Z["stale"].get(name + "#outdated", g[-1]))
        elif init == "valid-quick-only":
            if name.startswith("db_quick_info"):
                open(p, "wb").write(g[-1])
        # "cold": nothing


def w_sched(case: dict) -> dict:
    work = _Z["work"]
    top = tempfile.mkdtemp(prefix="sc", dir=work)
    cdir = top
    try:
        if case["init"] == "nofolder":
            cdir = os.path.join(top, "cache")  # SPSDK_CACHE_FOLDER names a folder that does not exist yet
        else:
            _init_cache(cdir, case["init"])

        def body(i: int, seam) -> Any:
            _child_env(cdir)
            return battery(_Z["devs"], True)

        kill = case.get("kill")
        tr = procsched.run_schedule(case["n"], body, cdir, tuple(case["prefix"]), kills={kill[0]: kill[1]} if kill else None)
        viol = []
        if tr.diverged:
            return {"__crash__": f"schedule prefix diverged: {case}", "tb": ""}
        tag = f"n={case['n']},init={case['init']}" + (",peer-killed" if kill else "")
        if tr.deadlock:
            viol.append(("C18.deadlock", tag, f"{case}: no enabled process; last ops {[p['op'] for p in tr.points[-6:]]}"))
        if tr.horizon:
            viol.append(("C18.livelock", tag, f"{case}: horizon reached"))
        outs = []
        for i, r in enumerate(tr.results):
            if tr.deadlock or tr.horizon:
                break
            if isinstance(r, dict) and r.get("killed"):
                outs.append(f"killed@{r['at'][0]}:{_short(r['at'][1])}")
                continue
            if isinstance(r, dict) and "exception" in r:
                exc = r["exception"].split(":")[0]
                viol.append(("C18.peer-killed-fatal" if kill else "C18.concurrent-start-fatal", f"{_loader(r.get('tb', ''))}->{exc}",
                             f"{case}: process {i}: {r['exception']}\n{r.get('tb', '')[-600:]}\nschedule tail {[p['op'] for p in tr.points[-8:]]}"))
                outs.append("fatal:" + exc)
            elif r != _Z["qref_light"]:
                viol.append(("C18.concurrent-start-skews", f"init={case['init']}", f"{case}: process {i} answers differ"))
                outs.append("skew")
            else:
                outs.append("ok")
        if kill and tr.killed and not (tr.deadlock or tr.horizon):
            # whatever the killed process left behind is the start state of the next process
            tr2 = procsched.run_schedule(1, body, cdir, ())
            r = tr2.results[0]
            if isinstance(r, dict) and "exception" in r:
                exc = r["exception"].split(":")[0]
                viol.append(("C18.peer-killed-fatal", f"next-process:{_loader(r.get('tb', ''))}->{exc}", f"{case}: the process started after the kill: {r['exception']}\n{r.get('tb', '')[-600:]}"))
                outs.append("next-fatal:" + exc)
            elif r != _Z["qref_light"]:
                viol.append(("C18.peer-killed-skews", "next-process", f"{case}: the process started after the kill answers differently"))
                outs.append("next-skew")
            else:
                outs.append("next-ok")
        after = {}
        for f in (sorted(os.listdir(cdir)) if os.path.isdir(cdir) else []):
            if f.endswith(".cache"):
                v = file_valid(os.path.join(cdir, f))
                after[_short(f)] = v
                if v not in ("valid", "absent") and not (tr.deadlock or tr.horizon) and all(o in ("ok", "next-ok") or o.startswith("killed@") for o in outs):
                    viol.append(("C18.damaged-cache-left", f"sched:{_short(f)}:{v.split(':')[0]}", f"{case}"))
        succ = procsched.successors(tr, len(case["prefix"]), case["bound"])
        return {"viol": core.dedupe(viol), "succ": succ, "points": len(tr.points), "killed": tr.killed, "own_points": [sum(1 for p in tr.points if p["op"][0] == i) for i in range(case["n"])], "distinct": [tag + "|" + ",".join(outs) + "|" + core.jdump(after)],
                "ops": [p["op"][:3] for p in tr.points] if not case["prefix"] else None}
    finally:
        shutil.rmtree(top, ignore_errors=True)


# ---------------------------------------------------------------------------------------------
# Part C: the cache turned stale because its SOURCES changed (the data folder was edited / upgraded in place)

SRC_EDITS = ["defaults", "dev0", "devlast", "sch_mbi", "sch_cert_block"]


def _edit_target(name: str) -> str:
    if name == "defaults":
        return os.path.join("common", "database_defaults.yaml")
    if name == "dev0":
        return os.path.join("devices", _Z["devs"][0], "database.yaml")
    if name == "devlast":
        return os.path.join("devices", _Z["devs"][-1], "database.yaml")
    return os.path.join("jsonschemas", f"{name}.yaml")


def _make_restricted(top: str) -> str:
    """A restricted-data folder (the documented add-on layout: metadata.yaml with the SPSDK version, data/common, data/devices)
    whose only content is its own copy of the defaults file - which then takes precedence over the main one."""
    import spsdk

    r = os.path.join(top, "restricted")
    os.makedirs(os.path.join(r, "data", "common"))
    os.makedirs(os.path.join(r, "data", "devices"))
    v = spsdk.version
    with open(os.path.join(r, "metadata.yaml"), "w") as f:
        f.write(f'version: "{v.major}.{v.minor}"\n')
    src = os.path.join(_Z["data0"], "common", "database_defaults.yaml")
    dst = os.path.join(r, "data", "common", "database_defaults.yaml")
    shutil.copy2(src, dst)
    return r


def _apply_edit(data: str, name: str, gen: int, revert: bool = False) -> None:
    """Replace one source file of the private data folder by an edited version (new inode: the hard-linked original stays
    untouched), with a deterministic new mtime.  revert=True writes the ORIGINAL content back (only the mtime is new)."""
    import yaml

    if name == "rdefaults":  # the defaults file of the restricted-data folder (a sibling of the private data folder)
        rel = os.path.join("common", "database_defaults.yaml")
        path = os.path.join(os.path.dirname(data), "restricted", "data", rel)
        name = "defaults"
    else:
        rel = _edit_target(name)
        path = os.path.join(data, rel)
    orig = os.path.join(_Z["data0"], rel)
    st0 = os.stat(orig)
    if revert:
        text = open(orig, "rb").read()
    else:
        cfg = _Z["real_lc"](orig)
        cfg = json.loads(json.dumps(cfg, default=str))
        if name == "defaults":
            cfg["features"]["comm_buffer"]["size"] = 0x2000 + gen
            cfg["features"]["comm_buffer"]["vf_marker"] = gen
        elif name.startswith("dev"):
            feats = cfg.setdefault("features", {})
            first = sorted(feats)[0]
            if not isinstance(feats[first], dict):
                feats[first] = {}
            feats[first]["vf_marker"] = gen
        else:
            cfg["vf_marker"] = {"type": "string", "title": f"marker {gen}"}
        text = yaml.safe_dump(cfg, sort_keys=False).encode()
    tmp = path + ".vfnew"
    with open(tmp, "wb") as f:
        f.write(text)
    t = st0.st_mtime_ns + (gen + 1) * 1_000_000_000
    os.utime(tmp, ns=(t, t))
    os.replace(tmp, path)


def w_source(case: dict) -> dict:
    import spsdk.utils.database as dbm

    top = tempfile.mkdtemp(prefix="src", dir=_Z["work"])
    try:
        data = os.path.join(top, "data")
        shutil.copytree(_Z["data0"], data, copy_function=os.link)
        cdir = os.path.join(top, "cache")
        os.makedirs(cdir)
        nref = [0]
        restricted = _make_restricted(top) if case.get("restricted") else None
        ruse = [bool(restricted) and case.get("renv0", True)]   # is SPSDK_RESTRICTED_DATA_FOLDER in effect for the next processes

        def proc(light: bool, disabled: bool = False) -> Any:
            if disabled:
                nref[0] += 1
                c = os.path.join(top, f"ref{nref[0]}")
                os.makedirs(c)
            else:
                c = cdir

            def body():
                _child_env(c, disabled=disabled)
                dbm.SPSDK_DATA_FOLDER = data
                if restricted and ruse[0]:
                    dbm.SPSDK_RESTRICTED_DATA_FOLDER = restricted
                return battery(_Z["devs"], light)

            return in_child(body)

        viol = []
        outs = []
        r = proc(case["warm"] == "light")
        if isinstance(r, dict) and "exception" in r:
            return {"__crash__": f"warm-up failed: {r['exception']}", "tb": r.get("tb", "")}
        applied: list = []
        observable = False
        for si, step in enumerate(case["steps"]):
            for name in step["edits"]:
                if name in ("renv-on", "renv-off"):   # not an edit of the sources: the next processes run with / without the restricted folder
                    ruse[0] = name == "renv-on"
                    applied.append(name)
                    continue
                rv = name.startswith("revert:")
                _apply_edit(data, name.split(":")[-1], si, revert=rv)
                applied.append(name)
            light = step["battery"] == "light"
            got = proc(light)
            ref = proc(light, disabled=True)
            if isinstance(ref, dict) and "exception" in ref:
                return {"__crash__": f"reference run failed after {applied}: {ref['exception']}", "tb": ref.get("tb", "")}
            if ref != (_Z["qref_light"] if light else _Z["qref"]):
                observable = True
            elif any(n.endswith("rdefaults") and not n.startswith("revert:") for n in step["edits"]):
                return {"__crash__": f"restricted-data edit {step['edits']} is not observable: the restricted folder is not in effect", "tb": ""}
            tagd = "+".join(n.split(":")[0] if n.startswith("revert:") else n for n in step["edits"])
            if isinstance(got, dict) and "exception" in got:
                exc = got["exception"].split(":")[0]
                viol.append(("C18.stale-source-fatal", f"{tagd}->{exc}", f"{case}: after edits {applied}: {got['exception']}\n{got.get('tb', '')[-600:]}"))
                outs.append("fatal")
            elif got != ref:
                diff = sorted(k for k in set(got) | set(ref) if got.get(k) != ref.get(k))
                cls = sorted({k.split(":")[0] for k in diff})
                viol.append(("C18.stale-source-trusted", f"{tagd}->{','.join(cls)}",
                             f"{case}: after the source edits {applied} the process with the cache answers {diff[:6]} differently from a cache-disabled process"))
                outs.append("stale:" + ",".join(cls))
            else:
                outs.append("ok")
        after = {}
        for f in sorted(os.listdir(cdir)):
            if f.endswith(".cache"):
                after[_short(f)] = "valid" if file_valid(os.path.join(cdir, f)) == "valid" else "other"
        return {"viol": core.dedupe(viol), "observable": observable, "procs": 1 + 2 * len(case["steps"]),
                "distinct": [f"src|warm={case['warm']}|{'restricted|' if case.get('restricted') else ''}" + ";".join("+".join(st["edits"]) + "/" + st["battery"] for st in case["steps"]) + "|" + ",".join(outs)]}
    finally:
        shutil.rmtree(top, ignore_errors=True)


def source_cases(tier: str) -> list:
    out = []
    warms = ["light", "full"]
    bats = ["full"] if tier == "quick" else ["light", "full"]
    firsts = [[e] for e in SRC_EDITS] + [["defaults", "sch_mbi"]]
    for w in warms:
        for b in bats:
            for i, e1 in enumerate(firsts):
                seconds: list = [None, ["revert:" + e1[0]]]
                if tier == "quick":
                    seconds.append([SRC_EDITS[(i + 1) % len(SRC_EDITS)]])
                else:
                    seconds += [[e] for e in SRC_EDITS]
                for e2 in seconds:
                    steps = [{"edits": e1, "battery": b}]
                    if e2:
                        steps.append({"edits": e2, "battery": b})
                    out.append({"warm": w, "steps": steps})
    # restricted-data folder with its own defaults file (which takes precedence over the main one)
    for w in warms:
        for b in bats:
            for steps in ([["rdefaults"]], [["rdefaults"], ["revert:rdefaults"]], [["defaults"]], [["rdefaults"], ["defaults"]], [["dev0"], ["rdefaults"]]):
                out.append({"warm": w, "restricted": True, "steps": [{"edits": e, "battery": b} for e in steps]})
    # the same cache folder used by processes with and without (or before and after configuring) the restricted-data folder
    for w in warms:
        for b in bats:
            for renv0, steps in ((True, [["renv-off"]]), (True, [["renv-off"], ["renv-on"]]), (False, [["renv-on"]]), (False, [["renv-on"], ["renv-off"]]),
                                 (True, [["renv-off", "dev0"]]), (False, [["renv-on", "rdefaults"]])):
                out.append({"warm": w, "restricted": True, "renv0": renv0, "steps": [{"edits": e, "battery": b} for e in steps]})
    return out


def make_stale() -> dict:
    """A *valid, complete* pickle of the right type whose stored fingerprint does not match (what an
    older data folder leaves behind)."""
    out = {}
    import spsdk.utils.database as dbm  # noqa

    for name, g in _Z["gens"].items():
        obj = pickle.loads(g[-1])
        obj.db_hash = b"\x00" * 20
        out[name] = pickle.dumps(obj, pickle.DEFAULT_PROTOCOL)
        # "outdated": what an older version of the data folder leaves behind - fingerprint does not match AND the cached
        # content of the file the battery loads LAST differs from the current source (a loader that adopts records of a
        # mismatching cache answers differently for that file)
        if hasattr(obj, "cfg_cache") and obj.cfg_cache:
            keys = list(obj.cfg_cache.keys())
            last = [k for k in keys if k.endswith("sch_cert_block.yaml")] or keys[-1:]
            for k in last:
                obj.cfg_cache[k] = {"outdated_content_of": os.path.basename(k)}
            out[name + "#outdated"] = pickle.dumps(obj, pickle.DEFAULT_PROTOCOL)
    return out


def e2e(case: dict) -> dict:
    """Same crash state, real `python -c` process, no seam at all."""
    cdir = tempfile.mkdtemp(prefix="e2e", dir=_Z["work"])
    try:
        for name, spec in case["files"].items():
            p = os.path.join(cdir, name)
            if spec[0] == "prefix":
                open(p, "wb").write(_Z["gens"][name][spec[1]][: spec[2]])
            elif spec[0] == "stale":
                open(p, "wb").write(_Z["stale"][name])
            elif spec[0] == "outdated":
                open(p, "wb").write(_Z["stale"][name + "#outdated"])
            elif spec[0] == "wrongtype":
                open(p, "wb").write(pickle.dumps({"not": "a database"}))
            elif spec[0] == "garbage":
                open(p, "wb").write(bytes((i * 37 + 11) & 0xFF for i in range(spec[1])))
        env = dict(os.environ)
        env["SPSDK_CACHE_FOLDER"] = cdir
        code = ("import sys,json; sys.path.insert(0, %r); sys.path.insert(0, %r); import logging; logging.disable(logging.CRITICAL); "
                "from vf.props.c18 import battery; print('Q'+json.dumps(battery(%r), sort_keys=True))" % (core.VERIF_DIR, core.REPO, _Z["devs"]))
        p = subprocess.run([sys.executable, "-c", code], capture_output=True, text=True, env=env, timeout=300)
        if p.returncode != 0 or "Q{" not in p.stdout:
            last = (p.stderr.strip().splitlines() or ["?"])[-1]
            return {"outcome": "fatal:" + last.split(":")[0]}
        q = json.loads(p.stdout[p.stdout.index("Q{") + 1:])
        return {"outcome": "ok" if q == _Z["qref"] else "skew"}
    finally:
        shutil.rmtree(cdir, ignore_errors=True)


def run(ctx: core.Ctx) -> None:
    marks = [("start", time.time())]
    prepare(ctx)
    h = record_histories()
    marks.append(("prepare+record", time.time()))
    _Z["gens"] = h["gens"]
    _Z["fb"] = {n: [set(frame_boundaries(g)) for g in gs] for n, gs in h["gens"].items()}
    _Z["stale"] = make_stale()
    names = sorted(h["gens"])
    qn = next(n for n in names if n.startswith("db_quick_info"))
    dn = next((n for n in names if n.startswith("db_data")), None)
    if dn is None:
        raise core.HarnessError("no data-cache write was observed in the history runs")
    ctx.cov["write_history"] = {_short(n): {"generations": len(g), "sizes": [len(x) for x in g]} for n, g in h["gens"].items()}
    # write() call boundaries inside each generation (kill between two write() calls)
    cuts: dict[str, list[list[int]]] = {n: [] for n in names}
    cur: dict[str, list[int]] = {}
    for run_i, kind, rel, arg in h["ops"]:
        if kind.startswith("open:") and "w" in kind:
            cur[rel] = [0]
        elif kind == "write" and rel in cur:
            cur[rel].append(cur[rel][-1] + arg)
        elif kind == "close" and rel in cur:
            cuts[rel].append(cur.pop(rel))
    # ---- Part A: crash states ---------------------------------------------------------------
    cases = []
    late_cases = []  # thorough: every remaining prefix length, run AFTER the schedules and source histories with what is left of the budget
    qfull = ["prefix", len(h["gens"][qn]) - 1, len(h["gens"][qn][-1])]
    for name in names:
        gl = h["gens"][name]
        gsel = range(len(gl)) if ctx.tier == "thorough" else sorted({0, len(gl) - 1})
        # the data cache only comes into being next to a complete quick-info cache (warm start)
        other = {qn: qfull} if name != qn else {}
        for gi in gsel:
            wc = cuts[name][gi] if gi < len(cuts[name]) else []
            first = lengths_for(gl[gi], "quick", wc)
            for ln in first:
                cases.append({"files": {**other, name: ["prefix", gi, ln]}})
            if ctx.tier == "thorough":
                fs = set(first)
                for ln in lengths_for(gl[gi], "thorough", wc):
                    if ln not in fs:
                        late_cases.append({"files": {**other, name: ["prefix", gi, ln]}})
        for spec in (["stale"], ["wrongtype"], ["garbage", 1], ["garbage", 100]) + ((["outdated"],) if name != qn else ()):
            cases.append({"files": {**other, name: spec}})
            cases.append({"files": {**other, name: spec}, "lock": True})
    # class combinations of both files
    qg, dg = h["gens"][qn], h["gens"][dn]
    qfb = sorted(_Z["fb"][qn][-1] - {0, len(qg[-1])})
    dfb = sorted(_Z["fb"][dn][-1] - {0, len(dg[-1])})
    qcls = [["absent"], ["prefix", len(qg) - 1, 0], ["prefix", len(qg) - 1, len(qg[-1]) // 2], ["prefix", len(qg) - 1, len(qg[-1])], ["stale"], ["wrongtype"]]
    dcls = [["absent"], ["prefix", len(dg) - 1, 0], ["prefix", len(dg) - 1, len(dg[-1]) // 2], ["prefix", len(dg) - 1, len(dg[-1])], ["stale"], ["wrongtype"], ["outdated"],
            ["prefix", 0, len(dg[0])]]
    if qfb:
        qcls.append(["prefix", len(qg) - 1, qfb[len(qfb) // 2]])
    if dfb:
        dcls.append(["prefix", len(dg) - 1, dfb[len(dfb) // 2]])
    for a in qcls:
        for b in dcls:
            f = {}
            if a[0] != "absent":
                f[qn] = a
            if b[0] != "absent":
                f[dn] = b
            cases.append({"files": f})
    outcome_reps: dict[str, dict] = {}
    ncrash = 0
    for case, res in ctx.pool_map(w_crash, cases, timeout=120, chunksize=4, check_det=3):
        if ctx.out_of_budget():
            break
        if ctx.absorb(case, res):
            ncrash += 1
            outcome_reps.setdefault(res["cls"] + "=>" + res["outcome"], case)
    ctx.cov["crash_states"] = ncrash
    ctx.cov["crash_outcome_classes"] = sorted(outcome_reps)
    for k in list(outcome_reps)[:3]:
        ctx.sample({"crash_state": outcome_reps[k], "class": k})
    # end-to-end validation of the memoisation seam: one representative per outcome class, real processes
    reps = list(outcome_reps.items())
    if ctx.tier == "quick":
        reps = reps[:24]
    mism = 0
    for (k, case), r in zip(reps, _pool_simple(e2e, [c for _, c in reps])):
        want = k.split("=>")[1]
        if r["outcome"].split(":")[0] != want.split(":")[0]:
            mism += 1
            raise core.HarnessError(f"seam validation failed: class {k} gives {r['outcome']} end-to-end for {case}")
    ctx.cov["end_to_end_validated_representatives"] = len(reps)
    marks.append(("crash-states+e2e", time.time()))
    # ---- Part B: schedules ------------------------------------------------------------------
    plans = [(2, "cold", 1), (2, "nofolder", 1), (2, "valid-quick-only", 2), (2, "empty", 1), (2, "truncated", 2), (2, "stale", 1), (2, "outdated", 1), (2, "valid", 1)]
    if ctx.tier == "thorough":
        plans = [(2, "cold", 2), (2, "nofolder", 3), (3, "nofolder", 2), (2, "valid-quick-only", 3), (2, "empty", 3), (2, "truncated", 3), (2, "stale", 2), (2, "outdated", 2), (2, "valid", 2),
                 (3, "valid-quick-only", 2), (3, "truncated", 2), (3, "empty", 1),
                 (4, "cold", 1), (4, "truncated", 1)]
    else:
        plans += [(3, "truncated", 1)]
    sched_cov = {}

    def explore(n: int, init: str, bound: int, kills: list) -> None:
        """all schedules with <= bound preemptions, for every kill in `kills` ([] = nobody is killed)"""
        frontier = [(tuple(k) if k else None, ()) for k in (kills or [None])]
        total = 0
        maxpts = 0
        complete = True
        nkilled = 0
        while frontier:
            if ctx.out_of_budget():
                complete = False
                break
            batch = [dict({"n": n, "init": init, "prefix": list(p), "bound": bound}, **({"kill": list(k)} if k else {})) for k, p in frontier]
            nxt = []
            for case, res in ctx.pool_map(w_sched, batch, timeout=300, chunksize=2, check_det=1 if total == 0 else 0):
                small = {k: case[k] for k in ("n", "init", "prefix", "bound", "kill") if k in case}
                if ctx.absorb(small, res):
                    total += 1
                    maxpts = max(maxpts, res["points"])
                    nkilled += 1 if res.get("killed") else 0
                    nxt += [(tuple(case["kill"]) if "kill" in case else None, tuple(s)) for s in res["succ"]]
                    if res.get("ops") and not kills and len(ctx.samples) < 7:
                        ctx.sample({"schedule": small, "default_trace_ops": res["ops"][:40]})
            frontier = nxt
        key = f"N={n},init={init},preemptions<={bound}" + (f",kill process {n - 1} at each of its first {len(kills)} scheduling points" if kills else "")
        sched_cov[key] = {"schedules": total, "max_points": maxpts, "complete": complete}
        if kills:
            sched_cov[key]["schedules_in_which_the_kill_happened"] = nkilled
        ctx.count("schedules", total)

    for n, init, bound in plans:
        explore(n, init, bound, [])
    marks.append(("schedules", time.time()))
    # a peer is killed while the others are running: kill point x interleaving.  The victim is the last process; the
    # number of its scheduling points is taken from a run of one process alone on the same start state.
    kplans = [(2, "cold", 1), (2, "valid-quick-only", 1), (2, "truncated", 1)]
    if ctx.tier == "thorough":
        kplans = [(2, i, 2) for i in ("cold", "valid-quick-only", "truncated", "stale")] + [(2, i, 1) for i in ("nofolder", "empty", "outdated", "valid")] + \
                 [(3, "cold", 1), (3, "truncated", 1)]
    for n, init, bound in kplans:
        if ctx.out_of_budget():
            break
        solo = w_sched({"n": 1, "init": init, "prefix": [], "bound": 0})
        if "own_points" not in solo:
            raise core.HarnessError(f"solo run failed: {solo}")
        explore(n, init, bound, [[n - 1, k] for k in range(1, solo["own_points"][0] + 1)])
    ctx.cov["schedules"] = sched_cov
    marks.append(("kill-schedules", time.time()))
    # ---- Part C: stale because the sources changed -------------------------------------------
    sc = source_cases(ctx.tier)
    nsrc = 0
    nobs = 0
    nprocs = 0
    for case, res in ctx.pool_map(w_source, sc, timeout=600, chunksize=1, check_det=2):
        if ctx.out_of_budget():
            break
        if ctx.absorb(case, res):
            nsrc += 1
            nobs += 1 if res.get("observable") else 0
            nprocs += res.get("procs", 0)
    if nsrc and not nobs:
        raise core.HarnessError("source-edit family is vacuous: no edit changed the cache-disabled answers")
    marks.append(("source-histories", time.time()))
    # ---- Part A, second half (thorough): all remaining prefix lengths ---------------------------
    if late_cases:
        nlate = 0
        for case, res in ctx.pool_map(w_crash, late_cases, timeout=120, chunksize=16, check_det=0):
            if ctx.out_of_budget():
                break
            if ctx.absorb(case, res):
                nlate += 1
        ctx.cov["crash_states"] = ctx.cov.get("crash_states", 0) + nlate
        ctx.cov["crash_states_every_length"] = {"done": nlate, "of": len(late_cases), "complete": nlate == len(late_cases)}
    ctx.cov["source_edit_histories"] = {"histories": nsrc, "of": len(sc), "histories_whose_edits_change_the_reference_answers": nobs,
                                        "process_runs": nprocs, "edit_alphabet": SRC_EDITS + ["revert:<edit>", "defaults+sch_mbi"]}
    ctx.count("source_edit_histories", nsrc)
    ctx.cov["transitions"] = ctx.counters.get("schedules", 0)
    ctx.cov["part_wall_s"] = {b[0]: round(b[1] - a[1], 1) for a, b in zip(marks, marks[1:])}
    # ---- free-running pass (sanity, not coverage) --------------------------------------------
    fr = free_running(ctx)
    ctx.cov["free_running_pass"] = fr
    ctx.rule = ("crash states: (file, generation, prefix length) from the recorded write history, partitioned in the quick tier by pickle "
                "FRAME/opcode/write() boundaries +-2, first/last 64 lengths and stride 257 (thorough: every length), plus stale/wrong-type/"
                "garbage files, lock files present/absent and class combinations of both files; schedules: all interleavings of N forked "
                "processes at FS/lock granularity with <= p preemptions; distinct_nontrivial = distinct (state class, outcome, final cache "
                "validity) triples")
    ctx.assumptions += ["crash model: process killed at any instant (file content = prefix of the bytes written so far); no storage-level reordering",
                        "load_configuration memoised in the zygote (pure function of the read-only data folder), validated end-to-end per outcome class",
                        "the fingerprint of a cache is a hash of source file names/mtimes/sizes: a complete pickle with matching fingerprint is valid by construction"]


def _pool_simple(fn, items):
    import multiprocessing as mp

    if not items:
        return []
    with mp.get_context("fork").Pool(min(core.NPROC, len(items))) as p:
        return p.map(fn, items)


def free_running(ctx: core.Ctx) -> dict:
    """16 real processes, real filelock, no scheduler: guards against the cooperative scheduler hiding an unlocked access."""
    out = {}
    for init in ("cold", "truncated"):
        bad = 0
        rounds = 2 if ctx.tier == "quick" else 6
        for _ in range(rounds):
            cdir = tempfile.mkdtemp(prefix="fr", dir=_Z["work"])
            _init_cache(cdir, init)
            env = dict(os.environ)
            env["SPSDK_CACHE_FOLDER"] = cdir
            code = ("import sys,json; sys.path.insert(0, %r); sys.path.insert(0, %r); import logging; logging.disable(logging.CRITICAL); "
                    "from vf.props.c18 import battery; print('Q'+json.dumps(battery(%r, True), sort_keys=True))" % (core.VERIF_DIR, core.REPO, _Z["devs"]))
            procs = [subprocess.Popen([sys.executable, "-c", code], stdout=subprocess.PIPE, stderr=subprocess.PIPE, text=True, env=env) for _ in range(12)]
            for p in procs:
                o, e = p.communicate(timeout=300)
                if p.returncode != 0 or "Q{" not in o or json.loads(o[o.index("Q{") + 1:]) != _Z["qref_light"]:
                    bad += 1
                    last = (e.strip().splitlines() or ["?"])[-1]
                    ctx.viol("C18.free-running-fatal", f"init={init}->{last.split(':')[0]}", {"free_running": init}, e[-800:])
            shutil.rmtree(cdir, ignore_errors=True)
        out[init] = {"rounds": rounds, "processes_per_round": 12, "failures": bad}
    return out


def replay(ctx: core.Ctx, rec: dict) -> bool:
    prepare(ctx)
    h = record_histories()
    _Z["gens"] = h["gens"]
    _Z["fb"] = {n: [set(frame_boundaries(g)) for g in gs] for n, gs in h["gens"].items()}
    _Z["stale"] = make_stale()
    case = rec["case"]
    if "files" in case:
        res = w_crash(case)
    elif "free_running" in case:
        free_running(ctx)
        return any(k[0] == rec["clause"] for k in ctx.viols)
    else:
        res = w_sched(case)
    hits = [v for v in res["viol"] if v[0] == rec["clause"] and v[1] == rec["disc"]]
    for hh in hits[:3]:
        print(hh)
    return bool(hits)
