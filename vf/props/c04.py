"""C04 — Secure Binary 2.0 / 2.1: the ROM decodes exactly the command list that was given.

Bounded exhaustive enumeration of executions of the real builders (BootImageV20 / BootImageV21
through their public classes, explicit dek/mac/nonce/timestamp) against `vf.ref.rom_sb2`
(independent model of the boot ROM's SB2 loader working on bytes + KEK).

Case families (each enumerated completely; see enumerate_cases for the exact bounds per tier):
  lat   header/layout lattice over DIMS: every assignment with <= k departures from the base for each
        applicable image kind (v21, v20 signed, v20 unsigned), with the tamper sweep (wrong KEK, single-bit
        flips at first/middle/last byte of every region, truncation); quick k=1 (+ k=2 without tamper),
        thorough k=2; plus the full product digest flag x section layout
  hm    block counts 1..8 x HMAC-table sizes 0..9,100 (thorough: + 257/258-block sections)
  tamper-all-bits  every bit of every region <= 96 B (quick) / 128 B (thorough) on the base cases
  cli   nxpimage sb21 export / parse through click's CliRunner, one per header departure
  seq   every command sequence of length <= 2 over the boundary-value alphabet ALPHABET in one section
        (quick: + length 3 over the reduced alphabet ALPHABET3; thorough: length 3 over ALPHABET,
        length 4 over ALPHABET3)
  sec   two (thorough: also three) sections with one command each over ALPHABET3 / SEC3_SYMBOLS
Before the enumeration the ROM model is calibrated on the repository's golden SB2 files (w_golden).

Oracle clauses (ids C04.<name>): see CLAUSES.
"""
from __future__ import annotations

import datetime as _dt
import itertools
import os
import time
from typing import Optional

from vf import core, fixtures

LEVEL = "exploration"

CLAUSES = {
    "C04.build-error-type": "a command/section/image constructor raised something other than SPSDKError",
    "C04.export-error-type": "export() raised something other than SPSDKError for an accepted input",
    "C04.rom-accepts": "the ROM model refuses the exported file (disc = stage)",
    "C04.rom-keys": "key blob does not unwrap to the given DEK / MAC key",
    "C04.rom-header-field": "a header field decoded by the ROM model differs from the value supplied (disc = field)",
    "C04.rom-cert": "certificate block seen by the ROM model differs from the chain / RKH table supplied",
    "C04.rom-sections": "section list decoded by the ROM model differs (count, ids, HMAC-table sizes)",
    "C04.rom-commands": "command decoded by the ROM model differs from the command given (disc = command:field)",
    "C04.parse-raises": "SPSDK's parser raises on the file SPSDK built",
    "C04.parse-header-field": "SPSDK's parser returns a header value different from what the file holds / was given",
    "C04.parse-sections": "SPSDK's parser returns a different section list",
    "C04.parse-commands": "SPSDK's parser returns a different command",
    "C04.tamper-rom-accepts": "ROM model accepts a file with a flipped bit in a region the format authenticates",
    "C04.tamper-parse-accepts": "SPSDK's parser returns normally for a wrong KEK / corrupted file that the ROM model refuses",
    "C04.tamper-parse-other-content": "SPSDK's parser returns, for a wrong KEK / corrupted file, content different from the intact file's",
    "C04.tamper-error-type": "(observation only, not a violation) SPSDK's parser raises something other than SPSDKError for a wrong KEK / corrupted file",
    "C04.cli": "nxpimage sb21 export/parse disagrees with the API path / the ROM model",
}

U32 = 0xFFFFFFFF
A_LO, A_MID, A_HI = 0, 4, 0xFFFFFFFC

# ---------------------------------------------------------------------------------------------
# command alphabet (boundary values, DESIGN §5).  A command spec is a JSON list.


def _alphabet() -> list:
    a: list = [["nop"], ["tag"], ["reset"]]
    # LOAD: every residue class of the data length mod 16 that matters + address / memory id boundaries
    for n in (0, 1, 15, 16, 17, 31, 32, 48):  # 0: a LOAD without payload (0 mod 16; the builder accepts it)
        a.append(["load", A_MID, 0, n])
    a += [["load", A_LO, 0, 16], ["load", A_HI, 0, 16]]
    for mem in (1, 0x101, 0x9):
        a.append(["load", A_MID, mem, 17])
    # FILL: 1/2/3/4 byte patterns (and the bit-length edges 0, 2^8, 2^16, 2^24, 2^32-1), lengths 4 / 0x100
    for pat in (0x00, 0xA5, 0x1234, 0x123456, 0x12345678, 0x100, 0x10000, 0x1000000, U32):
        a.append(["fill", A_MID, pat, 4])
    a += [["fill", A_MID, 0xA5, 0x100], ["fill", A_LO, 0x1234, 4], ["fill", A_HI, 0x12345678, 4]]
    # JUMP with / without stack pointer
    a += [["jump", A_MID, 0, None], ["jump", A_HI, U32, None], ["jump", A_MID, 1, 0],
          ["jump", A_MID, 0, 0x20000000], ["jump", A_LO, 0, A_HI]]
    a += [["call", A_MID, 0], ["call", A_HI, U32], ["call", A_LO, 1]]
    # ERASE: lengths 0 / 1 / 0x1000, erase-all flag, memory ids
    a += [["erase", A_LO, 0, 0, 0], ["erase", A_MID, 1, 0, 0], ["erase", A_LO, 0x1000, 0, 0],
          ["erase", A_HI, 0x1000, 0, 0], ["erase", A_LO, 0, 1, 0]]
    for mem in (1, 0x101, 0x9):
        a.append(["erase", A_MID, 0x1000, 0, mem])
    a += [["memen", A_MID, 4, 0], ["memen", A_LO, 0x1000, 1], ["memen", A_HI, 4, 0x101], ["memen", A_MID, 4, 0x9]]
    # PROG 4 / 8 byte
    a += [["prog", A_MID, 0, 0x11223344, 0], ["prog", A_MID, 0, 0x11223344, 0x55667788],
          ["prog", A_HI, 0x9, U32, U32], ["prog", A_LO, 1, 0, 0]]
    a += [["cver", 0, 0], ["cver", 1, 1], ["cver", 0, U32]]
    a += [["ksb", A_MID, 1], ["ksb", A_HI, 9], ["ksr", A_MID, 1], ["ksr", A_HI, 9]]
    return a


ALPHABET = _alphabet()
# reduced alphabet for length-3 sequences: one or two representatives per command class, chosen so that every
# raw-size class (16 B command, LOAD with 1/2/3 data blocks, unaligned LOAD) and both jump forms stay present
ALPHABET3 = [["nop"], ["reset"], ["load", A_MID, 0, 1], ["load", A_MID, 0, 16], ["load", A_MID, 0x101, 17],
             ["load", A_HI, 0, 32], ["fill", A_MID, 0xA5, 4], ["fill", A_MID, 0x123456, 0x100],
             ["jump", A_MID, 0, None], ["jump", A_LO, 0, A_HI], ["call", A_HI, U32],
             ["erase", A_LO, 0x1000, 0, 0], ["erase", A_LO, 0, 1, 0x9], ["memen", A_MID, 4, 0x9],
             ["prog", A_MID, 0, 0x11223344, 0x55667788], ["cver", 1, 1], ["ksb", A_MID, 9], ["ksr", A_MID, 1]]

BASE_PROGRAM = [["erase", A_LO, 0x1000, 0, 0], ["load", A_MID, 0, 17], ["fill", A_MID, 0x1234, 4],
                ["jump", A_MID, 0, None]]  # 1 + 3 + 1 + 1 = 6 blocks
ALT_PROGRAMS = [
    [["load", A_MID, 0x9, 31], ["call", A_HI, U32], ["reset"]],  # 3 + 1 + 1 = 5 blocks
    [["cver", 1, 1], ["load", A_LO, 0, 48], ["ksb", A_MID, 9], ["nop"]],  # 1 + 4 + 1 + 1 = 7 blocks
]

KINDS = ("v21", "v20u", "v20s")

# ---------------------------------------------------------------------------------------------
# header / layout lattice (E1).  First value of every dimension is the base.

TS_BASE = "2020-01-31T00:00:00"
DIMS: dict = {
    "pv": ["1.0.0", "1.2.3", "999.999.999", "0.0.0", "9999.0.10"],
    "cv": ["1.0.0", "4.5.6", "999.999.999"],
    "bn": [1, 0, U32],
    "flags": [0x0008, 0x8008],  # v21 only
    "ts": [TS_BASE, "2000-01-01T00:00:00", "2000-01-01T00:00:01", "2038-01-19T03:14:08",
           "2020-11-01T05:30:00", "9999-12-30T00:00:00"],
    "tz": ["UTC", "Asia/Kolkata", "America/New_York"],
    "pad": ["zero", "random", "pattern"],
    "dek": ["seed", "zero", "ff"],
    "mac": ["seed", "zero", "ff"],
    "kek": ["seed", "zero", "ff", "seed16"],
    "nonce": ["seed", "zero", "hi", "fit", "wrap-last", "wrap-mid", "max"],
    "chain": ["rsa2048_root0/d1", "rsa2048_root0/d2", "rsa2048_root0/d3", "rsa2048_root0/d4",
              "rsa3072_root0/d1", "rsa4096_root0/d2", "rsa2048_root1/d2"],  # signed kinds only
    "rkh": ["slot0", "slot3", "full"],  # signed kinds only
    "secs": ["0", "ffffffff", "1", "0,1", "1,0", "0,1,ffffffff", "0,0"],
    "hmac": [1, 2, 3, 5, 6, 100, 0],
    "zf": [1, 0],
}
DIM_KINDS = {"flags": ("v21",), "chain": ("v21", "v20s"), "rkh": ("v21", "v20s")}


def lattice(k: int) -> list:
    """All departure dicts with <= k non-base dimensions, fewest departures first."""
    names = list(DIMS)
    out: list = [{}]
    for r in range(1, k + 1):
        for combo in itertools.combinations(names, r):
            for vals in itertools.product(*[DIMS[n][1:] for n in combo]):
                out.append(dict(zip(combo, vals)))
    return out


def applicable(dep: dict, kind: str) -> bool:
    return all(kind in DIM_KINDS.get(n, KINDS) for n in dep)


# ---------------------------------------------------------------------------------------------
# "what was given": the meaning of a command spec, written from the command descriptions
# (elftosb/KBOOT boot commands), independent of spsdk


def fill_word(pattern: int) -> int:
    """FILL pattern: a 1-byte value is replicated 4x, a 2-byte value 2x, 3/4-byte values are a word."""
    nbytes = max(1, (pattern.bit_length() + 7) // 8)
    if nbytes == 1:
        return pattern * 0x01010101
    if nbytes == 2:
        return pattern * 0x00010001
    return pattern


def payload(seed: int, sec: int, idx: int, n: int) -> bytes:
    return core.seeded_bytes(seed, f"load|{sec}|{idx}|{n}", n)


def expected_semantic(spec: list, seed: int, sec: int, idx: int) -> dict:
    k = spec[0]
    if k in ("nop", "reset"):
        return {"cmd": k}
    if k == "tag":
        return {"cmd": "tag", "flags": 0, "address": 0, "count": 0, "data": 0}
    if k == "load":
        return {"cmd": "load", "address": spec[1], "mem_id": spec[2], "flags_other": 0,
                "payload": payload(seed, sec, idx, spec[3])}
    if k == "fill":
        return {"cmd": "fill", "address": spec[1], "length": spec[3], "pattern_word": fill_word(spec[2]), "flags": 0}
    if k == "jump":
        return {"cmd": "jump", "address": spec[1], "argument": spec[2], "sp": spec[3], "flags_other": 0}
    if k == "call":
        return {"cmd": "call", "address": spec[1], "argument": spec[2], "flags": 0}
    if k == "erase":
        return {"cmd": "erase", "address": spec[1], "length": spec[2], "mem_id": spec[4], "flags_other": spec[3] & 0xF}
    if k == "memen":
        return {"cmd": "mem_enable", "address": spec[1], "size": spec[2], "mem_id": spec[3], "flags_other": 0}
    if k == "prog":
        return {"cmd": "prog", "address": spec[1], "mem_id": spec[2], "eight_byte": 1 if spec[4] else 0,
                "word1": spec[3], "word2": spec[4], "flags_other": 0}
    if k == "cver":
        return {"cmd": "fw_version_check", "type": spec[1], "version": spec[2], "flags": 0}
    if k == "ksb":  # CmdKeyStoreBackup = "backup keystore from non-volatile memory" (tag 0xD)
        return {"cmd": "keystore_from_nv", "address": spec[1], "mem_id": spec[2], "flags_other": 0}
    if k == "ksr":  # CmdKeyStoreRestore = "restore keystore to non-volatile memory" (tag 0xC)
        return {"cmd": "keystore_to_nv", "address": spec[1], "mem_id": spec[2], "flags_other": 0}
    raise core.HarnessError(f"unknown command spec {spec}")


def spec_blocks(spec: list) -> int:
    return 1 + (spec[3] + 15) // 16 if spec[0] == "load" else 1


def diff_semantic(exp: dict, got: dict, zero_fill: bool, pad: bytes = b"") -> list:
    """Fields in which a decoded command differs from the given one.

    LOAD: the ROM writes exactly `count` bytes, so the decoded data must be the given data, on the given length
    (elftosb writes the true length into `count`: golden legacy_real_example3.sb has LOAD counts 4 and 15068 with 12
    and 4 padding bytes).  A count that was rounded up to 16 is reported under its own discriminator
    (`count-padded`); the bytes after the given length are judged only when zero filling was asked."""
    if exp["cmd"] != got.get("cmd"):
        return ["kind"]
    bad = []
    for f, v in exp.items():
        if f == "payload":
            g = got.get("payload", b"")
            n = len(v)
            if g[:n] != v:
                bad.append("data")
            elif len(g) != n:
                bad.append("count-padded" if len(g) == (n + 15) // 16 * 16 else "count")
            if g[:n] == v and zero_fill and any(g[n:] + pad):
                bad.append("zero-fill")
        elif got.get(f) != v:
            bad.append(f)
    return bad


# ---------------------------------------------------------------------------------------------
# per-process caches (forked workers)

_CACHE: dict = {}


def _cert_der(rel: str) -> bytes:
    key = ("der", rel)
    if key not in _CACHE:
        _CACHE[key] = fixtures.read(rel + ".der")
    return _CACHE[key]


def _cert_obj(rel: str):
    from spsdk.crypto.certificate import Certificate

    key = ("cert", rel)
    if key not in _CACHE:
        _CACHE[key] = Certificate.parse(_cert_der(rel))
    return _CACHE[key]


def _sig_provider(key_name: str):
    from spsdk.crypto.signature_provider import get_signature_provider

    key = ("sp", key_name)
    if key not in _CACHE:
        _CACHE[key] = get_signature_provider(local_file_key=fixtures.key_path(key_name, private=True, enc="pem"))
    return _CACHE[key]


def _chain(chain: str) -> tuple:
    root, depth = chain.split("/")
    if ("ci",) not in _CACHE:
        _CACHE[("ci",)] = fixtures.cert_index()
    ent = _CACHE[("ci",)][root]
    return ent[depth]["chain"], ent[depth]["signing_key"]


def _root_hash_of_der(der: bytes) -> bytes:
    from cryptography import x509

    from vf.ref import certblock_v1

    return certblock_v1.rsa_key_hash(x509.load_der_x509_certificate(der).public_key())


def rkh_layout(rkh: str, chain: str) -> list:
    """-> 4 entries: certificate relname whose key hash goes to that RKH slot, or None."""
    rels, _ = _chain(chain)
    root_rel = rels[0]
    bits = chain.split("_")[0]  # rsa2048
    if rkh == "slot0":
        return [root_rel, None, None, None]
    if rkh == "slot3":
        return [None, None, None, root_rel]
    # full table: four different root keys of the same size, the used one in slot 1
    others = [f"certs/{bits}_root{i}_ca" for i in range(4)]
    others = [o for o in others if not root_rel.startswith(o.rsplit("_", 1)[0] + "_")][:3]
    return [others[0], root_rel, others[1], others[2]]


# ---------------------------------------------------------------------------------------------
# building through the public classes


class Rejected(Exception):
    """SPSDKError out of a constructor / export: the builder does not accept this input."""


class WrongType(Exception):
    def __init__(self, where: str, exc: BaseException):
        super().__init__(f"{where}: {type(exc).__name__}: {exc}")
        self.where = where
        self.exc = exc


def mk_cmd(spec: list, seed: int, sec: int, idx: int, zf: bool):
    from spsdk.mboot.memories import ExtMemId
    from spsdk.sbfile.sb2 import commands as C

    k = spec[0]
    if k == "nop":
        return C.CmdNop()
    if k == "tag":
        return C.CmdTag()
    if k == "reset":
        return C.CmdReset()
    if k == "load":
        return C.CmdLoad(address=spec[1], data=payload(seed, sec, idx, spec[3]), mem_id=spec[2], zero_filling=zf)
    if k == "fill":
        return C.CmdFill(address=spec[1], pattern=spec[2], length=spec[3], zero_filling=zf)
    if k == "jump":
        return C.CmdJump(address=spec[1], argument=spec[2], spreg=spec[3])
    if k == "call":
        return C.CmdCall(address=spec[1], argument=spec[2])
    if k == "erase":
        return C.CmdErase(address=spec[1], length=spec[2], flags=spec[3], mem_id=spec[4])
    if k == "memen":
        return C.CmdMemEnable(address=spec[1], size=spec[2], mem_id=spec[3])
    if k == "prog":
        return C.CmdProg(address=spec[1], mem_id=spec[2], data_word1=spec[3], data_word2=spec[4])
    if k == "cver":
        return C.CmdVersionCheck(C.VersionCheckType.from_tag(spec[1]), spec[2])
    if k == "ksb":
        return C.CmdKeyStoreBackup(spec[1], ExtMemId.from_tag(spec[2]))
    if k == "ksr":
        return C.CmdKeyStoreRestore(spec[1], ExtMemId.from_tag(spec[2]))
    raise core.HarnessError(f"unknown command spec {spec}")


def key_bytes(kind: str, tag: str, seed: int, n: int = 32) -> bytes:
    if kind == "zero":
        return bytes(n)
    if kind == "ff":
        return b"\xff" * n
    if kind == "seed16":
        return core.seeded_bytes(seed, tag, 16)
    return core.seeded_bytes(seed, tag, n)


def parse_ts(txt: str) -> _dt.datetime:
    return _dt.datetime.strptime(txt, "%Y-%m-%dT%H:%M:%S").replace(tzinfo=_dt.timezone.utc)


def unix_of(txt: str) -> int:
    d = parse_ts(txt)
    return (d - _dt.datetime(1970, 1, 1, tzinfo=_dt.timezone.utc)) // _dt.timedelta(seconds=1)


def nonce_bytes(kind: str, seed: int, total_blocks: int, start_block: int) -> bytes:
    base = bytearray(core.seeded_bytes(seed, "nonce", 16))
    if kind == "seed":
        base[15] &= 0x7F  # word 3 < 2^31: no counter wrap inside any file of this check
        return bytes(base)
    if kind == "zero":
        return bytes(16)
    word = {"hi": 0x80000000, "fit": (1 << 32) - total_blocks, "wrap-last": (1 << 32) - total_blocks + 1,
            "wrap-mid": (1 << 32) - start_block - 2, "max": U32}[kind]
    base[12:16] = word.to_bytes(4, "little")
    return bytes(base)


def norm_version(txt: str) -> str:
    return ".".join(str(int(p)) for p in txt.split("."))


def resolve(case: dict) -> dict:
    """Full parameter set of a case (base values + departures)."""
    dep = case.get("h", {})
    p = {n: dep.get(n, vals[0]) for n, vals in DIMS.items()}
    p["kind"] = case["k"]
    if "s" in case:
        p["sections"] = case["s"]
    else:
        uids = [int(u, 16) for u in p["secs"].split(",")]
        progs = [BASE_PROGRAM] + ALT_PROGRAMS
        p["sections"] = [[uid, p["hmac"], progs[i % len(progs)]] for i, uid in enumerate(uids)]
    return p


def build_image(p: dict, seed: int, nonce: bytes):
    """Construct the image through the public classes.  Returns (image, export_kwargs, given) ."""
    from spsdk.exceptions import SPSDKError
    from spsdk.sbfile.sb2.images import BootImageV20, BootImageV21, BootSectionV2, SBV2xAdvancedParams
    from spsdk.utils.crypto.cert_blocks import CertBlockV1

    kind = p["kind"]
    zf = bool(p["zf"])
    dek = key_bytes(p["dek"], "dek", seed)
    mac = key_bytes(p["mac"], "mac", seed)
    kek = key_bytes(p["kek"], "kek", seed)
    padding = {"zero": bytes(8), "random": None, "pattern": bytes.fromhex("0102030405060708")}[p["pad"]]
    ts = parse_ts(p["ts"])
    try:
        sections = []
        for si, (uid, hm, prog) in enumerate(p["sections"]):
            cmds = [mk_cmd(spec, seed, si, ci, zf) for ci, spec in enumerate(prog)]
            sections.append(BootSectionV2(uid, *cmds, hmac_count=hm, zero_filling=zf))
        adv = SBV2xAdvancedParams(dek=dek, mac=mac, nonce=nonce, timestamp=ts, padding=padding)
        common = dict(product_version=p["pv"], component_version=p["cv"], build_number=p["bn"], advanced_params=adv)
        if kind == "v21":
            img = BootImageV21(kek, *sections, flags=p["flags"], **common)
        else:
            img = BootImageV20(kind == "v20s", kek, *sections, **common)
        chain_ders = []
        table = [bytes(32)] * 4
        if kind != "v20u":
            rels, signing_key = _chain(p["chain"])
            cb = CertBlockV1(build_number=p["bn"])
            for slot, rel in enumerate(rkh_layout(p["rkh"], p["chain"])):
                if rel is not None:
                    cb.set_root_key_hash(slot, _cert_obj(rel))
                    table[slot] = _root_hash_of_der(_cert_der(rel))
            for rel in rels:
                cb.add_certificate(_cert_obj(rel))
                chain_ders.append(_cert_der(rel))
            img.cert_block = cb
            img.signature_provider = _sig_provider(signing_key)
    except SPSDKError as e:
        raise Rejected(f"{type(e).__name__}: {e}")
    except (core.Watchdog, core.HarnessError):
        raise
    except Exception as e:  # noqa
        raise WrongType("build", e)
    given = {"dek": dek, "mac": mac, "kek": kek, "padding": padding, "chain": chain_ders, "rkh": table}
    return img, {"padding": padding}, given


def do_export(img, kwargs: dict) -> bytes:
    from spsdk.exceptions import SPSDKError

    try:
        return img.export(**kwargs)
    except SPSDKError as e:
        raise Rejected(f"{type(e).__name__}: {e}")
    except (core.Watchdog, core.HarnessError):
        raise
    except Exception as e:  # noqa
        raise WrongType("export", e)


def _site(exc: BaseException) -> str:
    """Innermost spsdk frame of an exception (function name), for discriminators."""
    tb = exc.__traceback__
    name = "?"
    while tb is not None:
        fn = tb.tb_frame.f_code.co_filename
        if os.sep + "spsdk" + os.sep in fn:
            name = os.path.basename(fn)[:-3] + "." + tb.tb_frame.f_code.co_name
        tb = tb.tb_next
    return name


# ---------------------------------------------------------------------------------------------
# reading SPSDK's parse result through public attributes


def parsed_semantic(cmd) -> dict:
    from spsdk.sbfile.sb2 import commands as C

    if isinstance(cmd, C.CmdNop):
        return {"cmd": "nop"}
    if isinstance(cmd, C.CmdReset):
        return {"cmd": "reset"}
    if isinstance(cmd, C.CmdTag):
        h = cmd.header
        return {"cmd": "tag", "flags": h.flags, "address": h.address, "count": h.count, "data": h.data}
    if isinstance(cmd, C.CmdLoad):
        # what the parser recovered = `count` bytes of data (cmd.data itself is documented to keep the block padding)
        return {"cmd": "load", "address": cmd.address, "mem_id": cmd.mem_id, "flags_other": cmd.flags & 0xF,
                "payload": bytes(cmd.data)[:cmd.header.count]}
    if isinstance(cmd, C.CmdFill):
        return {"cmd": "fill", "address": cmd.address, "length": cmd.header.count,
                "pattern_word": int.from_bytes(cmd.pattern, "big"), "flags": cmd.header.flags}
    if isinstance(cmd, C.CmdJump):
        return {"cmd": "jump", "address": cmd.address, "argument": cmd.argument, "sp": cmd.spreg,
                "flags_other": cmd.header.flags & ~2}
    if isinstance(cmd, C.CmdCall):
        return {"cmd": "call", "address": cmd.address, "argument": cmd.argument, "flags": cmd.header.flags}
    if isinstance(cmd, C.CmdErase):
        return {"cmd": "erase", "address": cmd.address, "length": cmd.length, "mem_id": cmd.mem_id,
                "flags_other": cmd.flags & 0xF}
    if isinstance(cmd, C.CmdMemEnable):
        return {"cmd": "mem_enable", "address": cmd.address, "size": cmd.size, "mem_id": cmd.mem_id,
                "flags_other": cmd.flags & 0xF}
    if isinstance(cmd, C.CmdProg):
        return {"cmd": "prog", "address": cmd.address, "mem_id": cmd.mem_id, "eight_byte": cmd.is_eight_byte,
                "word1": cmd.data_word1, "word2": cmd.data_word2, "flags_other": cmd.flags & 0xFE}
    if isinstance(cmd, C.CmdVersionCheck):
        return {"cmd": "fw_version_check", "type": cmd.type.tag, "version": cmd.version, "flags": cmd.header.flags}
    if isinstance(cmd, C.CmdKeyStoreBackup):
        return {"cmd": "keystore_from_nv", "address": cmd.address, "mem_id": cmd.controller_id,
                "flags_other": cmd.header.flags & 0xFF}
    if isinstance(cmd, C.CmdKeyStoreRestore):
        return {"cmd": "keystore_to_nv", "address": cmd.address, "mem_id": cmd.controller_id,
                "flags_other": cmd.header.flags & 0xFF}
    return {"cmd": type(cmd).__name__}


def parsed_content(obj) -> dict:
    """Property-relevant content of a parsed BootImageV20/V21."""
    h = obj.header
    secs = []
    for s in obj:
        secs.append({"uid": s.uid, "hmac_count": s.hmac_count, "commands": [parsed_semantic(c) for c in s]})
    return {
        "version": h.version, "flags": h.flags, "product_version": str(h.product_version),
        "component_version": str(h.component_version), "build_number": h.build_number,
        "timestamp_unix": int(h.timestamp.timestamp()), "nonce": h.nonce, "dek": obj.dek, "mac": obj.mac,
        "sections": secs,
    }


def spsdk_parse(kind: str, data: bytes, kek: bytes):
    from spsdk.sbfile.sb2.images import BootImageV20, BootImageV21

    if kind == "v21":
        return BootImageV21.parse(data, kek=kek)
    return BootImageV20.parse(data, kek=kek)


# ---------------------------------------------------------------------------------------------
# the oracle on one built image


def rom_content(rom: dict) -> dict:
    from vf.ref import rom_sb2

    h = rom["header"]
    return {
        "version": rom["version"], "flags": h["flags"], "product_version": h["product_version"],
        "component_version": h["component_version"], "build_number": h["build_number"],
        "timestamp_unix": h["timestamp_us"] // 1000000 + rom_sb2.EPOCH_2000_UNIX if h["timestamp_us"] % 1000000 == 0 else None,
        "nonce": h["nonce"], "dek": rom["dek"], "mac": rom["mac"],
        "sections": [{"uid": s["uid"], "hmac_count": s["hmac_count"],
                      "commands": [rom_sb2.semantic(c) for c in s["commands"]],
                      "pads": [c.get("padding", b"") for c in s["commands"]]} for s in rom["sections"]],
    }


def given_content(p: dict, seed: int, nonce: bytes, given: dict) -> dict:
    kind = p["kind"]
    secs = []
    for si, (uid, hm, prog) in enumerate(p["sections"]):
        blocks = sum(spec_blocks(s) for s in prog)
        secs.append({"uid": uid, "hmac_count": min(hm if isinstance(hm, int) and hm > 0 else 1, blocks),
                     "commands": [expected_semantic(s, seed, si, ci) for ci, s in enumerate(prog)]})
    return {
        "version": "2.1" if kind == "v21" else "2.0",
        "flags": p["flags"] if kind == "v21" else (0x08 if kind == "v20s" else 0x04),
        "product_version": norm_version(p["pv"]), "component_version": norm_version(p["cv"]),
        "build_number": p["bn"], "timestamp_unix": unix_of(p["ts"]), "nonce": nonce,
        "dek": given["dek"], "mac": given["mac"], "sections": secs,
    }


HDR_FIELDS = ("version", "flags", "product_version", "component_version", "build_number", "timestamp_unix", "nonce")


def compare_content(prefix: str, kind: str, exp: dict, got: dict, zero_fill: bool, viol: list, ref: Optional[dict] = None) -> None:
    """exp = what was given; got = decoded (ROM model: prefix 'rom', SPSDK parser: prefix 'parse').

    With `ref` (content recovered by the ROM model from the same bytes) a parser difference is reported only
    when the parser also differs from `ref` (DESIGN §1.7: a dependent clause does not repeat the writer's defect)."""

    def differs(path_exp, path_got, path_ref):
        if path_exp == path_got:
            return False
        if ref is not None and path_ref is not None and path_ref == path_got:
            return False
        return True

    for f in HDR_FIELDS:
        if differs(exp[f], got[f], ref[f] if ref else None):
            viol.append((f"C04.{prefix}-header-field", f"{kind[:3]}:{f}" if prefix == "parse" else f,
                         f"{f}: given {exp[f]!r}, {prefix} {got[f]!r}" + (f", file holds {ref[f]!r}" if ref else "")))
    if prefix == "rom":
        for f in ("dek", "mac"):
            if exp[f] != got[f]:
                viol.append(("C04.rom-keys", f, f"{f}: given {exp[f].hex()}, unwrapped {got[f].hex()}"))
    es, gs = exp["sections"], got["sections"]
    rs = ref["sections"] if ref else None
    if len(es) != len(gs) and not (rs is not None and len(rs) == len(gs)):
        viol.append((f"C04.{prefix}-sections", f"{kind[:3]}:count" if prefix == "parse" else "count",
                     f"{len(es)} sections given, {len(gs)} returned"))
    for i, (e, g) in enumerate(zip(es, gs)):
        r = rs[i] if rs is not None and i < len(rs) else None
        for f in ("uid", "hmac_count"):
            if differs(e[f], g[f], r[f] if r else None):
                viol.append((f"C04.{prefix}-sections", f, f"section {i}: {f} given {e[f]}, got {g[f]}"))
        if len(e["commands"]) != len(g["commands"]) and not (r is not None and len(r["commands"]) == len(g["commands"])):
            viol.append((f"C04.{prefix}-commands", "count", f"section {i}: {len(e['commands'])} commands given, "
                         f"{len(g['commands'])} decoded: {[c.get('cmd') for c in g['commands']]}"))
        for j, (ec, gc) in enumerate(zip(e["commands"], g["commands"])):
            pad = g.get("pads", [b""] * len(g["commands"]))[j] if "pads" in g else b""
            bad = diff_semantic(ec, gc, zero_fill, pad)
            if bad and r is not None and j < len(r["commands"]):
                # the parser may faithfully return what the file holds
                rc = dict(r["commands"][j])
                if not diff_semantic(rc, gc, False) and not diff_semantic(gc, rc, False):
                    bad = []
            for f in bad:
                viol.append((f"C04.{prefix}-commands", f"{ec['cmd']}:{f}",
                             f"section {i} command {j}: given {_short(ec)}, {prefix} {_short(gc)}"))


def _short(c: dict) -> str:
    d = {k: (v.hex()[:40] + f"..({len(v)}B)" if isinstance(v, (bytes, bytearray)) else v) for k, v in c.items()}
    return core.jdump(d)


def flip_positions(a: int, b: int, every: bool = False) -> list:
    """Byte offsets + bit for the single-bit flips inside region [a, b)."""
    if every:
        return [(o, bit) for o in range(a, b) for bit in range(8)]
    pos = sorted({a, (a + b - 1) // 2, b - 1})
    return [(o, (o * 5 + 3) % 8) for o in pos]


def region_class(name: str) -> str:
    """Region name with indices removed (discriminator)."""
    import re

    if re.match(r"^s[1-9]\d*-", name):
        return "sN"  # any region of a section after the first
    n = re.sub(r"(hmac|group)\d+$", r"\1", name)
    n = re.sub(r"^cert\d+-", "certN-", n)
    return n


def tamper_sweep(kind: str, data: bytes, kek: bytes, rom: dict, base_parse_ok: bool, viol: list, count: dict,
                 every_bit_below: int = 0, base_content: Optional[str] = None, part: Optional[list] = None) -> None:
    from spsdk.exceptions import SPSDKError

    from vf.ref import rom_sb2

    trials = []  # (label, region class, data, kek, authenticated)
    for i in (0, len(kek) - 1):
        k2 = bytearray(kek)
        k2[i] ^= 1
        trials.append((f"kek^1@{i}", "kek", data, bytes(k2), True))
    for (name, a, b, auth) in rom["regions"]:
        if b <= a:
            continue
        for (o, bit) in flip_positions(a, b, every=(b - a) * 8 <= every_bit_below):
            d2 = bytearray(data)
            d2[o] ^= 1 << bit
            trials.append((f"{name}@{o}.{bit}", region_class(name), bytes(d2), kek, auth))
    # truncation by one block (trailing extra bytes are not a corruption of the image: not tried)
    trials.append(("truncate-16", "sN" if len(rom["sections"]) > 1 else "s0-group", data[:-16], kek, True))
    if part is not None:  # a big sweep is split over several cases: this one takes every n-th trial
        trials = trials[part[0]::part[1]]
    for label, rclass, d2, k2, auth in trials:
        count["tamper_trials"] = count.get("tamper_trials", 0) + 1
        try:
            rom_sb2.process(d2, k2)
            rom_ok = True
        except rom_sb2.RomReject:
            rom_ok = False
        if rom_ok and auth:
            viol.append(("C04.tamper-rom-accepts", f"{kind}:{rclass}", f"{label}: the ROM model still accepts the file"))
        if not base_parse_ok:
            continue
        try:
            obj2 = spsdk_parse(kind, d2, k2)
            outcome = "returned"
        except SPSDKError:
            outcome = "spsdk"
        except (core.Watchdog, core.HarnessError):
            raise
        except Exception as e:  # noqa
            outcome = type(e).__name__ + "@" + _site(e)
        if outcome == "returned":
            if not rom_ok:
                viol.append(("C04.tamper-parse-accepts", f"{kind}:{rclass}",
                             f"{label}: parse() returned normally, ROM model refuses the file"))
            else:
                count["tamper_unauthenticated_accepted"] = count.get("tamper_unauthenticated_accepted", 0) + 1
            if base_content is not None and core.jdump(parsed_content(obj2)) != base_content:
                viol.append(("C04.tamper-parse-other-content", f"{kind}:{rclass}",
                             f"{label}: parse() returned content different from the parse of the intact file"))
        elif outcome != "spsdk":
            # The property demands "raises an error rather than returning different content"; it does not name the
            # exception family. A non-SPSDK exception type is therefore an observation (counted per type@site), not
            # a violation (decision recorded in DESIGN.md 29.2).
            count["tamper_non_spsdk_error"] = count.get("tamper_non_spsdk_error", 0) + 1
            count["tamper_error_type:" + outcome] = count.get("tamper_error_type:" + outcome, 0) + 1
        else:
            count["tamper_rejected_by_parser"] = count.get("tamper_rejected_by_parser", 0) + 1


def run_case(case: dict, seed: int) -> dict:
    """Build, export, judge.  `case`: {"k": kind, "s": sections | absent, "h": departures, "t": tamper level}."""
    from spsdk.exceptions import SPSDKError

    from vf.ref import rom_sb2

    viol: list = []
    count: dict = {}
    distinct: list = []
    p = resolve(case)
    kind = p["kind"]
    tz = p["tz"]
    old_tz = os.environ.get("TZ")
    if tz != (old_tz or "UTC"):
        os.environ["TZ"] = tz
        time.tzset()
    try:
        nonce_kind = p["nonce"]
        nonce = nonce_bytes("seed" if nonce_kind in ("fit", "wrap-last", "wrap-mid", "max", "hi") else nonce_kind, seed, 0, 0)
        try:
            img, ekw, given = build_image(p, seed, nonce)
            data = do_export(img, ekw)
            if nonce_kind in ("hi", "fit", "wrap-last", "wrap-mid", "max"):
                # second build with a nonce placed relative to the (now known) layout
                total = len(data) // 16
                pre = rom_sb2.process(data, given["kek"])  # layout of the dry export (same sizes)
                nonce = nonce_bytes(nonce_kind, seed, total, pre["sections_start"] // 16)
                img, ekw, given = build_image(p, seed, nonce)
                data = do_export(img, ekw)
        except Rejected as e:
            count["rejected"] = 1
            return {"viol": [], "count": count, "distinct": [], "rejected": str(e)[:200]}
        except WrongType as e:
            clause = "C04.build-error-type" if e.where == "build" else "C04.export-error-type"
            viol.append((clause, f"{type(e.exc).__name__}@{_site(e.exc)}", str(e)[:300]))
            return {"viol": core.dedupe(viol), "count": count, "distinct": []}
        except rom_sb2.RomReject as e:
            viol.append(("C04.rom-accepts", f"{kind[:3]}:{e.stage}", f"dry export: {e}"))
            return {"viol": core.dedupe(viol), "count": count, "distinct": []}
        count["accepted"] = 1
        exp = given_content(p, seed, nonce, given)
        zero_fill = bool(p["zf"])
        # ---- ROM model
        rom = None
        romc = None
        try:  # key blob on its own, so that wrong keys are named as such and not as the first failing MAC
            keys = rom_sb2.rfc3394_unwrap(given["kek"], data[128:200])
            for f, v in (("dek", keys[:32]), ("mac", keys[32:])):
                if v != given[f]:
                    viol.append(("C04.rom-keys", f, f"{f}: given {given[f].hex()}, unwrapped {v.hex()}"))
        except rom_sb2.RomReject:
            pass  # reported by the full run below
        try:
            rom = rom_sb2.process(data, given["kek"])
        except rom_sb2.RomReject as e:
            viol.append(("C04.rom-accepts", f"{kind[:3]}:{e.stage}", str(e)[:300]))
        if rom is not None:
            romc = rom_content(rom)
            compare_content("rom", kind, exp, romc, zero_fill, viol)
            if given["padding"] is not None and rom["header"]["pad0"] + rom["header"]["pad1"] != given["padding"]:
                viol.append(("C04.rom-header-field", "padding", "header padding differs from the padding supplied"))
            if kind != "v20u":
                cb = rom["cert"]
                if cb["certs"] != [_pad4(d) for d in given["chain"]]:
                    viol.append(("C04.rom-cert", "chain", "certificates in the block differ from the chain supplied"))
                if cb["rkh"] != given["rkh"]:
                    viol.append(("C04.rom-cert", "rkh-table", "RKH table differs from SHA-256(n||e) of the root certificates supplied"))
                if "cert-build-number-differs" in rom["notes"]:
                    viol.append(("C04.rom-cert", "build-number", "certificate block build number != header build number"))
            for n in rom["notes"]:
                count["note:" + n] = 1
            distinct.append(core.short_hash([kind, case.get("s"), case.get("h", {}), case.get("tp")]))
        # ---- SPSDK's own parser
        base_parse_ok = False
        try:
            obj = spsdk_parse(kind, data, given["kek"])
            got = parsed_content(obj)
            base_parse_ok = True
        except SPSDKError as e:
            viol.append(("C04.parse-raises", f"{kind[:3]}:SPSDKError@{_site(e)}", f"{e}"[:300]))
            got = None
        except (core.Watchdog, core.HarnessError):
            raise
        except Exception as e:  # noqa
            viol.append(("C04.parse-raises", f"{kind[:3]}:{type(e).__name__}@{_site(e)}", f"{type(e).__name__}: {e}"[:300]))
            got = None
        if got is not None and kind == "v21" and (case.get("po") or case.get("hist") is not None or not case.get("h")):
            # the documented `offset` parameter: the same file embedded behind a prefix must parse to the same content
            from spsdk.sbfile.sb2.images import BootImageV21

            for off in (16, 0x400, len(data) + 16):
                count["parse_with_offset"] = count.get("parse_with_offset", 0) + 1
                pre = core.seeded_bytes(seed, f"prefix{off}", off)
                try:
                    got_o = parsed_content(BootImageV21.parse(pre + data, offset=off, kek=given["kek"]))
                except SPSDKError as e:
                    viol.append(("C04.parse-offset", "raises-SPSDKError", f"offset {off:#x}: {e}"[:300]))
                    continue
                except (core.Watchdog, core.HarnessError):
                    raise
                except Exception as e:  # noqa
                    viol.append(("C04.parse-offset", f"raises-{type(e).__name__}", f"offset {off:#x}: {type(e).__name__}: {e}"[:300]))
                    continue
                if core.jdump(got_o) != core.jdump(got):
                    ns, no = len(got["sections"]), len(got_o["sections"])
                    viol.append(("C04.parse-offset", "sections-count" if ns != no else "content",
                                 f"parse(prefix + file, offset={off:#x}) differs from parse(file): {no} vs {ns} sections"))
        if got is not None:
            compare_content("parse", kind, exp, got, False, viol, ref=romc)
            if romc is not None:
                for f in ("dek", "mac"):
                    if got[f] != romc[f]:
                        viol.append(("C04.parse-header-field", f"{kind[:3]}:{f}", f"parser {f} differs from the unwrapped key"))
        # ---- history on the same objects: change a command, build again (the second file is a file SPSDK builds, too)
        if case.get("hist") and rom is not None:
            viol += run_history(case["hist"], img, ekw, given, kind, exp, zero_fill, seed, count)
        # ---- tamper sweep
        if case.get("t") and rom is not None:
            tamper_sweep(kind, data, given["kek"], rom, base_parse_ok, viol, count,
                         every_bit_below=case.get("t", 0) if case.get("t", 0) > 1 else 0,
                         base_content=core.jdump(got) if got is not None else None, part=case.get("tp"))
        return {"viol": core.dedupe(viol), "count": count, "distinct": distinct}
    finally:
        if tz != (old_tz or "UTC"):
            if old_tz is None:
                os.environ.pop("TZ", None)
            else:
                os.environ["TZ"] = old_tz
            time.tzset()


HIST_STEPS = ["same", "swap", "grow", "shrink", "addr", "append"]


def run_history(steps: list, img, ekw: dict, given: dict, kind: str, exp: dict, zero_fill: bool, seed: int, count: dict) -> list:
    """Apply each step to the live builder objects (and to a copy of the expectation), export again, let the ROM model
    decode the new file.  swap/grow/shrink replace the data of every LOAD by other bytes (same / longer / shorter),
    addr moves every LOAD, append adds a NOP to every section.  A padded count (known finding of the base clause) is not
    repeated here."""
    import copy

    from spsdk.sbfile.sb2.commands import CmdLoad, CmdNop

    from vf.ref import rom_sb2

    viol: list = []
    exp = copy.deepcopy(exp)
    for n, step in enumerate(steps):
        tag = "+".join(steps[:n + 1])
        for si, sect in enumerate(img):
            ecmds = exp["sections"][si]["commands"]
            for ci, cmd in enumerate(sect):
                if not isinstance(cmd, CmdLoad):
                    continue
                cur = len(cmd.data)
                if step in ("swap", "grow", "shrink"):
                    ln = {"swap": cur, "grow": cur + 5, "shrink": max(1, cur - 17)}[step]
                    new = core.seeded_bytes(seed, f"hist|{n}|{si}|{ci}|{step}", ln)
                    cmd.data = new
                    ecmds[ci]["payload"] = new
                elif step == "addr":
                    cmd.address = (cmd.address + 0x40) & 0xFFFFFFFF
                    ecmds[ci]["address"] = (ecmds[ci]["address"] + 0x40) & 0xFFFFFFFF
            if step == "append":
                sect.append(CmdNop())
                ecmds.append({"cmd": "nop"})
        count["history_exports"] = count.get("history_exports", 0) + 1
        try:
            data = do_export(img, ekw)
        except Rejected as e:
            viol.append(("C04.history", f"{step}:export-rejected", f"after {tag}: {e}"[:300]))
            break
        except WrongType as e:
            viol.append(("C04.history", f"{step}:export-raises-{type(e.exc).__name__}", f"after {tag}: {e}"[:300]))
            break
        try:
            rom = rom_sb2.process(data, given["kek"])
        except rom_sb2.RomReject as e:
            viol.append(("C04.history", f"{step}:rom-rejects:{e.stage}", f"after {tag}: {e}"[:300]))
            break
        got = rom_content(rom)
        exp_h = dict(exp)
        for si, sct in enumerate(exp_h["sections"]):
            blocks = sum(1 + (len(c["payload"]) + 15) // 16 if c["cmd"] == "load" else 1 for c in sct["commands"])
            sct["hmac_count"] = min(sct["hmac_count"], blocks) if step != "append" else got["sections"][si]["hmac_count"]
        tmp: list = []
        compare_content("rom", kind, exp_h, got, zero_fill, tmp)
        for cl, disc, det in tmp:
            if disc.endswith("count-padded"):
                continue
            viol.append(("C04.history", f"{step}:{cl.split('.', 1)[1]}:{disc}", f"after {tag}: {det}"[:400]))
        if any(v[0] == "C04.history" for v in viol):
            break
    return viol


def _pad4(der: bytes) -> bytes:
    return der + bytes(-len(der) % 4)


# ---------------------------------------------------------------------------------------------
# nxpimage sb21 export / parse through click's CliRunner


def _yaml_cmd(spec: list, seed: int, idx: int, workdir: str) -> Optional[dict]:
    k = spec[0]
    if k == "load":
        fn = os.path.join(workdir, f"ld{idx}.bin")
        with open(fn, "wb") as f:
            f.write(payload(seed, 0, idx, spec[3]))
        d = {"address": spec[1], "file": fn}
        if spec[2]:
            d["load_opt"] = spec[2]
        return {"load": d}
    if k == "fill":
        return {"fill": {"address": spec[1], "pattern": spec[2]}} if spec[3] == 4 else None
    if k == "erase":
        d = {"address": spec[1], "length": spec[2]}
        if spec[4]:
            d["mem_opt"] = spec[4]
        if spec[3]:
            d["flags"] = spec[3]
        return {"erase": d}
    if k == "jump":
        return {"jump": {"address": spec[1]}} if spec[3] is None and spec[2] == 0 else None
    if k == "reset":
        return {"reset": {}}
    return None


CLI_PROGRAM = [["erase", A_LO, 0x1000, 0, 0], ["load", A_MID, 0, 17], ["load", 0x100, 0x9, 32], ["fill", A_MID, 0x12345678, 4],
               ["erase", A_MID, 0x100, 0, 0x9], ["jump", A_MID, 0, None]]


def run_cli_case(case: dict, seed: int) -> dict:
    """case: {"cli": 1, "h": departures restricted to pv, cv, flags, ts, dek, mac, nonce, chain}."""
    import tempfile

    import yaml
    from click.testing import CliRunner

    from spsdk.apps import nxpimage
    from vf.ref import rom_sb2

    viol: list = []
    count: dict = {"cli_cases": 1}
    dep = case.get("h", {})
    p = {n: dep.get(n, vals[0]) for n, vals in DIMS.items()}
    p["kind"] = "v21"
    p["sections"] = [[0, 1, CLI_PROGRAM]]
    rels, signing_key = _chain(p["chain"])
    root_rel = rels[0]
    dek = key_bytes(p["dek"], "dek", seed)
    mac = key_bytes(p["mac"], "mac", seed)
    kek = key_bytes("seed", "kek", seed)
    nonce = nonce_bytes(p["nonce"], seed, 0, 0)
    with tempfile.TemporaryDirectory(prefix="vf-c04-cli-") as td:
        cb_cfg: dict = {"imageBuildNumber": p["bn"], "mainRootCertId": 0,
                        "rootCertificate0File": fixtures.path(root_rel + ".der")}
        for i, rel in enumerate(rels[1:]):
            cb_cfg[f"chainCertificate0File{i}"] = fixtures.path(rel + ".der")
        cb_path = os.path.join(td, "cert_block.yaml")
        with open(cb_path, "w") as f:
            yaml.safe_dump(cb_cfg, f)
        cfg: dict = {
            "family": "rt5xx",
            "containerOutputFile": os.path.join(td, "out.sb"),
            "containerKeyBlobEncryptionKey": kek.hex(),
            "signPrivateKey": fixtures.key_path(signing_key, private=True, enc="pem"),
            "certBlock": cb_path,
            "RKTHOutputPath": os.path.join(td, "rkth.bin"),
            "options": {"flags": p["flags"], "productVersion": p["pv"], "componentVersion": p["cv"],
                        "secureBinaryVersion": "2.1", "zeroPadding": True, "dek": dek.hex(), "mac": mac.hex(),
                        "nonce": nonce.hex(), "timestamp": unix_of(p["ts"])},
            "sections": [{"commands": [c for c in (_yaml_cmd(s, seed, i, td) for i, s in enumerate(CLI_PROGRAM)) if c]}],
        }
        cpath = os.path.join(td, "cfg.yaml")
        with open(cpath, "w") as f:
            yaml.safe_dump(cfg, f)
        runner = CliRunner()
        r = runner.invoke(nxpimage.main, ["sb21", "export", "-c", cpath], catch_exceptions=True)
        if r.exit_code != 0 or not os.path.exists(cfg["containerOutputFile"]):
            from spsdk.exceptions import SPSDKError

            if isinstance(r.exception, SPSDKError):
                count["rejected"] = 1
                return {"viol": [], "count": count, "distinct": [], "rejected": str(r.exception)[-300:]}
            viol.append(("C04.cli", "export-failed", f"exit {r.exit_code}: {(r.output or '')[-300:]} {r.exception!r}"))
            return {"viol": viol, "count": count, "distinct": []}
        data = open(cfg["containerOutputFile"], "rb").read()
        count["accepted"] = 1
        given = {"dek": dek, "mac": mac}
        exp = given_content(p, seed, nonce, given)
        try:
            rom = rom_sb2.process(data, kek)
            compare_content("rom", "v21", exp, rom_content(rom), True, viol)
            rkth = open(cfg["RKTHOutputPath"], "rb").read()
            if rkth != rom["cert"]["rkth"]:
                viol.append(("C04.cli", "rkth-file", "RKTH written by the CLI differs from SHA-256 of the RKH table in the file"))
        except rom_sb2.RomReject as e:
            viol.append(("C04.rom-accepts", f"v21:{e.stage}", "cli: " + str(e)[:300]))
        # same input through the API must give the same bytes (zero padding, deterministic signature)
        try:
            img, ekw, _g = build_image(p | {"kek": "seed", "pad": "zero", "zf": 1, "hmac": 1, "rkh": "slot0"}, seed, nonce)
            api = do_export(img, ekw)
            if api != data:
                i = next((i for i, (x, y) in enumerate(zip(api, data)) if x != y), min(len(api), len(data)))
                viol.append(("C04.cli", "api-vs-cli-bytes", f"first difference at offset {i} (api {len(api)} B, cli {len(data)} B)"))
        except (Rejected, WrongType) as e:
            viol.append(("C04.cli", "api-rejects", str(e)[:200]))
        kpath = os.path.join(td, "kek.txt")
        open(kpath, "w").write(kek.hex())
        out = os.path.join(td, "parsed")
        r = runner.invoke(nxpimage.main, ["sb21", "parse", "-b", cfg["containerOutputFile"], "-k", kpath, "-o", out])
        if r.exit_code != 0:
            viol.append(("C04.cli", "parse-failed", f"exit {r.exit_code}: {(r.output or '')[-300:]}"))
        else:
            # dumped load data = given data (padding allowed)
            for i, s in enumerate(CLI_PROGRAM):
                if s[0] == "load":
                    fn = os.path.join(out, f"section_0_load_command_{i}_data.bin")
                    want = payload(seed, 0, i, s[3])
                    if not os.path.exists(fn) or open(fn, "rb").read()[:len(want)] != want:
                        viol.append(("C04.cli", "parse-load-dump", f"load command {i}: dumped data differs"))
        bad = bytearray(kek)
        bad[0] ^= 1
        open(kpath, "w").write(bytes(bad).hex())
        r = runner.invoke(nxpimage.main, ["sb21", "parse", "-b", cfg["containerOutputFile"], "-k", kpath, "-o", out + "2"])
        if r.exit_code == 0:
            viol.append(("C04.cli", "parse-wrong-kek-accepted", "nxpimage sb21 parse succeeded with a wrong KEK"))
        count["cli_wrong_kek_exit_%d" % r.exit_code] = 1
    return {"viol": core.dedupe(viol), "count": count, "distinct": [core.short_hash(["cli", dep])]}


# ---------------------------------------------------------------------------------------------
# worker entry + enumeration

_SEED = 0


def w_case(case: dict) -> dict:
    if case.get("cli"):
        return run_cli_case(case, _SEED)
    return run_case(case, _SEED)


def _init_worker() -> None:
    import logging

    logging.disable(logging.CRITICAL)


SEC3_SYMBOLS = [["reset"], ["load", A_MID, 0, 1], ["load", A_MID, 0x101, 17], ["fill", A_MID, 0xA5, 4],
                ["jump", A_LO, 0, A_HI], ["erase", A_LO, 0, 1, 0x9]]


def enumerate_cases(tier: str) -> dict:
    """Families in execution order: cheap + structural first, the long sequence sweeps last."""
    quick = tier == "quick"
    fam: dict = {}
    # lat
    k = 1 if quick else 2
    lat = []
    for dep in lattice(k):
        for kind in KINDS:
            if applicable(dep, kind):
                lat.append({"k": kind, "h": dep, "t": 1})
    if quick:
        # full-product group (always complete): digest flag x section layout (SB 2.1)
        for secs in DIMS["secs"][1:]:
            lat.append({"k": "v21", "h": {"flags": 0x8008, "secs": secs}, "t": 1})
    fam[f"lat k<={k}"] = lat
    if quick:
        fam["lat k=2 (no tamper)"] = [{"k": kind, "h": dep} for dep in lattice(2) if len(dep) == 2
                                      for kind in KINDS if applicable(dep, kind)]
    # hm: block counts 1..8 x HMAC-table sizes
    hm = []
    for nblocks in range(1, 9):
        prog: list = []
        left = nblocks
        if left >= 3:
            prog.append(["load", A_MID, 0, 16 * (left - 2) - 3])  # 1 + (left-2) blocks, unaligned
            left -= 1 + (left - 2)
        prog += [["nop"]] * left
        for h in list(range(0, 10)) + [100]:
            for kind in ("v21", "v20u"):
                hm.append({"k": kind, "s": [[0, h, prog]], "t": 1 if kind == "v21" and h in (1, 2, nblocks) else 0})
    if not quick:
        for n in (0x1000, 0x1001):  # 257 / 258 blocks
            for h in (1, 2, 5, 7, 256, 257, 258, 259, 1000):
                for kind in ("v21", "v20u"):
                    hm.append({"k": kind, "s": [[0, h, [["load", A_MID, 0, n]]]]})
    fam["hm"] = hm
    # every bit of every region <= 128 bytes (quick: <= 96 bytes, i.e. header included, on the base cases only)
    deps = ({},) if quick else ({}, {"secs": "0,1"}, {"flags": 0x8008}, {"hmac": 3}, {"chain": "rsa2048_root0/d2"},
                                {"flags": 0x8008, "secs": "0,1"})
    fam["tamper-all-bits"] = [{"k": kind, "h": dep, "t": 768 if quick else 1024, "tp": [i, 16]} for kind in KINDS
                              for dep in deps if applicable(dep, kind) for i in range(16)]
    # hist: object histories (build, change commands, build again) - every single step and every ordered pair
    hprogs = [[[0, 2, [["load", A_MID, 0, 48], ["nop"], ["load", A_MID + 0x100, 0, 5]]]],
              [[0, 1, [["load", A_MID, 0, 16]]], [1, 1, [["nop"], ["load", A_MID + 0x200, 0, 33]]]]]
    hsteps = [[a] for a in HIST_STEPS] + [[a, b] for a in HIST_STEPS for b in HIST_STEPS]
    if not quick:
        hsteps += [[a, b, c] for a in HIST_STEPS for b in HIST_STEPS for c in HIST_STEPS]
    fam["hist"] = [{"k": kind, "s": sp, "hist": st} for kind in KINDS for sp in hprogs for st in hsteps]
    # cli
    cli_deps = [{}] + [{n: v} for n in ("pv", "cv", "flags", "ts", "dek", "mac", "nonce", "bn") for v in DIMS[n][1:]
                       if not (n == "nonce" and v not in ("zero", "seed"))]
    cli_deps += [{"chain": "rsa2048_root0/d2"}, {"chain": "rsa4096_root0/d2"}]
    fam["cli"] = [{"cli": 1, "h": d} for d in cli_deps]
    # seq: one section
    fam["seq<=1:tamper"] = [{"k": kind, "s": [[0, 1, [c]]], "t": 1} for c in ALPHABET for kind in KINDS]
    seqs = [[c] for c in ALPHABET] + [[a, b] for a in ALPHABET for b in ALPHABET]
    fam["seq<=2"] = [{"k": kind, "s": [[0, 1, s]]} for s in seqs for kind in ("v21", "v20u")]
    # sec: several sections, one command each (counter continuity across sections of every size class)
    fam["sec=2"] = [{"k": kind, "s": [[0, 1, [a]], [1, 1, [b]]], "h": h} for a in ALPHABET3 for b in ALPHABET3
                    for kind, h in (("v21", {"flags": 0x8008}), ("v20u", {}))]
    if quick:
        seq3 = [[a, b, c] for a in ALPHABET3 for b in ALPHABET3 for c in ALPHABET3]
        fam["seq=3:reduced"] = [{"k": "v20u", "s": [[0, 1, s]]} for s in seq3]
    else:
        fam["sec=3"] = [{"k": kind, "s": [[7, 1, [a]], [0, 2, [b, b]], [U32, 1, [c]]], "h": h}
                        for a in SEC3_SYMBOLS for b in SEC3_SYMBOLS for c in SEC3_SYMBOLS
                        for kind, h in (("v21", {}), ("v20s", {}))]
        fam["seq=2:v20s"] = [{"k": "v20s", "s": [[0, 1, [a, b]]]} for a in ALPHABET for b in ALPHABET]
        seq3 = [[a, b, c] for a in ALPHABET for b in ALPHABET for c in ALPHABET]
        fam["seq=3"] = [{"k": kind, "s": [[0, 1, s]]} for s in seq3 for kind in ("v21", "v20u")]
        seq4 = [[a, b, c, d] for a in ALPHABET3 for b in ALPHABET3 for c in ALPHABET3 for d in ALPHABET3]
        fam["seq=4:reduced"] = [{"k": "v20u", "s": [[0, 1, s]]} for s in seq4]
    return fam


GOLDEN_KEKS = {
    "sbfile": bytes.fromhex("AC701E99BD3492E419B756EADC0985B3D3D0BC0FDB6B057AA88252204C2DA732"),
    "puf": bytes.fromhex("0123456789abcdef" * 4),
    "otp_master": bytes.fromhex("000102030405060708090a0b0c0d0e0f00112233445566778899aabbccddeeff"),
}


# Two files under tests/mcu_examples/data/rt5xx/output are referenced by no test (the parametrisations of
# test_rt5xx.py name app_ram_iar_* / app_xip_mcux_* only) and are not reproduced by the current builder: their header
# says image_blocks = file blocks + 1.  Signature, HMACs, sections and commands of both verify.  They are counted as
# stale, provided the model's only objection is that block count.
STALE_GOLDENS = {"app_ram_mcux_unsigned_keystore.sb", "app_xip_iar_unsigned_keystore.sb"}


def w_golden(path: str) -> dict:
    """Calibration of the ROM model: every golden SB2 file of the repository whose KEK is known must be accepted."""
    from cryptography.hazmat.primitives.ciphers import Cipher, algorithms, modes

    from vf.ref import rom_sb2

    data = open(path, "rb").read()
    if len(data) < 96 or data[20:24] != b"STMP" or data[24] != 2:
        return {"viol": [], "count": {"golden_not_sb2": 1}}
    enc = Cipher(algorithms.AES(GOLDEN_KEKS["otp_master"]), modes.ECB()).encryptor()  # nosec
    otp_kek = enc.update(bytes.fromhex("03" + "00" * 15 + "04" + "00" * 15))  # SB2 KEK derived from the OTP master key
    last = ""
    for kek in (GOLDEN_KEKS["sbfile"], GOLDEN_KEKS["puf"], otp_kek):
        try:
            r = rom_sb2.process(data, kek)
            return {"viol": [], "count": {"golden_accepted": 1, "golden_commands": sum(len(x["commands"]) for x in r["sections"])}}
        except rom_sb2.RomReject as e:
            last = str(e)
            if e.stage != "keyblob":
                if os.path.basename(path) in STALE_GOLDENS and e.stage == "header-blocks":
                    return {"viol": [], "count": {"golden_stale": 1}}
                return {"viol": [], "count": {"golden_rejected": 1}, "golden_rejected": f"{path}: {last}"}
    return {"viol": [], "count": {"golden_unknown_kek": 1}}


def golden_files() -> list:
    import glob

    root = os.path.join(core.REPO, "tests")
    if not os.path.isdir(root):
        root = "/repo/tests"
    out = []
    for pat in ("sbfile/data/**/*.sb2", "nxpimage/data/sb_sources/**/*.sb", "mcu_examples/data/rt5xx/output/*.sb"):
        out += glob.glob(os.path.join(root, pat), recursive=True)
    return sorted(set(out))


def run(ctx: core.Ctx) -> None:
    global _SEED
    _SEED = ctx.seed
    # import in the parent so that forked workers share the modules
    import spsdk.apps.nxpimage  # noqa
    import spsdk.sbfile.sb2.images  # noqa
    from vf.ref import rom_sb2  # noqa

    _CACHE[("ci",)] = fixtures.cert_index()
    quick = ctx.tier == "quick"
    # ---- calibration of the trusted base on the repository's golden files
    gold = golden_files()
    for path, res in ctx.pool_map(w_golden, gold, timeout=120, initfn=_init_worker, chunksize=1, check_det=0):
        for kname, n in res.get("count", {}).items():
            ctx.count(kname, n)
        if res.get("golden_rejected"):
            raise core.HarnessError(f"ROM model rejects a golden file of the repository: {res['golden_rejected']}")
    ctx.cov["golden_files"] = {"found": len(gold), "accepted": ctx.counters.get("golden_accepted", 0),
                               "unknown_kek": ctx.counters.get("golden_unknown_kek", 0),
                               "stale_unreferenced": ctx.counters.get("golden_stale", 0),
                               "not_sb2": ctx.counters.get("golden_not_sb2", 0)}
    fam = enumerate_cases(ctx.tier)
    ctx.rule = (
        "Families, each enumerated completely: seq = every command sequence of length <= 2 over the %d-symbol boundary "
        "alphabet in one section for kinds v21 and v20u (length 1 also v20s, all length-1 cases with tamper sweep)"
        "%s; sec = every pair%s of one-command sections over the %d-symbol reduced alphabet; hm = block counts 1..8 x "
        "HMAC-table sizes 0..9,100%s; lat = every assignment of the %d header/layout dimensions with <= %s departures "
        "from the base x applicable image kinds (v21, v20 signed, v20 unsigned) with wrong-KEK + single-bit flips at the "
        "first/middle/last byte of every region%s, plus the full product digest-flag x section-layout; tamper-all-bits = "
        "every bit of every region <= %d bytes on %d cases (each split into 16 parts); cli = one nxpimage sb21 export+parse (CliRunner) per header "
        "departure.  A case is distinct/non-trivial when the builder accepted it and the ROM model decoded the file; the "
        "token is (kind, section/command specs, departures)."
        % (len(ALPHABET),
           "; length 3 over the %d-symbol reduced alphabet (v20u)" % len(ALPHABET3) if quick else
           "; length 3 over the full alphabet (v21, v20u); length 2 also v20s; length 4 over the %d-symbol reduced alphabet (v20u)" % len(ALPHABET3),
           "" if quick else " (and every triple over 6 symbols)", len(ALPHABET3),
           "" if quick else "; 257/258-block sections x 9 sizes", len(DIMS),
           "1 (with tamper sweep) and 2 (without)" if quick else "2",
           "", 96 if quick else 128, len(fam["tamper-all-bits"]) // 16))
    ctx.cov["alphabet"] = len(ALPHABET)
    ctx.cov["alphabet_reduced"] = len(ALPHABET3)
    ctx.cov["dimensions"] = {n: len(v) for n, v in DIMS.items()}
    ctx.cov["families"] = {}
    ctx.cov["bounds_completed"] = []
    rejected_samples: list = []
    per_dim: dict = {}
    for name, cases in fam.items():
        if ctx.out_of_budget():
            ctx.cov["families"][name] = {"cases": len(cases), "done": 0, "completed": False}
            continue
        n = acc = rej = err = 0
        heavy = (name.startswith("lat") and "no tamper" not in name) or name in ("cli", "tamper-all-bits", "seq<=1:tamper")
        gen = ctx.pool_map(w_case, cases, timeout=120 if heavy else 30, initfn=_init_worker,
                           chunksize=1 if heavy else 16, check_det=3)
        cut = False
        for case, res in gen:
            ok = ctx.absorb(case, res)
            n += 1
            if ok:
                if res.get("rejected"):
                    rej += 1
                    outcome = "rejected"
                    if len(rejected_samples) < 12:
                        rejected_samples.append({"case": case, "why": res["rejected"]})
                    if not case.get("h") and "s" not in case:
                        raise core.HarnessError(f"base case rejected: {case}: {res['rejected']}")
                elif res.get("count", {}).get("accepted"):
                    acc += 1
                    outcome = "accepted"
                else:
                    err += 1
                    outcome = "error"
                for d, v in case.get("h", {}).items():
                    t = per_dim.setdefault(d, {}).setdefault(str(v), {"tried": 0, "accepted": 0, "rejected": 0, "error": 0})
                    t["tried"] += 1
                    t[outcome] += 1
            if n in (1, len(cases)):
                ctx.sample(case, limit=24)
            if n % 512 == 0 and ctx.time_left() <= 0:
                cut = True
                break
        if cut:
            gen.close()
            ctx.exhaustive = False
            ctx.cov["families"][name] = {"cases": len(cases), "done": n, "accepted": acc, "rejected": rej,
                                         "builder_error": err, "completed": False}
            continue
        ctx.cov["families"][name] = {"cases": len(cases), "done": n, "accepted": acc, "rejected": rej,
                                     "builder_error": err, "completed": True}
        ctx.cov["bounds_completed"].append(name)
    ctx.cov["per_dimension"] = per_dim
    ctx.cov["rejected_samples"] = rejected_samples
    ctx.cov["clauses"] = CLAUSES
    ctx.assumptions += [
        "rom_sb2.py is the trusted base: written from the SB 2.x format description and calibrated at the start of every "
        "run on the golden SB2 files under <repo>/tests whose KEK the tests know (elftosb-made legacy_real_example*.sb "
        "included); a rejected golden is a harness error",
        "LOAD: the ROM writes exactly `count` bytes (elftosb golden legacy_real_example3.sb carries the true lengths 4 and "
        "15068); a count rounded up to 16 is reported as C04.rom-commands [load:count-padded]",
        "SB 2.1 with the 0x8000 digest flag: SPSDK does not count the two digest blocks in image_blocks / "
        "first_boot_tag_block; no authoritative golden exists, both conventions are accepted (counter note:digest-blocks-not-counted)",
        "fields the ROM ignores for a command (e.g. count of CALL, count of the key-store commands) are not compared",
        "tamper clauses: 'returns normally although the ROM model refuses' / 'returns other content' are the hard clauses; "
        "'raises, but not SPSDKError' is reported separately (C04.tamper-error-type, discriminator = exception type @ raising spsdk function)",
        "AES-CTR counter = nonce word 3 + file block index modulo 2^32 (ROM arithmetic on 32-bit words)",
        "timestamps are passed as timezone-aware datetimes (UTC); the tz dimension switches the process time zone",
    ]


def replay(ctx: core.Ctx, rec: dict) -> bool:
    global _SEED
    _SEED = ctx.seed
    _CACHE[("ci",)] = fixtures.cert_index()
    _init_worker()
    case = rec["case"]
    res = core.run_with_watchdog(w_case, case, 300)
    if res.get("__watchdog__"):
        print("watchdog: does not terminate")
        return rec["clause"].endswith(".terminates")
    if res.get("rejected"):
        print("builder rejects the case:", res["rejected"])
    hits = [v for v in res["viol"] if v[0] == rec["clause"] and v[1] == rec["disc"]]
    for v in res["viol"]:
        print(("* " if v in hits else "  ") + f"{v[0]} [{v[1]}] {v[2]}")
    return bool(hits)
