"""C17 — self-chosen secrets are fresh for every artifact.

Engine E2 over construction histories: every sequence (with repetitions) of artifact
constructions up to the length bound runs in a *fresh interpreter* (c17_child.py) whose
`secrets` module was replaced before `import spsdk` by a counting generator.  Freshness then
is a decidable statement about draw indices:

  C17.stale-secret     a self-chosen field equals a draw made at import time or during the
                       construction of an *earlier* artifact (disc: kind.field <- origin)
  C17.shared-secret    two artifacts of one history carry the same field value
  C17.foreign-draw     a draw (>= 8 bytes) made outside the artifact's own construction window
                       appears in its exported bytes
  C17.not-random       a field that cannot be traced to a draw is also identical under a
                       different generator seed (constant / time-only derived)
  C17.reused-draw      one draw index feeds fields of two artifacts

State for the evidence: canonical state after a history = multiset of kinds constructed so far
+ the set of (kind.field -> origin class) facts observed; transitions = constructions executed.
"""
from __future__ import annotations

import itertools
import json
import os
import subprocess
import sys
from typing import Any

from vf import core

LEVEL = "model_checking"
KINDS = ["sb21", "sb20", "advp", "sb21cfg", "mbi_class", "mbi_cfg", "otfad", "iee", "bee", "hexstr", "hab",
         "sb21cfg_same", "mbi_cfg_same",  # *_same: one configuration dictionary object reused for every build of that kind
         "hab_same",                       # every HAB build of the history in the same workspace folder (rebuild)
         "mbi_cfg_sameobj",                # one MBI builder object re-configured (load_from_config) for every build of that kind
         "sb1", "bootimgrt", "dice",       # SB 1.x DEK/MAC, legacy RT boot image AEAD nonce, DICE attestation challenge
         "bee_cfg_both"]                   # BEE by configuration, both engines generated: two headers out of one call
CHILD = os.path.join(os.path.dirname(os.path.abspath(__file__)), "c17_child.py")


def run_child(hist: list, seed: str, real: Any = False) -> dict:
    env = dict(os.environ)
    env["PYTHONHASHSEED"] = "0"
    env["SPSDK_CACHE_FOLDER"] = os.environ.get("SPSDK_CACHE_FOLDER", "/var/tmp/vf-c17-cache")
    cmd = [sys.executable, CHILD, seed, json.dumps(hist)] + ([real if isinstance(real, str) else "real"] if real else [])
    p = subprocess.run(cmd, capture_output=True, text=True, env=env, timeout=300, cwd=os.environ.get("VERIF_WORKDIR", "/tmp"))
    i = p.stdout.find("C17JSON")
    if i < 0:
        raise core.HarnessError(f"c17 child failed for {hist}: rc={p.returncode}\n{p.stdout[-800:]}\n{p.stderr[-1500:]}")
    return json.loads(p.stdout[i + 7:].splitlines()[0])


def _match(field: bytes, draw: bytes) -> bool:
    """Is `field` made from `draw`?  equal; SB2 nonce with its two cleared bits; BEE counter = 12 random bytes + 4 zeros."""
    if field == draw:
        return True
    if len(field) == len(draw) == 16:
        d = bytearray(draw)
        d[9] &= 0x7F
        d[13] &= 0x7F
        if bytes(d) == field:
            return True
    if len(field) == 16 and len(draw) == 12 and field[:12] == draw and field[12:] == bytes(4):
        return True
    return False


def judge(hist: list, a: dict, b: dict) -> dict:
    """Oracle over one history: `a` = run under seed A, `b` = same history under seed B."""
    viol = []
    facts = []
    draws = [(i, n, bytes.fromhex(h), ph) for i, n, h, ph in a["draws"]]
    used: dict[int, tuple] = {}
    seen_vals: dict[bytes, tuple] = {}
    for k, art in enumerate(a["artifacts"]):
        kind = art["kind"]
        if "error" in art:
            viol.append(("C17.construction-fails", kind, art["error"] + "\n" + art.get("tb", "")[-600:]))
            continue
        lo, hi = art["window"]
        exp = bytes.fromhex(art["export"])
        for fname, hx in sorted(art["fields"].items()):
            if hx is None:
                viol.append(("C17.field-missing", f"{kind}.{fname}", "field is None"))
                continue
            val = bytes.fromhex(hx)
            own = [d for d in draws if lo <= d[0] < hi and _match(val, d[2])]
            other = [d for d in draws if not (lo <= d[0] < hi) and _match(val, d[2])]
            if own:
                origin = "own-window"
                di = own[0][0]
                if di in used and used[di][0] != k:
                    viol.append(("C17.reused-draw", f"{kind}.{fname}", f"draw #{di} also feeds artifact {used[di]}"))
                used[di] = (k, kind, fname)
            elif other:
                origin = "import" if other[0][3] == "import" else "earlier-artifact"
                viol.append(("C17.stale-secret", f"{kind}.{fname}<-{origin}",
                             f"history {hist}: artifact #{k} {kind}.{fname}={hx[:16]}.. equals draw #{other[0][0]} made during '{other[0][3]}'"))
            else:
                origin = "untraced"
                bv = None
                if k < len(b["artifacts"]) and "fields" in b["artifacts"][k]:
                    bv = b["artifacts"][k]["fields"].get(fname)
                if bv == hx:
                    viol.append(("C17.not-random", f"{kind}.{fname}", f"history {hist}: same value {hx[:16]}.. under two generator seeds"))
            facts.append(f"{kind}.{fname}:{origin}")
            key = val
            if key in seen_vals and seen_vals[key][0] == k and seen_vals[key][2] != fname:
                # two independent self-chosen fields of ONE build (e.g. the two engine headers of a BEE image) with one value
                o = seen_vals[key]
                viol.append(("C17.shared-secret", f"{kind}.{o[2]}=={kind}.{fname}:same-build",
                             f"history {hist}: artifact #{k}: fields {o[2]} and {fname} share {hx[:16]}.."))
            if key in seen_vals and seen_vals[key][0] != k:
                o = seen_vals[key]
                viol.append(("C17.shared-secret", f"{o[1]}.{o[2]}=={kind}.{fname}",
                             f"history {hist}: artifacts #{o[0]} and #{k} share {hx[:16]}.."))
            seen_vals.setdefault(key, (k, kind, fname))
        # no foreign draw inside the exported bytes
        if exp:
            for d in draws:
                if d[1] >= 8 and not (lo <= d[0] < hi):
                    cands = [d[2]]
                    if d[1] == 16:
                        m = bytearray(d[2]); m[9] &= 0x7F; m[13] &= 0x7F
                        cands.append(bytes(m))
                    if any(c in exp for c in cands):
                        viol.append(("C17.foreign-draw", f"{kind}<-{'import' if d[3] == 'import' else 'other-artifact'}",
                                     f"history {hist}: export of artifact #{k} contains draw #{d[0]} ({d[1]} B) made during '{d[3]}'"))
        # cross-seed: every field must differ under another seed
        if k < len(b["artifacts"]) and "fields" in b["artifacts"][k]:
            for fname, hx in art["fields"].items():
                if hx is not None and b["artifacts"][k]["fields"].get(fname) == hx:
                    viol.append(("C17.not-random", f"{kind}.{fname}", f"history {hist}: identical under seeds A and B"))
    return {"viol": core.dedupe(viol), "facts": sorted(set(facts)), "ndraws": len(draws),
            "import_draws": sum(1 for d in draws if d[3] == "import")}


def w_history(hist: Any) -> dict:
    hist = list(hist)
    a = run_child(hist, "A")
    b = run_child(hist, "B")
    a2 = None
    if len(hist) == 1:
        a2 = run_child(hist, "A")  # replay: same seed, same history => identical log (the seam owns the nondeterminism)
    res = judge(hist, a, b)
    if a2 is not None:
        fa = [(x.get("fields"), x.get("window")) for x in a["artifacts"]]
        fb = [(x.get("fields"), x.get("window")) for x in a2["artifacts"]]
        if a["draws"] != a2["draws"] or fa != fb:
            res["viol"].append(("C17.harness-nondeterminism", hist[0], "two runs with the same seed differ"))
    res["count"] = {"constructions": len(hist), "child_processes": 3 if a2 is not None else 2}
    return res


CORE_KINDS = ["sb21", "sb20", "advp", "mbi_class", "mbi_cfg", "otfad", "iee", "bee", "hexstr", "sb1", "bootimgrt", "dice", "bee_cfg_both"]


def histories(tier: str) -> list:
    """quick: every single construction, every ordered pair over the thirteen fast kinds, and for the four
    config/CLI-driven kinds (slow: 1-4 s each) the pairs with themselves, with their sibling and with three core kinds;
    thorough: all sequences up to length 2 over all kinds, all sequences of length 3 over the class-constructed kinds, and
    the sandwiches X, y, X for the state-carrying kinds X and every kind y."""
    if tier == "quick":
        out = [[k] for k in KINDS]
        out += [list(t) for t in itertools.product(CORE_KINDS, repeat=2)]
        for k, sib in (("sb21cfg", "sb21cfg_same"), ("sb21cfg_same", "sb21"), ("mbi_cfg_same", "mbi_cfg"), ("hab", "hab"), ("hab_same", "hab"), ("mbi_cfg_sameobj", "mbi_cfg")):
            for o in dict.fromkeys([k, sib, "sb21", "mbi_class", "otfad"]):
                for h in ([k, o], [o, k]):
                    if h not in out:
                        out.append(h)
        return out
    out = [list(t) for ln in (1, 2) for t in itertools.product(KINDS, repeat=ln)]
    # length 3: all sequences over the class-constructed kinds; for the kinds that carry state between builds (shared
    # configuration object, shared builder object, shared workspace) the sandwiches X, y, X with every kind y in between
    out += [list(t) for t in itertools.product(CORE_KINDS, repeat=3)]
    for x in ("sb21cfg_same", "mbi_cfg_same", "mbi_cfg_sameobj", "hab_same"):
        for y in KINDS:
            if [x, y, x] not in out:
                out.append([x, y, x])
    return out


def run(ctx: core.Ctx) -> None:
    hs = histories(ctx.tier)
    states = set()
    trans = 0
    for case, res in ctx.pool_map(w_history, hs, timeout=600, chunksize=1, check_det=2):
        if not ctx.absorb(case, res):
            continue
        trans += len(case)
        states.add((tuple(sorted(case)), tuple(res["facts"])))
        ctx.add_distinct({"h": case})
        if len(case) == 2 and case[0] != case[1] and len(ctx.samples) < 4:
            ctx.sample({"history": case, "facts": res["facts"], "draws": res["ndraws"], "import_time_draws": res["import_draws"]})
    # sanity (not counted as coverage): real `secrets` in two separate processes give different values
    r1 = run_child(["sb21", "mbi_class", "otfad"], "x", real=True)
    r2 = run_child(["sb21", "mbi_class", "otfad"], "x", real=True)
    for x, y in zip(r1["artifacts"], r2["artifacts"]):
        for f, v in x.get("fields", {}).items():
            if v is not None and y.get("fields", {}).get(f) == v:
                ctx.viol("C17.cross-process-equal", f"{x['kind']}.{f}", ["sb21", "mbi_class", "otfad"], "two real processes chose the same value")
    # fork without exec (multiprocessing's default on Linux): entropy state duplicated into the children would give
    # the n-th secret of worker A == the n-th secret of worker B. Real entropy, deterministic detection.
    fk = run_child(CORE_KINDS, "x", real="forkreal")
    groups = [fk["parent"]] + fk["children"]
    for i in range(len(groups)):
        for j in range(i + 1, len(groups)):
            for x, y in zip(groups[i], groups[j]):
                for f, v in x.get("fields", {}).items():
                    if v is not None and y.get("fields", {}).get(f) == v:
                        ctx.viol("C17.fork-shared-secret", f"{x['kind']}.{f}", {"forked_processes": CORE_KINDS},
                                 f"processes {i} and {j} (0 = parent, others forked from it after its own builds) chose the same value")
    ctx.count("forked_process_builds", 3 * len(CORE_KINDS))
    ctx.cov["states"] = len(states)
    ctx.cov["transitions"] = trans
    ctx.cov["traces_validated_against_impl"] = len(hs)
    ctx.cov["history_length_bound"] = 2 if ctx.tier == "quick" else 3
    ctx.cov["kinds"] = KINDS
    ctx.rule = ("all sequences with repetition of artifact constructions (19 kinds: SB1.x, SB2.0, SB2.1 by class and by config, advanced "
                "params, encrypted MBI by class and by config, OTFAD, IEE, BEE blobs, load_hex_string(None), HAB encrypted via "
                "the CLI) up to the length bound, each in a fresh interpreter under a counting RNG installed before import, run "
                "under two generator seeds; distinct = distinct histories; every history is an implementation run")
    ctx.assumptions += ["secrets.token_bytes/token_hex/randbelow are the only entropy sources SPSDK uses for these fields (spsdk/crypto/rng.py)",
                        "OpenSSL-internal randomness (ECDSA/PSS) is not a self-chosen secret in the sense of the property"]


def replay(ctx: core.Ctx, rec: dict) -> bool:
    if isinstance(rec["case"], dict):
        run(ctx)
        return any(k[0] == rec["clause"] for k in ctx.viols)
    res = w_history(rec["case"])
    hits = [v for v in res["viol"] if v[0] == rec["clause"] and v[1] == rec["disc"]]
    for h in hits[:3]:
        print(h)
    return bool(hits)
