"""C16 - BinaryImage: composition, validation, file formats (engine E2: BFS over construction
histories of real `BinaryImage` trees, oracle = vf/ref/binimg_model.py).

Explored space.  A *history* is a sequence of construction steps: step 0 creates the root with an
attribute tuple (size, alignment, own binary, pattern); every later step creates a new image with
an attribute tuple and attaches it to an already existing image of the tree, either with
`add_image` at an explicit offset or with `append_image`.  A *state* is the canonical form of the
tree that a history reaches (canon(): offsets, reported explicit size, alignment, binary, pattern,
children; insertion order among equal offsets dropped - argument next to `icanon`).  The search is
level-synchronous breadth first: level n holds every distinct state with n images; every state is
expanded with every step of the alphabet at every attach point (so every insertion order of the
children and every interleaving of "attach child" / "fill child" is executed); successors are
deduplicated on the canonical form.  Every transition is executed by replaying the whole history
on fresh real objects and on the reference model, and is compared clause by clause.

Instances of the same engine (per-dimension domains differ, see spaces()): `wide` (<= 2 images,
full cross product of all five attribute dimensions), `siblings` (<= 3 images: two siblings or a
chain of three, medium domains, full cross product), `deep` and `deeper` (<= 4..6 images, depth
<= 4, full domains, but the total number of non-default attributes along the history is <= K;
the default step is "append a 4-byte image").  When two histories of different weight reach the
same state the smaller weight is kept, so every history inside the bound is expanded.
`relocate` (<= 4 images, depth <= 3, small construction alphabet) adds steps that assign a public
attribute of an *existing* image - `img.offset = v` (relocation after insertion, which leaves the
parent's list unsorted), `img.size = v`, `img.binary = data` - with at most R such steps per
history (R = 1 quick, 2 thorough); there the state keeps the actual list order of the sub-images
and `C16.children-sorted` is judged only for parents none of whose sub-images was relocated,
while validate/len/export/lookup/join must be right whatever the list order.

On every reached state: structure (offsets chosen by append, ordering), len() of every image,
validate() verdict vs. the layout predicate, export() length and bytes, every sub-image's own
export found at its absolute offset; on legal states additionally absolute addresses and
get_image_by_absolute_address for every address in range +-1 (two base addresses), join_images
on every inner image and update_offsets on the root (each on a fresh replay).  A second pass takes
every distinct legal state of the spaces marked files=True through BIN/HEX/S19 save + reload at
4-5 base addresses (0, 0x1000, across the 64 KiB and 16 MiB boundaries, 0xFFFFF000), a third
sweeps byte contents (all 1- and 2-byte files) through the loaders, a fourth runs
representatives through the nxpimage CLI (create / merge / convert).

Deviations that are already understood are *named* by comparing the implementation with a
bug-compatible variant of the model (`_lookup_inclusive`, `_abs_cut_at_empty`, `_sparse_picture`):
the discriminator is the name of the variant that explains the answer, "other"/generic otherwise.

Clause ids: C16.state, C16.children-sorted, C16.len, C16.validate-iff, C16.validate-error-type,
C16.export-raises, C16.export-length, C16.export-bytes, C16.export-pure, C16.sub-image-at-offset,
C16.abs-address, C16.aligned-range, C16.lookup, C16.join, C16.update-offsets, C16.file-roundtrip,
C16.file-error, C16.file-exec-address, C16.cli.
"""
from __future__ import annotations

import hashlib
import os
import shutil
import tempfile
from array import array
from typing import Any, Optional

from vf import core
from vf.ref import binimg_model as M

LEVEL = "model_checking"

# ---------------------------------------------------------------------------------------------
# attribute domains (DESIGN 17).  mode: "app" = append_image, int = add_image at that offset.

MODES = ("app", 0, 1, 3, 4, 8)
SIZES = (0, 1, 4, 5, 12)
ALIGNS = (1, 4, 16)
BINS = (0, 1, 4, 6)  # length of the own binary; 0 = none
PATS = (None, "zeros", "ones", "0xA5", "inc")
BASES_LOOKUP = (0, 0xFFFF_F000)
BASES_FILE = (0xFFF8, 0xFFFF_F000)  # quick; 0xFFF8: 16-bit start, the image crosses a 64 KiB boundary
BASES_FILE_THOROUGH = (0, 0x1000, 0xFFF8, 0xFF_FFF8, 0xFFFF_F000)  # ... and the 24-bit S-record boundary

ROOT_DEFAULT = (0, 0, 1, 0, None)  # (mode/offset, size, alignment, binary length, pattern)
STEP_DEFAULT = ("app", 0, 1, 4, None)


def _space(name, root, step, nodes, depth, kroot, kids, weight, files, big_base, mut=None):
    """mut: None, or {"offset": values, "size": values, "binary": lengths} = the attribute
    assignments on an *existing* image that are steps of this space.  In such a space every
    construction step weighs 0, every assignment weighs 1 and `weight` bounds the number of
    assignments in a history."""
    return {"name": name, "root": root, "step": step, "max_nodes": nodes, "max_depth": depth,
            "max_children_root": kroot, "max_children": kids, "weight": weight, "files": files,
            "big_base": big_base, "mut": mut}


RELOC_ROOT = ((0,), (0, 12), (1,), (0,), (None,))
RELOC_STEP = (("app", 0, 4, 8), (0, 5), (1,), (4,), (None,))


def spaces(tier: str) -> list[dict]:
    full_root = ((0,), SIZES, ALIGNS, BINS, PATS)
    full_step = (MODES, SIZES, ALIGNS, BINS, PATS)
    if tier == "quick":
        return [
            _space("wide", ((0,), SIZES, ALIGNS, BINS, (None, "0xA5", "inc")),
                   (MODES, SIZES, (1, 4), BINS, (None, "zeros", "inc")), 2, 2, 3, 2, None, True, True),
            _space("deeper", full_root, full_step, 5, 4, 3, 2, 2, True, True),
            _space("deep", ((0,), (0, 4, 5, 12), (1, 4), (0, 4, 6), (None, "0xA5", "inc")),
                   (MODES, (0, 4, 5, 12), (1, 4), (0, 4, 6), (None, "0xA5", "inc")), 4, 4, 3, 2, 3, False, True),
            _space("siblings", ((0,), (0, 12), (1, 4), (0,), (None, "0xA5")),
                   (MODES, (0, 4, 5), (1, 4), (0, 4), (None, "0xA5")), 3, 3, 3, 2, None, False, False),
            _space("relocate", RELOC_ROOT, RELOC_STEP, 4, 3, 3, 2, 1, False, False,
                   mut={"offset": (0, 1, 3, 4, 8), "size": (0, 4, 12), "binary": (0, 6)}),
        ]
    return [
        _space("wide", full_root, full_step, 2, 2, 3, 2, None, True, True),
        _space("deep", full_root, full_step, 5, 4, 3, 2, 3, True, True),
        _space("deeper", full_root, full_step, 6, 4, 3, 2, 2, False, False),
        _space("siblings", ((0,), (0, 5, 12), (1, 4), (0, 6), (None, "0xA5", "inc")),
               (MODES, SIZES, (1, 4), BINS, (None, "0xA5")), 3, 3, 3, 2, None, False, False),
        _space("relocate", RELOC_ROOT, RELOC_STEP, 4, 3, 3, 2, 2, False, False,
               mut={"offset": (0, 1, 3, 4, 8), "size": (0, 4, 12), "binary": (0, 6)}),
    ]


def alphabet(dom, default) -> list[tuple]:
    """[(attrs, weight)] sorted by weight then domain order; weight = #attributes != default."""
    out = []
    for m in dom[0]:
        for s in dom[1]:
            for a in dom[2]:
                for b in dom[3]:
                    for p in dom[4]:
                        t = (m, s, a, b, p)
                        out.append((t, sum(1 for x, y in zip(t, default) if x != y)))
    out.sort(key=lambda tw: tw[1])  # stable: domain order inside one weight
    return out


_SPACES: dict[str, dict] = {}


def _prepare(sp: dict) -> dict:
    sp = dict(sp)
    sp["root_alpha"] = alphabet(sp["root"], ROOT_DEFAULT)
    sp["step_alpha"] = alphabet(sp["step"], STEP_DEFAULT)
    sp["mut_alpha"] = []
    if sp.get("mut"):
        sp["root_alpha"] = [(t, 0) for t, _ in sp["root_alpha"]]
        sp["step_alpha"] = [(t, 0) for t, _ in sp["step_alpha"]]
        sp["mut_alpha"] = [(attr, v) for attr in ("offset", "size", "binary") for v in sp["mut"].get(attr, ())]
    return sp


# ---------------------------------------------------------------------------------------------
# building a history on the implementation and on the model

_PAT_CACHE: dict = {}
_PAT_NAME: dict = {}
_CONTENT: dict = {}


def _pattern(p: Optional[str]):
    if p is None:
        return None
    o = _PAT_CACHE.get(p)
    if o is None:
        from spsdk.utils.misc import BinaryPattern

        o = BinaryPattern(p)
        _PAT_CACHE[p] = o
        _PAT_NAME[id(o)] = p
    return o


def content(seed: int, depth: int, attrs: tuple) -> Optional[bytes]:
    """Own binary of a node: a function of the seed, the depth and the attribute tuple only, so
    that the same tree reached through different histories has the same bytes.  Bytes equal to a
    fill value (00, FF, A5) are remapped so that content and fill can be told apart."""
    n = attrs[3]
    if not n:
        return None
    key = (seed, depth, attrs)
    d = _CONTENT.get(key)
    if d is None:
        raw = core.seeded_bytes(seed, f"c16|{depth}|{attrs!r}", n)
        d = bytes(b ^ 0x42 if b in (0x00, 0xFF, 0xA5) else b for b in raw)
        _CONTENT[key] = d
    return d


class Built:
    __slots__ = ("inodes", "mnodes", "depths", "rejected", "parents", "dirty")


def build(hist: list, seed: int) -> Built:
    """Replay a history (list of explicit steps [parent_id, mode, size, align, blen, pattern]) on
    fresh BinaryImage objects and on fresh model nodes."""
    from spsdk.exceptions import SPSDKError
    from spsdk.utils.images import BinaryImage

    b = Built()
    b.inodes, b.mnodes, b.depths, b.rejected = [], [], [], None
    b.parents = []  # node id -> parent node id
    b.dirty = set()  # ids of images one of whose sub-images was relocated after its insertion
    for idx, st in enumerate(hist):
        if st[0] == "set":
            # attribute assignment on an existing image: ["set", node id, attribute, value]
            _, nid, attr, val = st
            img, node = b.inodes[nid], b.mnodes[nid]
            try:
                if attr == "offset":
                    img.offset = val
                    node.offset = val
                    b.dirty.add(b.parents[nid])
                elif attr == "size":
                    img.size = val
                    node.size = val
                else:
                    data = content(seed, b.depths[nid], ("set", 0, 0, val, None))
                    img.binary = data
                    node.binary = data
            except SPSDKError as e:
                b.rejected = f"step {idx}: {type(e).__name__}: {e}"
                return b
            continue
        k = len(b.inodes)
        pid, mode, size, al, blen, pat = st
        depth = 1 if k == 0 else b.depths[pid] + 1
        data = content(seed, depth, (mode, size, al, blen, pat))
        off = mode if isinstance(mode, int) else 0
        try:
            img = BinaryImage(name=f"n{k}", size=size, offset=off, binary=data, pattern=_pattern(pat), alignment=al)
            if k:
                if mode == "app":
                    b.inodes[pid].append_image(img)
                else:
                    b.inodes[pid].add_image(img)
        except SPSDKError as e:
            b.rejected = f"step {idx}: {type(e).__name__}: {e}"
            return b
        node = M.Node(off, size, al, data, pat, tag=k)
        if k:
            if mode == "app":
                M.append(b.mnodes[pid], node)
            else:
                M.add(b.mnodes[pid], node)
        b.inodes.append(img)
        b.mnodes.append(node)
        b.depths.append(depth)
        b.parents.append(pid if k else -1)
    return b


def icanon(img) -> tuple:
    """Canonical form of a real tree.  Argument: len/validate/export/lookup/save of BinaryImage
    read only offset, _size, alignment, binary, pattern and the sub-image list (name, description
    and execution_start_address only reach messages / the start-address record); the order of
    sub-images with *equal* offsets only changes which of two fully overlapping images is painted
    last, i.e. bytes of layouts that the property calls illegal - it is dropped by sorting."""
    p = img.pattern
    return (img.offset, img._size, img.alignment, img.binary or b"",
            "" if p is None else _PAT_NAME.get(id(p), "?"),
            tuple(sorted(icanon(c) for c in img.sub_images)))


def icanon_ordered(img) -> tuple:
    """Like icanon but keeping the actual list order of the sub-images.  Used as the state in
    spaces with relocation steps: there the list order is no longer a function of the offsets, and
    the property has to hold whatever the order, so two trees that differ only in list order are
    different states (both get expanded)."""
    p = img.pattern
    return (img.offset, img._size, img.alignment, img.binary or b"",
            "" if p is None else _PAT_NAME.get(id(p), "?"),
            tuple(icanon_ordered(c) for c in img.sub_images))


def chash(canon: tuple) -> int:
    return int.from_bytes(hashlib.blake2b(repr(canon).encode(), digest_size=8).digest(), "big") >> 1


def _first_diff(a: tuple, b: tuple, path: str = "root") -> str:
    names = ("offset", "size", "alignment", "binary", "pattern")
    for i, nm in enumerate(names):
        if a[i] != b[i]:
            return nm
    if len(a[5]) != len(b[5]):
        return "child-count"
    for x, y in zip(a[5], b[5]):
        if x != y:
            return _first_diff(x, y)
    return "?"


# ---------------------------------------------------------------------------------------------
# the oracle clauses on one reached state


def _validate(img):
    from spsdk.exceptions import SPSDKError

    try:
        img.validate()
        return "ok", ""
    except SPSDKError as e:
        return "raise", type(e).__name__
    except Exception as e:  # noqa
        return "other", f"{type(e).__name__}: {e}"


def observe_core(b: Built, V: list, C: dict, label: str = "") -> dict:
    """Structure, len, validate, export.  Returns facts for the caller."""
    from spsdk.exceptions import SPSDKError

    iroot, mroot = b.inodes[0], b.mnodes[0]
    ic = icanon(iroot)
    ordered = icanon_ordered(iroot)
    mc = M.canon(mroot)
    if ic != mc:
        V.append(("C16.state", label + _first_diff(ic, mc), f"impl {ic!r} model {mc!r}"))
    for k, img in enumerate(b.inodes):
        offs = [c.offset for c in img.sub_images]
        # ordering is promised by add_image at insertion time only: once a sub-image of this
        # image was relocated through its public `offset`, the list order is not judged any more
        if k not in b.dirty and any(x > y for x, y in zip(offs, offs[1:])):
            V.append(("C16.children-sorted", label + "unsorted", f"node {k}: offsets {offs}"))
        if any(c.parent is not img for c in img.sub_images):
            V.append(("C16.state", label + "parent-pointer", f"node {k}"))
    # len of every image
    for k, (img, node) in enumerate(zip(b.inodes, b.mnodes)):
        try:
            li = len(img)
        except Exception as e:  # noqa
            V.append(("C16.len", label + f"raises:{type(e).__name__}", f"node {k}: {e}"))
            continue
        lm = M.length(node)
        if li != lm or img.size != lm:
            V.append(("C16.len", label + ("explicit" if node.size else "derived") + (",aligned" if node.alignment > 1 else ""),
                      f"node {k}: len {li} size {img.size} model {lm}"))
    # validate <=> predicate
    errs = M.layout_errors(mroot)
    dontcare = M.empty_inside_sibling(mroot)
    over = M.oversize_nodes(mroot)
    iv, why = _validate(iroot)
    kinds = "+".join(sorted({e[0] for e in errs}))
    if iv == "other":
        V.append(("C16.validate-error-type", label + why.split(":")[0], f"{why}; model errors {errs}"))
    elif errs and iv == "ok":
        V.append(("C16.validate-iff", label + "missed:" + kinds, f"validate() passed, model: {errs}"))
    elif not errs and iv == "raise":
        if over:
            pass  # refusing an image whose binary does not fit its explicit size is a rejection
        elif dontcare:
            C["dontcare_empty_image_inside_sibling"] = C.get("dontcare_empty_image_inside_sibling", 0) + 1
        else:
            V.append(("C16.validate-iff", label + "spurious:" + why, "validate() raised on a legal layout"))
    legal = not errs
    facts = {"legal": legal, "over": bool(over), "canon": ic, "ordered": ordered, "export": None}
    if not legal:
        C["illegal_layouts"] = C.get("illegal_layouts", 0) + 1
        return facts
    C["legal_layouts"] = C.get("legal_layouts", 0) + 1
    if over and iv == "raise":
        C["oversize_rejected"] = C.get("oversize_rejected", 0) + 1
        return facts
    tag = "binary>size" if over else ""
    try:
        data = iroot.export()
    except SPSDKError as e:
        if over:
            C["oversize_rejected"] = C.get("oversize_rejected", 0) + 1
        else:
            V.append(("C16.export-raises", label + type(e).__name__, f"{e}"))
        return facts
    except Exception as e:  # noqa
        V.append(("C16.export-raises", label + (tag or type(e).__name__), f"{type(e).__name__}: {e}"))
        return facts
    if over:
        C["legal_with_oversize_binary"] = C.get("legal_with_oversize_binary", 0) + 1
        if len(data) != len(iroot):
            V.append(("C16.export-length", label + tag, f"len(img)={len(iroot)} len(export())={len(data)}"))
        return facts
    facts["export"] = data
    if len(data) != M.length(mroot) or len(data) != len(iroot):
        V.append(("C16.export-length", label + "len(export)!=len", f"len(img)={len(iroot)} model {M.length(mroot)} export {len(data)}"))
    exp = M.flat(mroot)
    if data != exp:
        V.append(("C16.export-bytes", label + _byte_disc(mroot, data, exp), f"export {data.hex()} model {exp.hex()}"))
    # every sub-image's own bytes at its absolute offset
    for k in range(1, len(b.inodes)):
        node = b.mnodes[k]
        rel = M.abs_address(node) - mroot.offset
        try:
            sub = b.inodes[k].export()
        except Exception as e:  # noqa
            V.append(("C16.export-raises", label + "sub:" + type(e).__name__, f"node {k}: {e}"))
            continue
        if sub != M.flat(node):
            V.append(("C16.export-bytes", label + "sub-image-alone", f"node {k}: {sub.hex()} model {M.flat(node).hex()}"))
        if data[rel:rel + len(sub)] != sub:
            V.append(("C16.sub-image-at-offset", label + f"depth{b.depths[k]}", f"node {k} at {rel}: {data[rel:rel + len(sub)].hex()} vs {sub.hex()}"))
    # observation must not change the tree, and a second export gives the same bytes
    try:
        again = iroot.export()
    except Exception as e:  # noqa
        again = None
    if again != data:
        V.append(("C16.export-pure", label + "second-export-differs", ""))
    if icanon(iroot) != ic:
        V.append(("C16.export-pure", label + "state-changed", f"{icanon(iroot)!r} vs {ic!r}"))
    return facts


def _byte_disc(mroot, data: bytes, exp: bytes) -> str:
    if len(data) != len(exp):
        return "length"
    i = next(k for k in range(len(exp)) if data[k] != exp[k])
    owner = M.lookup(mroot, mroot.offset + i)
    if owner is None:
        return "?"
    rel = mroot.offset + i - M.abs_address(owner)
    kind = "binary" if owner.binary and rel < len(owner.binary) else "fill"
    return f"{kind}:{'root' if owner is mroot else 'sub'}"


def _lookup_inclusive(root, address: int) -> set:
    """Every answer a lookup with an *inclusive* end could give (whatever the order in which
    sub-images with equal offsets are tried) - used only to *name* a deviation."""
    out: set = set()

    def rec(n, base) -> bool:
        if not base <= address <= base + M.length(n):
            return False
        hit = False
        for c in n.children:
            hit = rec(c, base + c.offset) or hit
        if not hit:
            out.add(f"n{n.tag}")
        return True

    rec(root, root.offset)
    return out or {None}


def _abs_cut_at_empty(node) -> int:
    """absolute address as computed when an ancestor of length 0 is mistaken for 'no parent' -
    used only to *name* a deviation."""
    a = node.offset
    p = node.parent
    while p is not None and M.length(p) > 0:
        a += p.offset
        p = p.parent
    return a


def observe_addresses(b: Built, base: int, V: list, C: dict) -> None:
    from spsdk.exceptions import SPSDKValueError

    iroot, mroot = b.inodes[0], b.mnodes[0]
    iroot.offset = base
    mroot.offset = base
    for k, (img, node) in enumerate(zip(b.inodes, b.mnodes)):
        want = M.abs_address(node)
        if img.absolute_address != want:
            disc = "empty-parent-is-falsy" if img.absolute_address == _abs_cut_at_empty(node) else f"depth{b.depths[k]}"
            V.append(("C16.abs-address", disc, f"node {k}: {img.absolute_address:#x} model {want:#x}"))
            continue
        ln = M.length(node)
        for a in (4, 16):
            lo = want - want % a
            hi = want + ln
            hi += (a - hi % a) % a
            if img.aligned_start(a) != lo or img.aligned_length(a) != hi - lo:
                V.append(("C16.aligned-range", f"alignment{a}", f"node {k} at {want:#x} len {ln}: start {img.aligned_start(a):#x} "
                          f"length {img.aligned_length(a)} expected {lo:#x}/{hi - lo}"))
    ln = M.length(mroot)
    for addr in range(base - 1, base + ln + 2):
        exp = M.lookup(mroot, addr)
        try:
            got = iroot.get_image_by_absolute_address(addr)
            gname = got.name
        except SPSDKValueError:
            gname = None
        except Exception as e:  # noqa
            V.append(("C16.lookup", "raises:" + type(e).__name__, f"address {addr:#x}: {e}"))
            continue
        C["lookups"] = C.get("lookups", 0) + 1
        ename = None if exp is None else f"n{exp.tag}"
        if gname == ename:
            continue
        disc = "end-inclusive" if gname in _lookup_inclusive(mroot, addr) else "other"
        V.append(("C16.lookup", disc, f"address {addr:#x} (base {base:#x}): got {gname}, image containing it: {ename}"))
    iroot.offset = 0
    mroot.offset = 0


def observe_post(hist: list, seed: int, b: Built, facts: dict, V: list, C: dict) -> int:
    """join_images / update_offsets on every inner image, each on a fresh replay.  Returns the
    number of extra traces executed."""
    traces = 0
    inner = [k for k, n in enumerate(b.mnodes) if n.children]
    base_export = facts["export"]
    for k in inner:
        # join
        r = build(hist, seed)
        traces += 1
        try:
            r.inodes[k].join_images()
        except Exception as e:  # noqa
            V.append(("C16.join", "raises:" + type(e).__name__, f"node {k}: {e}"))
        else:
            M.join(r.mnodes[k])
            sub: list = []
            C["joins"] = C.get("joins", 0) + 1
            if r.inodes[k].sub_images:
                V.append(("C16.join", "children-left", f"node {k}"))
            observe_core(r, sub, {}, label="")
            for v in sub:
                V.append(("C16.join", f"after-join:{v[0]}", f"node {k}: [{v[1]}] {v[2]}"))
            try:
                if r.inodes[0].export() != base_export:
                    V.append(("C16.join", "bytes-changed", f"node {k}: {r.inodes[0].export().hex()} before {base_export.hex()}"))
            except Exception:  # noqa
                pass
        # update_offsets: on the root only (the loader and `merge -a` use it there; on an inner
        # image it changes that image's own offset behind its parent's back)
        if k != 0:
            continue
        r = build(hist, seed)
        traces += 1
        before = [c.absolute_address for c in r.inodes[k].sub_images]
        off0 = r.inodes[k].offset
        try:
            r.inodes[k].update_offsets()
        except Exception as e:  # noqa
            V.append(("C16.update-offsets", "raises:" + type(e).__name__, f"node {k}: {e}"))
            continue
        C["update_offsets"] = C.get("update_offsets", 0) + 1
        m = M.shift_to_first_child(r.mnodes[k])
        after = [c.absolute_address for c in r.inodes[k].sub_images]
        if before != after:
            cut = [_abs_cut_at_empty(c) for c in r.mnodes[k].children]
            disc = "empty-parent-is-falsy" if sorted(after) == sorted(cut) else "sub-image-moved"
            V.append(("C16.update-offsets", disc, f"node {k}: {before} -> {after}"))
        if r.inodes[k].offset != off0 + m or min(c.offset for c in r.inodes[k].sub_images) != 0:
            V.append(("C16.update-offsets", "offset", f"node {k}: offset {off0} -> {r.inodes[k].offset}, first child moved by {m}"))
        sub = []
        observe_core(r, sub, {}, label="")
        for v in sub:
            V.append(("C16.update-offsets", f"after:{v[0]}", f"node {k}: [{v[1]}] {v[2]}"))
    return traces


def eval_history(hist: list, seed: int, big_base: bool, V: list, C: dict) -> dict:
    """One trace: replay + all in-memory clauses.  Returns facts (legal, canon, traces)."""
    b = build(hist, seed)
    if b.rejected:
        C["rejected_by_builder"] = C.get("rejected_by_builder", 0) + 1
        return {"legal": False, "over": False, "canon": None, "traces": 1, "rejected": True}
    facts = observe_core(b, V, C)
    traces = 1
    if facts["legal"] and not facts["over"] and facts["export"] is not None:
        observe_addresses(b, 0, V, C)
        if big_base:
            observe_addresses(b, BASES_LOOKUP[1], V, C)
        traces += observe_post(hist, seed, b, facts, V, C)
    facts["traces"] = traces
    return facts


# ---------------------------------------------------------------------------------------------
# file formats

_TMP: Optional[str] = None
_RUN_TAG = str(os.getpid())  # set in the parent before the workers fork


def _tmpdir() -> str:
    global _TMP
    if _TMP is None or not os.path.isdir(_TMP):
        base = "/dev/shm" if os.path.isdir("/dev/shm") and os.access("/dev/shm", os.W_OK) else None
        _TMP = tempfile.mkdtemp(prefix=f"vf-c16-{_RUN_TAG}-{os.getpid()}-", dir=base)
    return _TMP


def _sparse_picture(n, base: int, mem: dict) -> None:
    """What a writer produces that emits fill only for images with an explicit pattern - used
    only to *name* a deviation."""
    if n.pattern is not None:
        for i in range(M.length(n)):
            mem[base + i] = M.fill_byte(n.pattern, i)
    if n.binary:
        for i, x in enumerate(n.binary):
            mem[base + i] = x
    for c in n.children:
        _sparse_picture(c, base + c.offset, mem)


def text_like(data: bytes) -> bool:
    """BIN files carry no format marker: load_binary_image sniffs the text formats (S-record,
    Intel HEX, TI-TXT, Verilog VMEM) first.  A binary whose content reads as text beginning with
    one of their lead-ins (S : @ q, a hex digit, a // or /* comment, or nothing but white space)
    is inherently ambiguous; such contents are outside the BIN round-trip demand."""
    try:
        t = data.decode("utf-8")
    except UnicodeDecodeError:
        return False
    t = t.strip()
    return t == "" or t[0] in "S:@q" or t[0] in "0123456789abcdefABCDEF" or t[:2] in ("//", "/*")


def eval_files(hist: list, seed: int, V: list, C: dict, bases=BASES_FILE) -> None:
    """save_binary_image + load_binary_image for BIN / HEX / S19 of one legal state."""
    from spsdk.exceptions import SPSDKError
    from spsdk.utils.images import BinaryImage

    b = build(hist, seed)
    if b.rejected:
        return
    iroot, mroot = b.inodes[0], b.mnodes[0]
    if M.layout_errors(mroot) or M.oversize_nodes(mroot):
        return
    td = _tmpdir()
    total = M.length(mroot)
    for fmt in ("BIN", "HEX", "S19"):
        for base in ((0,) if fmt == "BIN" else bases):
            iroot.offset = base
            mroot.offset = base
            exec_addr = None if fmt == "BIN" or base in (0x1000, 0xFFF8) else (base | 1)
            iroot.execution_start_address = exec_addr
            path = os.path.join(td, f"img.{fmt.lower()}")
            C[f"file_{fmt}"] = C.get(f"file_{fmt}", 0) + 1
            try:
                iroot.save_binary_image(path, fmt)
            except Exception as e:  # noqa
                empty_pat = any(M.length(n) == 0 and n.pattern is not None for n in b.mnodes)
                disc = "save:empty-image-with-pattern" if empty_pat and fmt != "BIN" else f"save:{fmt}:{type(e).__name__}"
                V.append(("C16.file-error", disc, f"{fmt} base {base:#x}: {type(e).__name__}: {str(e).replace(td, '<tmp>')}"))
                continue
            if fmt == "BIN" and text_like(M.flat(mroot)):
                C["bin_content_ambiguous_with_text_formats"] = C.get("bin_content_ambiguous_with_text_formats", 0) + 1
                continue
            try:
                back = BinaryImage.load_binary_image(path)
                back.validate()
                if len(back) > total + 4096:
                    V.append(("C16.file-roundtrip", f"{fmt}:span", f"base {base:#x}: image of {total} bytes reloaded as {len(back)} bytes at {back.absolute_address:#x}"))
                    continue
                bdata = back.export()
                baddr = back.absolute_address
            except SPSDKError as e:
                e = str(e).replace(td, "<tmp>")
                st = set()
                M.stated_addresses(mroot, base, st)
                if (fmt == "BIN" and total == 0) or (fmt != "BIN" and not st):
                    C["file_nothing_to_store"] = C.get("file_nothing_to_store", 0) + 1
                else:
                    V.append(("C16.file-error", f"load:{fmt}:SPSDKError", f"base {base:#x}: {e}"))
                continue
            except Exception as e:  # noqa
                V.append(("C16.file-error", f"load:{fmt}:{type(e).__name__}", f"base {base:#x}: {str(e).replace(td, '<tmp>')}"))
                continue
            orig = M.picture(mroot, base)
            if fmt == "BIN":
                if bdata != M.flat(mroot):
                    V.append(("C16.file-roundtrip", "BIN:bytes", f"{bdata.hex()} vs {M.flat(mroot).hex()}"))
                continue
            got = {baddr + i: x for i, x in enumerate(bdata)}
            bad = [a for a in got if a not in orig or orig[a] != got[a]]
            st = set()
            M.stated_addresses(mroot, base, st)
            lost = [a for a in st if a not in got]
            if bad or lost:
                sparse: dict = {}
                _sparse_picture(mroot, base, sparse)
                explained = all(a in sparse and sparse[a] == got[a] for a in bad) and not lost
                disc = "sparse-fill-of-patternless-sub-image" if explained else (f"{fmt}:lost" if lost and not bad else f"{fmt}:bytes")
                a0 = min(bad or lost)
                V.append(("C16.file-roundtrip", disc,
                          f"base {base:#x}: first address {a0:#x}: file {got.get(a0)!r} image {orig.get(a0)!r}; "
                          f"{len(bad)} wrong, {len(lost)} lost; export {M.flat(mroot).hex()} reloaded@{baddr:#x} {bdata.hex()}"))
            if exec_addr is not None and back.execution_start_address != exec_addr:
                V.append(("C16.file-exec-address", fmt, f"base {base:#x}: saved {exec_addr!r} loaded {back.execution_start_address!r}"))
    iroot.offset = 0
    mroot.offset = 0


# ---------------------------------------------------------------------------------------------
# workers


def _winit() -> None:
    """Forked workers only: cap the address space at (inherited size + 3 GiB), so that a defect
    that makes the code under check allocate gigabytes (e.g. an image reloaded at a wrong 32-bit
    address and exported) surfaces as MemoryError in the case instead of killing the worker."""
    if str(os.getpid()) == _RUN_TAG:
        return
    try:
        import resource

        pages = int(open("/proc/self/statm").read().split()[0])
        lim = pages * os.sysconf("SC_PAGE_SIZE") + (3 << 30)
        resource.setrlimit(resource.RLIMIT_AS, (lim, lim))
    except Exception:  # noqa
        pass


def _explicit(sp: dict, codes) -> list:
    """codes: flat tuple (root_attr_idx, pid1, aidx1, pid2, aidx2, ...) -> explicit step list."""
    ra = sp["root_alpha"][codes[0]][0]
    hist = [[0, ra[0], ra[1], ra[2], ra[3], ra[4]]]
    for i in range(1, len(codes), 2):
        if codes[i] < 0:  # attribute assignment on node -(code+1)
            attr, val = sp["mut_alpha"][codes[i + 1]]
            hist.append(["set", -codes[i] - 1, attr, val])
            continue
        a = sp["step_alpha"][codes[i + 1]][0]
        hist.append([codes[i], a[0], a[1], a[2], a[3], a[4]])
    return hist


def _attach_points(sp: dict, hist: list) -> list[int]:
    depth = [1]
    kids = [0]
    for st in hist[1:]:
        if st[0] == "set":
            continue
        depth.append(depth[st[0]] + 1)
        kids.append(0)
        kids[st[0]] += 1
    out = []
    if len(depth) >= sp["max_nodes"]:
        return out
    for k in range(len(depth)):
        lim = sp["max_children_root"] if k == 0 else sp["max_children"]
        if kids[k] < lim and depth[k] < sp["max_depth"]:
            out.append(k)
    return out


def w_expand(task: Any) -> dict:
    """task = (space name, seed, need_hist, [(codes, used_weight), ...]); level-1 tasks carry
    codes == () and enumerate the roots."""
    name, seed, need_hist, states = task
    sp = _SPACES[name]
    V: list = []
    C: dict = {}
    succ = []
    hashes = array("Q")
    ntrans = 0
    ntraces = 0
    K = sp["weight"]
    for sidx, (codes, used) in enumerate(states):
        if not codes:
            moves = [((), i, w) for i, (_, w) in enumerate(sp["root_alpha"]) if K is None or w <= K]
        else:
            hist0 = _explicit(sp, codes)
            moves = []
            for pid in _attach_points(sp, hist0):
                for i, (_, w) in enumerate(sp["step_alpha"]):
                    if K is not None and used + w > K:
                        break  # alphabet is sorted by weight
                    moves.append(((pid,), i, w))
            if sp["mut_alpha"] and used + 1 <= K:
                nnodes = sum(1 for st in hist0 if st[0] != "set")
                for nid in range(nnodes):
                    for i, (attr, _) in enumerate(sp["mut_alpha"]):
                        if nid == 0 and attr == "offset":
                            continue  # the root's offset is the base address (varied by the observers)
                        moves.append(((-nid - 1,), i, 1))
        for pre, aidx, w in moves:
            ncodes = tuple(codes) + pre + (aidx,)
            hist = _explicit(sp, ncodes)
            v0 = len(V)
            facts = eval_history(hist, seed, sp["big_base"], V, C)
            ntrans += 1
            ntraces += facts["traces"]
            for j in range(v0, len(V)):
                V[j] = (V[j][0], V[j][1], V[j][2], hist)
            if facts.get("rejected"):
                continue
            key = facts["canon"] if not sp["mut_alpha"] else facts["ordered"]
            h = (chash(key) << 1) | (1 if facts["legal"] and not facts["over"] else 0)
            if need_hist:
                succ.append((h, ncodes, used + w))
            else:
                hashes.append(h)
    V = _dedupe_smallest(V)
    out = {"viol": V, "count": C, "transitions": ntrans, "traces": ntraces}
    if need_hist:
        out["succ"] = succ
    else:
        out["hashes"] = bytes(array("Q", sorted(set(hashes))).tobytes())
    return out


def _dedupe_smallest(V: list) -> list:
    best: dict = {}
    for v in V:
        k = (v[0], v[1])
        if k not in best or len(v[3]) < len(best[k][3]):
            best[k] = v
    return [best[k] for k in sorted(best)]


def w_files(task: Any) -> dict:
    name, seed, states, bases = task
    sp = _SPACES[name]
    V: list = []
    C: dict = {}
    for codes in states:
        hist = _explicit(sp, codes)
        v0 = len(V)
        eval_files(hist, seed, V, C, bases)
        for j in range(v0, len(V)):
            V[j] = (V[j][0], V[j][1], V[j][2], hist)
        C["file_states"] = C.get("file_states", 0) + 1
    return {"viol": _dedupe_smallest(V), "count": C}


def w_content(task: Any) -> dict:
    """Byte-content sweep for the file formats: task = (first-byte range lo, hi, second bytes).
    Every 1-byte content in the range and every 2-byte content (first x second) goes through BIN
    save + load; every first byte additionally through HEX and S19 at a 32-bit base address."""
    from spsdk.exceptions import SPSDKError
    from spsdk.utils.images import BinaryImage

    lo, hi, seconds = task
    V: list = []
    C: dict = {"content_cases": 0}
    td = _tmpdir()
    for first in range(lo, hi):
        contents = [bytes([first])] + [bytes([first, x]) for x in seconds]
        for data in contents:
            C["content_cases"] += 1
            if text_like(data):
                C["bin_content_ambiguous_with_text_formats"] = C.get("bin_content_ambiguous_with_text_formats", 0) + 1
                continue
            path = os.path.join(td, "c.bin")
            try:
                BinaryImage("c", binary=data).save_binary_image(path, "BIN")
                back = BinaryImage.load_binary_image(path)
                got = back.export()
                if got != data or back.absolute_address != 0:
                    V.append(("C16.file-roundtrip", "BIN:content", f"{data!r} -> {got!r} at {back.absolute_address:#x}", {"content": data, "fmt": "BIN"}))
            except SPSDKError as e:
                V.append(("C16.file-error", "load:BIN:content", f"{data!r}: {str(e).replace(td, '<tmp>')}", {"content": data, "fmt": "BIN"}))
            except Exception as e:  # noqa
                V.append(("C16.file-error", f"load:BIN:{type(e).__name__}", f"{data!r}: {str(e).replace(td, '<tmp>')}", {"content": data, "fmt": "BIN"}))
        data = bytes([first, first ^ 0xFF, first])
        for fmt in ("HEX", "S19"):
            C["content_cases"] += 1
            path = os.path.join(td, f"c.{fmt.lower()}")
            try:
                BinaryImage("c", binary=data, offset=0xFFFF_F000 + first).save_binary_image(path, fmt)
                back = BinaryImage.load_binary_image(path)
                got = back.export()
                if got != data or back.absolute_address != 0xFFFF_F000 + first:
                    V.append(("C16.file-roundtrip", f"{fmt}:content", f"{data!r} -> {got!r} at {back.absolute_address:#x}", {"content": data, "fmt": fmt}))
            except Exception as e:  # noqa
                V.append(("C16.file-error", f"{fmt}:content:{type(e).__name__}", f"{data!r}: {str(e).replace(td, '<tmp>')}", {"content": data, "fmt": fmt}))
    return {"viol": _dedupe_smallest_any(V), "count": C}


def _dedupe_smallest_any(V: list) -> list:
    best: dict = {}
    for v in V:
        best.setdefault((v[0], v[1]), v)
    return [best[k] for k in sorted(best)]


# ---------------------------------------------------------------------------------------------
# CLI representatives (nxpimage utils binary-image create / merge / convert)


def w_cli(task: Any) -> dict:
    import json

    from click.testing import CliRunner

    from spsdk.apps import nxpimage
    from spsdk.exceptions import SPSDKError
    from spsdk.utils.images import BinaryImage

    seed = task
    V: list = []
    C: dict = {"cli_invocations": 0}
    td = tempfile.mkdtemp(prefix="vf-c16-cli-", dir=_tmpdir())
    runner = CliRunner()

    def call(args):
        C["cli_invocations"] += 1
        r = runner.invoke(nxpimage.main, args, catch_exceptions=True)
        return r

    try:
        # create
        for size in (1, 5, 16):
            for pat in ("zeros", "ones", "inc", "0xA5"):
                out = os.path.join(td, "c.bin")
                if os.path.exists(out):
                    os.remove(out)
                r = call(["utils", "binary-image", "create", "-s", str(size), "-p", pat, "-o", out])
                exp = bytes(M.fill_byte(pat, i) for i in range(size))
                got = open(out, "rb").read() if os.path.exists(out) else None
                if r.exit_code != 0 or got != exp:
                    V.append(("C16.cli", "create", f"size {size} pattern {pat}: rc {r.exit_code} {got!r} vs {exp!r}: {r.output[-300:]}", {"cli": "create", "size": size, "pattern": pat}))
        # merge: explicit offsets, files and blocks, with and without -a
        d1 = bytes(b ^ 0x42 if b in (0, 0xFF, 0xA5) else b for b in core.seeded_bytes(seed, "c16|cli|1", 6))
        d2 = bytes(b ^ 0x42 if b in (0, 0xFF, 0xA5) else b for b in core.seeded_bytes(seed, "c16|cli|2", 4))
        open(os.path.join(td, "a.bin"), "wb").write(d1)
        open(os.path.join(td, "b.bin"), "wb").write(d2)
        layouts = [
            ("fits", 32, "0xA5", 1, [("file", "a.bin", 4), ("block", 3, 12, "ones"), ("file", "b.bin", 20)], True),
            ("adjacent", 0, "zeros", 1, [("file", "a.bin", 2), ("file", "b.bin", 8), ("block", 4, 12, "inc")], True),
            ("overlap-1-byte", 0, "zeros", 1, [("file", "a.bin", 2), ("file", "b.bin", 7)], False),
            ("sticks-out", 8, "zeros", 1, [("file", "a.bin", 3)], False),
            ("ends-at-size", 9, "ones", 1, [("file", "a.bin", 3)], True),
        ]
        for nm, size, pat, al, regions, ok in layouts:
            for adjust in (False, True):
                cfg: dict = {"name": nm, "pattern": pat, "alignment": al, "regions": []}
                if size:
                    cfg["size"] = size
                root = M.Node(0, size, al, None, pat, tag="root")
                for r_ in regions:
                    if r_[0] == "file":
                        cfg["regions"].append({"binary_file": {"path": r_[1], "offset": r_[2]}})
                        data = d1 if r_[1] == "a.bin" else d2
                        M.add(root, M.Node(r_[2], 0, 1, data, None, tag=r_[1]))
                    else:
                        cfg["regions"].append({"binary_block": {"size": r_[1], "offset": r_[2], "pattern": r_[3]}})
                        M.add(root, M.Node(r_[2], r_[1], 1, None, r_[3], tag="block"))
                if adjust:
                    M.shift_to_first_child(root)
                legal = not M.layout_errors(root)
                cpath = os.path.join(td, "m.json")
                open(cpath, "w").write(json.dumps(cfg))
                out = os.path.join(td, "m.bin")
                if os.path.exists(out):
                    os.remove(out)
                r = call(["utils", "binary-image", "merge", "-c", cpath, "-o", out] + (["-a"] if adjust else []))
                got = open(out, "rb").read() if os.path.exists(out) else None
                case = {"cli": "merge", "layout": nm, "adjust": adjust}
                if legal:
                    exp = M.flat(root)
                    if r.exit_code != 0 or got != exp:
                        V.append(("C16.cli", "merge:legal-layout", f"{nm} adjust={adjust}: rc {r.exit_code} {got and got.hex()} vs {exp.hex()}: {r.output[-300:]}", case))
                else:
                    if r.exit_code == 0 or got is not None:
                        V.append(("C16.cli", "merge:illegal-layout-accepted", f"{nm} adjust={adjust}: rc {r.exit_code}", case))
                    elif r.exception is not None and not isinstance(r.exception, (SystemExit, SPSDKError)):
                        V.append(("C16.cli", "merge:error-type", f"{nm}: {type(r.exception).__name__}: {r.exception}", case))
        # merge: omitted offsets ("placed after previous one with defined alignment"), derived size
        cfg = {"name": "auto", "pattern": "0xA5", "alignment": 4, "regions": [
            {"binary_file": {"path": "a.bin"}}, {"binary_block": {"size": 3, "pattern": "inc"}}, {"binary_file": {"path": "b.bin"}}]}
        root = M.Node(0, 0, 4, None, "0xA5", tag="root")
        for node in (M.Node(0, 0, 1, d1, None, tag="a"), M.Node(0, 3, 1, None, "inc", tag="blk"), M.Node(0, 0, 1, d2, None, tag="b")):
            node.offset = M.round_up(M.length(root), 4)
            M.add(root, node)
        cpath = os.path.join(td, "auto.json")
        open(cpath, "w").write(json.dumps(cfg))
        out = os.path.join(td, "auto.bin")
        r = call(["utils", "binary-image", "merge", "-c", cpath, "-o", out])
        got = open(out, "rb").read() if os.path.exists(out) else None
        if r.exit_code != 0 or got != M.flat(root):
            V.append(("C16.cli", "merge:omitted-offsets", f"rc {r.exit_code} {got and got.hex()} vs {M.flat(root).hex()}: {r.output[-300:]}", {"cli": "merge", "layout": "auto"}))
        # merge: regions with explicit offsets in either order give the same image (a HEX file
        # with two segments and a gap, and a pattern block)
        two = BinaryImage("two")
        two.add_image(BinaryImage("s0", binary=d1[:4], offset=0))
        two.add_image(BinaryImage("s1", binary=d2, offset=8))
        two.save_binary_image(os.path.join(td, "two.hex"), "HEX")
        regs = [{"binary_block": {"size": 2, "offset": 0, "pattern": "ones"}}, {"binary_file": {"path": "two.hex", "offset": 4}}]
        outs = []
        for order in (0, 1):
            cfg = {"name": "order", "pattern": "0xA5", "regions": regs if order == 0 else regs[::-1]}
            cpath = os.path.join(td, f"order{order}.json")
            open(cpath, "w").write(json.dumps(cfg))
            out = os.path.join(td, f"order{order}.bin")
            r = call(["utils", "binary-image", "merge", "-c", cpath, "-o", out])
            outs.append(open(out, "rb").read() if r.exit_code == 0 and os.path.exists(out) else None)
        if outs[0] is None or outs[1] is None:
            V.append(("C16.cli", "merge:legal-layout", f"two-segment file + block refused: {outs}", {"cli": "merge", "layout": "order"}))
        elif outs[0] != outs[1]:
            V.append(("C16.cli", "merge:region-order-changes-bytes", f"block first: {outs[0].hex()}  file first: {outs[1].hex()}", {"cli": "merge", "layout": "order"}))
        # convert chain BIN -> HEX -> S19 -> BIN
        src = os.path.join(td, "a.bin")
        chain = [("HEX", "x.hex"), ("S19", "x.s19"), ("BIN", "x.bin"), ("S19", "y.s19"), ("HEX", "y.hex"), ("BIN", "y.bin")]
        cur = src
        for fmt, fn in chain:
            out = os.path.join(td, fn)
            r = call(["utils", "binary-image", "convert", "-i", cur, "-f", fmt, "-o", out])
            if r.exit_code != 0 or not os.path.exists(out):
                V.append(("C16.cli", "convert:fails", f"{cur} -> {fmt}: rc {r.exit_code}: {r.output[-300:]}", {"cli": "convert", "to": fmt}))
                break
            cur = out
            if fmt == "BIN" and open(out, "rb").read() != d1:
                V.append(("C16.cli", "convert:bytes", f"{fn}: {open(out, 'rb').read().hex()} vs {d1.hex()}", {"cli": "convert", "to": fmt}))
    finally:
        shutil.rmtree(td, ignore_errors=True)
    return {"viol": V, "count": C}


# ---------------------------------------------------------------------------------------------
# the explorer


def _cleanup_tmp() -> None:
    global _TMP
    for d in ("/dev/shm", tempfile.gettempdir()):
        if os.path.isdir(d):
            for fn in os.listdir(d):
                if fn.startswith(f"vf-c16-{_RUN_TAG}-"):
                    shutil.rmtree(os.path.join(d, fn), ignore_errors=True)
    _TMP = None


def _absorb(ctx: core.Ctx, task_descr: Any, res: Any, seed: int) -> bool:
    viol = res.get("viol", []) if isinstance(res, dict) else []
    slim = dict(res) if isinstance(res, dict) else res
    if isinstance(slim, dict):
        slim["viol"] = []
    ok = ctx.absorb(task_descr, slim)
    for v in viol:
        case = v[3] if isinstance(v[3], dict) else {"hist": v[3]}
        case = dict(case)
        case["seed"] = seed
        ctx.viol(v[0], v[1], case, v[2])
    return ok


def run(ctx: core.Ctx) -> None:
    import time as _time

    seed = ctx.seed
    sps = [_prepare(s) for s in spaces(ctx.tier)]
    only = os.environ.get("VERIF_C16_ONLY")  # development aid: restrict to some spaces (never exhaustive)
    if only:
        sps = [s for s in sps if s["name"] in only.split(",")]
        ctx.exhaustive = False
    for s in sps:
        _SPACES[s["name"]] = s
    _cleanup_tmp()
    all_states: set = set()
    tables: dict = {}
    tot = {"trans": 0, "traces": 0, "files": 0, "stop": False}
    file_states: list = []  # (space, codes) of every distinct legal state of the spaces with files=True
    file_seen: set = set()
    phases: dict = {}
    t_phase = [_time.time()]

    def mark(label: str) -> None:
        now = _time.time()
        phases[label] = round(phases.get(label, 0.0) + now - t_phase[0], 2)
        t_phase[0] = now

    def bfs(sp: dict) -> None:
        name = sp["name"]
        tab = {"levels": [], "root_alphabet": len(sp["root_alpha"]), "step_alphabet": len(sp["step_alpha"]),
               "weight_bound": sp["weight"], "max_nodes": sp["max_nodes"], "max_depth": sp["max_depth"],
               "domains": {"root": sp["root"], "step": sp["step"]}, "completed_levels": 0}
        tables[name] = tab
        frontier = [((), 0)]
        # a level = all histories of that length; without assignment steps that is the number of
        # images, with them a history has up to max_nodes constructions + `weight` assignments
        max_level = sp["max_nodes"] + (sp["weight"] if sp["mut_alpha"] else 0)
        tab["max_history_length"] = max_level
        tab["assignment_alphabet"] = [list(x) for x in sp["mut_alpha"]]
        seen_space: set = set()  # states of earlier levels (only needed with assignment steps)
        for level in range(1, max_level + 1):
            if tot["stop"] or not frontier:
                break
            last = level == max_level
            need_hist = (not last) or sp["files"]
            # task sizing: ~3000 transitions per task
            if level == 1:
                fan = len(sp["root_alpha"])
            elif sp["mut_alpha"]:
                fan = (level - 1) * (len(sp["step_alpha"]) + len(sp["mut_alpha"]))
            else:
                fan = max(1, (level - 1) * len(sp["step_alpha"]) // (1 if sp["weight"] is None else 8))
            chunk = max(1, min(256, 3000 // max(1, fan)))
            tasks = [(name, seed, need_hist, frontier[i:i + chunk]) for i in range(0, len(frontier), chunk)]
            new: dict = {}
            order: list = []
            lvl_trans = 0
            lvl_hashes: set = set()
            done = True
            for case, res in ctx.pool_map(w_expand, tasks, timeout=300, chunksize=1, initfn=_winit,
                                          check_det=(2 if level == 2 else 0)):
                descr = {"space": name, "level": level, "states": len(case[3]), "first": case[3][0][0]}
                if isinstance(res, dict) and res.get("__watchdog__"):
                    # keep the whole chunk so that --replay can re-expand it state by state
                    descr.update({"tier": ctx.tier, "seed": seed, "expand": [[list(c), w] for c, w in case[3]]})
                if not _absorb(ctx, descr, res, seed):
                    ctx.exhaustive = False  # the successors of this chunk are missing
                    continue
                lvl_trans += res["transitions"]
                tot["traces"] += res["traces"]
                if need_hist:
                    for h, codes, w in res["succ"]:
                        if h in seen_space:
                            continue  # reached before by a shorter history (fewer assignments used)
                        cur = new.get(h)
                        if cur is None:
                            new[h] = [codes, w]
                            order.append(h)
                        elif w < cur[1]:
                            cur[1] = w
                    lvl_hashes.update(h for h, _, _ in res["succ"])
                else:
                    lvl_hashes.update(array("Q", res["hashes"]))
                if ctx.out_of_budget():
                    done = False
                    tot["stop"] = True
                    break
            tot["trans"] += lvl_trans
            legal = sum(1 for h in lvl_hashes if h & 1)
            if sp["mut_alpha"]:
                seen_space.update(lvl_hashes)
            tab["levels"].append({"images": None if sp["mut_alpha"] else level, "history_length": level,
                                  "states_expanded": len(frontier), "transitions": lvl_trans,
                                  "distinct_states": len(lvl_hashes), "distinct_legal_states": legal, "complete": done})
            all_states.update(lvl_hashes)
            del lvl_hashes
            mark(f"bfs:{name}")
            if not done:
                break
            tab["completed_levels"] = level
            if sp["files"]:
                for h in order:
                    if h & 1 and h not in file_seen:
                        file_seen.add(h)
                        file_states.append((name, new[h][0]))
            frontier = [(new[h][0], new[h][1]) for h in order] if need_hist else []
            if level <= 3 and order:
                ctx.sample({"space": name, "hist": _explicit(sp, new[order[len(order) // 2]][0])})

    # 1. the spaces whose legal states also go through the file formats
    for sp in sps:
        if sp["files"]:
            bfs(sp)
    # 2. file formats on every distinct legal state of those spaces
    if not tot["stop"] and file_states:
        chunk = 200
        tasks = []
        fbases = BASES_FILE_THOROUGH if ctx.tier == "thorough" else BASES_FILE
        ctx.cov["file_base_addresses"] = [hex(x) for x in fbases]
        byspace: dict = {}
        for name, codes in file_states:
            byspace.setdefault(name, []).append(codes)
        for name, lst in byspace.items():
            tasks += [(name, seed, lst[i:i + chunk], fbases) for i in range(0, len(lst), chunk)]
        for case, res in ctx.pool_map(w_files, tasks, timeout=300, chunksize=1, check_det=1, initfn=_winit):
            if _absorb(ctx, {"files": case[0], "states": len(case[2])}, res, seed):
                tot["files"] += res["count"].get("file_states", 0)
            if ctx.out_of_budget():
                tot["stop"] = True
                break
        mark("files")
    # 3. byte-content sweep of the file formats
    if not tot["stop"]:
        seconds = list(range(256)) if ctx.tier == "thorough" else [0x00, 0x0A, 0x20, 0x30, 0x41, 0x80, 0xFF]
        tasks = [(lo, lo + 8, seconds) for lo in range(0, 256, 8)]
        for case, res in ctx.pool_map(w_content, tasks, timeout=300, chunksize=1, check_det=1, initfn=_winit):
            _absorb(ctx, {"content": [case[0], case[1]], "second_bytes": len(case[2])}, res, seed)
        ctx.cov["content_sweep"] = {"one_byte": 256, "two_byte": 256 * len(seconds), "hex_s19_values": 256}
        mark("content")
    # 4. CLI representatives
    if not tot["stop"]:
        for case, res in ctx.pool_map(w_cli, [seed], timeout=600, chunksize=1, check_det=0, nproc=1):
            _absorb(ctx, {"cli": True}, res, seed)
        mark("cli")
    # 5. the remaining spaces (in-memory clauses only)
    for sp in sps:
        if not sp["files"]:
            bfs(sp)
    _cleanup_tmp()
    # absorb() counted worker tasks; report executed traces + file pairs + content cases + CLI calls
    ctx.counters["evaluations"] = (tot["traces"] + sum(ctx.counters.get(f"file_{f}", 0) for f in ("BIN", "HEX", "S19"))
                                   + ctx.counters.get("content_cases", 0) + ctx.counters.get("cli_invocations", 0))
    ctx.cov["phase_wall_s"] = phases
    total_trans, total_traces, nfiles, stop = tot["trans"], tot["traces"], tot["files"], tot["stop"]
    legal_states = sum(1 for h in all_states if h & 1)
    ctx.cov["states"] = len(all_states)
    ctx.cov["transitions"] = total_trans
    ctx.cov["traces_validated_against_impl"] = total_traces
    ctx.cov["distinct_nontrivial"] = len(all_states)
    ctx.distinct = all_states  # only its size is read by the runner's summary line
    ctx.cov["distinct_legal_states_fully_compared"] = legal_states
    ctx.cov["file_format_states"] = nfiles
    ctx.cov["spaces"] = tables
    ctx.cov["bounds"] = {s["name"]: {"max_images": s["max_nodes"], "max_depth": s["max_depth"],
                                     "weight_bound": s["weight"],
                                     "completed_levels": tables.get(s["name"], {}).get("completed_levels", 0)}
                         for s in sps}
    ctx.rule = (
        "BFS over construction histories of real BinaryImage trees: step 0 = root attributes, step k = (existing image, "
        "add_image@offset | append_image, size, alignment, own binary length, pattern); every distinct canonical tree of a "
        "level is expanded with every step of the space's alphabet at every attach point (children <= 3 at the root, <= 2 "
        "elsewhere; depth bound per space); 'wide' and 'siblings' take the full cross product of their domains, 'deep'/'deeper' all "
        "histories with <= K non-default attributes in total, 'relocate' additionally takes <= R assignments of offset / size / "
        "binary to an existing image anywhere in the history.  A case is distinct when its canonical tree (offsets, "
        "reported explicit sizes, alignments, binaries, patterns, children sorted) was not reached before; non-trivial = "
        "every counted state was built on real objects and compared with the model (len of every image, validate verdict, "
        "and for legal layouts export bytes, address lookups, join, update_offsets); evaluations = executed traces "
        "(histories replayed on the implementation) + file save/load pairs + CLI invocations")
    ctx.assumptions += [
        "offsets, sizes, alignments, binary lengths and patterns outside the stated domains are not explored; byte "
        "contents are one seeded pattern per (depth, attribute tuple), fill values 00/FF/A5 remapped",
        "an image of length 0 lying strictly inside a sibling is a don't-care for validate() (shares no byte with it)",
        "an image whose own binary is longer than its explicit size has no defined picture: the implementation must "
        "refuse it (SPSDKError) or export exactly len() bytes; contents are then not compared",
        "export()/lookups/files are only demanded on layouts the predicate calls legal",
        "HEX/S19: implicit zero fill of pattern-less images may be absent from the file; every address present after "
        "reload must hold the byte export() puts there, every byte of a binary or explicit pattern must be present",
        "update_offsets on an image without sub-images (bare ValueError from min()) is outside the operation's domain",
        "top-down histories only (a new image is attached to an image already in the tree); bottom-up construction reaches "
        "the same trees because append reads only the parent's current length",
    ]
    if stop:
        ctx.exhaustive = False


# ---------------------------------------------------------------------------------------------


def replay(ctx: core.Ctx, rec: dict) -> bool:
    case = rec["case"]
    seed = int(case.get("seed", 0))
    V: list = []
    C: dict = {}
    if "expand" in case:
        for sp in spaces(case.get("tier", "quick")):
            _SPACES[sp["name"]] = _prepare(sp)
        for codes, w in case["expand"]:
            res = core.run_with_watchdog(w_expand, (case["space"], seed, False, [(tuple(codes), w)]), 120)
            if res.get("__watchdog__"):
                print("watchdog: expanding the state reached by", _explicit(_SPACES[case["space"]], tuple(codes)) if codes else "<roots>",
                      "does not terminate")
                return True
        return False
    if "cli" in case:
        res = w_cli(seed)
        V = [(v[0], v[1], v[2]) for v in res["viol"]]
    elif "content" in case:
        first = case["content"][0]
        res = w_content((first, first + 1, list(range(256))))
        V = [(v[0], v[1], v[2]) for v in res["viol"]]
        _cleanup_tmp()
    else:
        hist = [list(s) for s in case["hist"]]
        eval_history(hist, seed, True, V, C)
        if rec["clause"].startswith("C16.file"):
            eval_files(hist, seed, V, C, BASES_FILE_THOROUGH)
        _cleanup_tmp()
    _cleanup_tmp()
    hits = [v for v in V if v[0] == rec["clause"] and v[1] == rec["disc"]]
    for h in hits[:5]:
        print(h[0], h[1], h[2][:600])
    return bool(hits)
